#!/bin/sh
# build the mirfacts driver (nightly, zero dependencies) and prime the dependency cache; offline
set -e
cd "$(dirname "$0")"
export CARGO_NET_OFFLINE=true
(cd engine/driver && cargo build --release --offline)
python3 engine/rules/extract.py default >/dev/null
echo setup ok
