//! controls for the completion rules (C10)
pub struct P { pub inner: Option<Box<dyn FnOnce(u8)>> }

/// VIOLATING: invokes a stored callback without taking it out of the Option first
pub fn complete_without_take(cb: Box<dyn FnOnce(u8)>) { cb(1) }

pub fn leak(v: Vec<u8>) { std::mem::forget(v) }
