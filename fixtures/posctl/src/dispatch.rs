//! controls for guard / dominance / reachability rules (C02, C08, C17)

pub enum Authorization { Allow, Deny }
pub struct Handler { pub n: u32 }
impl Handler {
    pub fn effect(&mut self, v: u16) { self.n += v as u32; }
}
fn authorize(v: u16) -> Authorization { if v > 3 { Authorization::Deny } else { Authorization::Allow } }
fn parse(v: u16) -> Result<u16, ()> { if v == 7 { Err(()) } else { Ok(v) } }

/// VIOLATING: the handler effect is reachable from the Deny edge
pub fn bad_effect_on_deny(h: &mut Handler, v: u16) {
    match authorize(v) {
        Authorization::Deny => { h.effect(v); }
        Authorization::Allow => { h.effect(v); }
    }
}

/// COMPLIANT twin: early return on deny, written with `if let`
pub fn good_effect_after_allow(h: &mut Handler, v: u16) {
    if let Authorization::Deny = authorize(v) {
        return;
    }
    h.effect(v);
}

/// VIOLATING: effect before the parse result is checked
pub fn bad_effect_before_parse(h: &mut Handler, v: u16) -> Result<(), ()> {
    let r = parse(v);
    h.effect(v);
    let _x = r?;
    Ok(())
}

/// COMPLIANT twin
pub fn good_effect_after_parse(h: &mut Handler, v: u16) -> Result<(), ()> {
    let x = match parse(v) { Ok(x) => x, Err(e) => return Err(e) };
    h.effect(x);
    Ok(())
}

/// VIOLATING: effect inside a loop (not exactly once)
pub fn bad_effect_in_loop(h: &mut Handler, v: u16) {
    for _ in 0..v { h.effect(1); }
}
