//! controls for must-pass-through (P5/P13) and comparison-fact rules (C01, C03, C04, C05)

pub struct Cursor { pub len: usize }
impl Cursor {
    pub fn read_u8(&mut self) -> Result<u8, ()> { if self.len == 0 { Err(()) } else { self.len -= 1; Ok(7) } }
    pub fn expect_empty(&self) -> Result<(), ()> { if self.len == 0 { Ok(()) } else { Err(()) } }
}

/// VIOLATING: the result of expect_empty is dropped, so trailing bytes are accepted
pub fn parse_unchecked_tail(c: &mut Cursor) -> Result<u8, ()> {
    let v = c.read_u8()?;
    let _ = c.expect_empty();
    Ok(v)
}

fn finish(c: &mut Cursor, v: u8) -> Result<u8, ()> {
    c.expect_empty()?;
    Ok(v)
}

/// COMPLIANT twin: the check lives in a private helper
pub fn parse_checked_via_helper(c: &mut Cursor) -> Result<u8, ()> {
    let v = c.read_u8()?;
    finish(c, v)
}

pub const LIMIT: u16 = 100;

/// VIOLATING: accepts without comparing against the limit
pub fn accept_unlimited(count: u16) -> Result<u16, ()> {
    if count == 0 { return Err(()); }
    Ok(count)
}

/// COMPLIANT, comparison written the other way round
pub fn accept_limited_flipped(count: u16) -> Result<u16, ()> {
    if !(LIMIT >= count) { return Err(()); }
    Ok(count)
}
