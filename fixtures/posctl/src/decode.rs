//! controls for the decode non-interference rule (C20)
pub struct Level(pub u8);
impl Level { pub fn enabled(&self) -> bool { self.0 != 0 } }
pub struct S { pub level: Level, pub sent: u32 }
/// VIOLATING: a state change that happens only when decoding is enabled
pub fn bad_effect_under_decode(s: &mut S) {
    if s.level.enabled() { s.sent += 1; }
}
