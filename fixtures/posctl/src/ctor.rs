//! controls for the parameter-forwarding rule (C16)
pub enum Filter { Any, Exact(u8) }
pub fn inner(f: Filter) -> u8 { match f { Filter::Any => 0, Filter::Exact(x) => x } }
/// VIOLATING: ignores its parameter and passes a constant
pub fn bad_constructor(filter: Filter) -> u8 { let _ = filter; inner(Filter::Any) }
pub fn good_constructor(filter: Filter) -> u8 { inner(filter) }
