//! Positive controls for the /verif rule engine: deliberately violating constructs (and compliant
//! twins written differently) that the rules must see / must not see on every run.
#![allow(dead_code, unused)]
pub mod dispatch;
pub mod parsing;
pub mod loops;
pub mod promise;
pub mod ctor;
pub mod decode;
