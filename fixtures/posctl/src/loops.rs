//! controls for the loop / panic-inventory rules (C07)
use std::sync::atomic::{AtomicBool, Ordering};

/// VIOLATING: spins without awaiting or consuming an iterator
pub fn spin_until_flag(flag: &AtomicBool) {
    loop {
        if flag.load(Ordering::Relaxed) { return; }
    }
}

/// VIOLATING: `x + 1` on a u16 with no guard
pub fn unguarded_increment(x: u16) -> u16 { x + 1 }

/// COMPLIANT: guard written as a comparison with MAX
pub fn guarded_increment(x: u16) -> u16 {
    if x == u16::MAX { 0 } else { x + 1 }
}

pub fn slice_index(v: &[u8], n: usize) -> &[u8] { &v[0..n] }
pub fn plain_unwrap(v: Option<u8>) -> u8 { v.unwrap() }

pub fn has_unsafe(p: *const u8) -> u8 { unsafe { *p } }
