//! E6: compile-fail witnesses for the type-level remainder of C02 / C03 / C19.
//! Each witness carries its error code and a compiling twin that differs only by the offending line.
//! Run with `cargo +nightly test --doc --offline` (error codes are only checked on nightly).

/// C02 / C19: read handlers take `&self` — a read cannot change application state without interior mutability.
/// ```compile_fail,E0594
/// use rodbus::server::RequestHandler;
/// use rodbus::ExceptionCode;
/// struct H { reads: u32 }
/// impl RequestHandler for H {
///     fn read_coil(&self, _address: u16) -> Result<bool, ExceptionCode> {
///         self.reads += 1; // cannot assign: `self` is a `&` reference
///         Ok(true)
///     }
/// }
/// ```
/// compiling twin (the write handler takes `&mut self`):
/// ```
/// use rodbus::server::RequestHandler;
/// use rodbus::{ExceptionCode, Indexed};
/// struct H { writes: u32 }
/// impl RequestHandler for H {
///     fn write_single_coil(&mut self, _value: Indexed<bool>) -> Result<(), ExceptionCode> {
///         self.writes += 1;
///         Ok(())
///     }
/// }
/// ```
pub struct ReadHandlersAreShared;

/// C03: the limit-carrying range newtype is not nameable by users, so a read request that skipped the
/// 2000 / 125 check cannot be forged through the public API.
/// ```compile_fail,E0603
/// use rodbus::ReadBitsRange;
/// ```
/// compiling twin:
/// ```
/// use rodbus::AddressRange;
/// let _ = AddressRange::try_from(0, 1);
/// ```
pub struct LimitNewtypeIsPrivate;

/// C03: `WriteMultiple` cannot be built field by field (range / values are private): `from` is the only way in.
/// ```compile_fail,E0451
/// use rodbus::client::WriteMultiple;
/// use rodbus::AddressRange;
/// let _ = WriteMultiple::<u16> { range: AddressRange::try_from(0, 1).unwrap(), values: vec![1] };
/// ```
/// compiling twin:
/// ```
/// use rodbus::client::WriteMultiple;
/// let _ = WriteMultiple::<u16>::from(0, vec![1]);
/// ```
pub struct WriteMultipleFieldsArePrivate;

/// C10: the transaction id type and the promise types are crate-private: user code cannot complete or forge a reply.
/// ```compile_fail,E0603
/// let _ = rodbus::client::message::Promise::<u16>::new(|_| {});
/// ```
/// compiling twin:
/// ```
/// let _ = rodbus::client::RequestParam::new(rodbus::UnitId::new(1), std::time::Duration::from_secs(1));
/// ```
pub struct PromisesArePrivate;
