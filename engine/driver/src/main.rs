#![feature(rustc_private)]
#![feature(box_patterns)]
extern crate rustc_driver;
extern crate rustc_hir;
extern crate rustc_interface;
extern crate rustc_middle;
extern crate rustc_span;
extern crate rustc_abi;

use rustc_driver::Compilation;
use rustc_hir::def::DefKind;
use rustc_hir::def_id::{DefId, LOCAL_CRATE};
use rustc_middle::mir::{self, AggregateKind, Operand, Place, ProjectionElem, Rvalue, StatementKind, TerminatorKind};
use rustc_middle::ty::{self, Ty, TyCtxt, TypeVisitableExt};
use std::fmt::Write as _;

fn esc(s: &str) -> String {
    let mut o = String::with_capacity(s.len() + 2);
    o.push('"');
    for c in s.chars() {
        match c {
            '"' => o.push_str("\\\""),
            '\\' => o.push_str("\\\\"),
            '\n' => o.push_str("\\n"),
            '\r' => o.push_str("\\r"),
            '\t' => o.push_str("\\t"),
            c if (c as u32) < 0x20 => { let _ = write!(o, "\\u{:04x}", c as u32); }
            c => o.push(c),
        }
    }
    o.push('"');
    o
}

fn tystr<'tcx>(ty: Ty<'tcx>) -> String {
    ty::print::with_no_trimmed_paths!(ty.to_string())
}

struct Cx<'a, 'tcx> {
    tcx: TyCtxt<'tcx>,
    body: &'a mir::Body<'tcx>,
    did: DefId,
}

impl<'a, 'tcx> Cx<'a, 'tcx> {
    fn place(&self, p: &Place<'tcx>) -> String {
        let mut out = format!("{{\"l\":{},\"p\":[", p.local.as_u32());
        let mut first = true;
        for (base, elem) in p.iter_projections() {
            if !first { out.push(','); }
            first = false;
            let s = match elem {
                ProjectionElem::Deref => "deref".to_string(),
                ProjectionElem::Field(f, _) => {
                    let bty = base.ty(self.body, self.tcx);
                    let mut name = String::new();
                    if let ty::Adt(adt, _) = bty.ty.kind() {
                        let v = match bty.variant_index { Some(v) => v, None => rustc_abi::FIRST_VARIANT };
                        if adt.is_struct() || adt.is_enum() || adt.is_union() {
                            if let Some(var) = adt.variants().get(v) {
                                if let Some(fd) = var.fields.get(f) { name = fd.name.to_string(); }
                            }
                        }
                    }
                    format!("field:{}:{}", f.as_u32(), name)
                }
                ProjectionElem::Downcast(name, idx) => format!("downcast:{}:{}", idx.as_u32(), name.map(|n| n.to_string()).unwrap_or_default()),
                ProjectionElem::Index(_) => "index".to_string(),
                ProjectionElem::ConstantIndex { offset, .. } => format!("cidx:{}", offset),
                ProjectionElem::Subslice { .. } => "subslice".to_string(),
                _ => "other".to_string(),
            };
            out.push_str(&esc(&s));
        }
        out.push_str("]}");
        out
    }

    fn operand(&self, o: &Operand<'tcx>) -> String {
        match o {
            Operand::Copy(p) => format!("{{\"k\":\"copy\",\"pl\":{}}}", self.place(p)),
            Operand::Move(p) => format!("{{\"k\":\"move\",\"pl\":{}}}", self.place(p)),
            Operand::Constant(c) => {
                let ty = c.const_.ty();
                let mut s = format!("{{\"k\":\"const\",\"ty\":{}", esc(&tystr(ty)));
                if let ty::FnDef(d, _) = ty.kind() {
                    let _ = write!(s, ",\"fn\":{}", esc(&self.tcx.def_path_str(*d)));
                }
                if let mir::Const::Unevaluated(u, _) = c.const_ {
                    let _ = write!(s, ",\"def\":{}", esc(&self.tcx.def_path_str(u.def)));
                    if let Some(p) = u.promoted { let _ = write!(s, ",\"promoted\":{}", p.as_u32()); }
                }
                // NO const evaluation here: evaluating an Unevaluated const can steal MIR of local const fns
                if let mir::Const::Val(v, _) = c.const_ {
                    if let Some(si) = v.try_to_scalar_int() {
                        let _ = write!(s, ",\"val\":{}", esc(&format!("{}", si.to_bits_unchecked())));
                    }
                    if !matches!(ty.kind(), ty::FnDef(..)) {
                        let r: String = ty::print::with_no_trimmed_paths!(format!("{}", c.const_)).chars().take(160).collect();
                        let _ = write!(s, ",\"repr\":{}", esc(&r));
                    }
                }
                s.push('}');
                s
            }
            #[allow(unreachable_patterns)]
            _ => format!("{{\"k\":\"other\",\"dbg\":{}}}", esc(&format!("{:?}", o))),
        }
    }

    fn adt_info(&self, ty: Ty<'tcx>) -> String {
        // for discriminant switches: list variants with discriminant values
        let ty = match ty.kind() { ty::Ref(_, t, _) => *t, _ => ty };
        if let ty::Adt(adt, _) = ty.kind() {
            if adt.is_enum() {
                let mut s = format!("{{\"adt\":{},\"variants\":[", esc(&self.tcx.def_path_str(adt.did())));
                let mut first = true;
                for (vi, d) in adt.discriminants(self.tcx) {
                    if !first { s.push(','); }
                    first = false;
                    let _ = write!(s, "[{},{}]", esc(&adt.variant(vi).name.to_string()), esc(&format!("{}", d.val)));
                }
                s.push_str("]}");
                return s;
            }
        }
        format!("{{\"ty\":{}}}", esc(&tystr(ty)))
    }

    fn rvalue(&self, r: &Rvalue<'tcx>) -> String {
        match r {
            Rvalue::Use(o, _) => format!("{{\"r\":\"use\",\"a\":[{}]}}", self.operand(o)),
            Rvalue::Ref(_, bk, p) => format!("{{\"r\":\"ref\",\"mut\":{},\"pl\":{}}}", matches!(bk, mir::BorrowKind::Mut { .. }), self.place(p)),
            Rvalue::RawPtr(_, p) => format!("{{\"r\":\"rawptr\",\"pl\":{}}}", self.place(p)),
            Rvalue::CopyForDeref(p) => format!("{{\"r\":\"copyderef\",\"pl\":{}}}", self.place(p)),
            Rvalue::BinaryOp(op, box (a, b)) => format!("{{\"r\":\"bin\",\"op\":{},\"a\":[{},{}]}}", esc(&format!("{:?}", op)), self.operand(a), self.operand(b)),
            Rvalue::UnaryOp(op, a) => format!("{{\"r\":\"un\",\"op\":{},\"a\":[{}]}}", esc(&format!("{:?}", op)), self.operand(a)),
            Rvalue::Cast(k, a, t) => format!("{{\"r\":\"cast\",\"kind\":{},\"a\":[{}],\"ty\":{}}}", esc(&format!("{:?}", k)), self.operand(a), esc(&tystr(*t))),
            Rvalue::Discriminant(p) => {
                let pty = p.ty(self.body, self.tcx).ty;
                format!("{{\"r\":\"discr\",\"pl\":{},\"of\":{}}}", self.place(p), self.adt_info(pty))
            }
            Rvalue::Aggregate(box kind, fields) => {
                let mut s = String::from("{\"r\":\"agg\",");
                match kind {
                    AggregateKind::Adt(d, vi, _, _, _) => {
                        let adt = self.tcx.adt_def(*d);
                        let v = adt.variant(*vi);
                        let _ = write!(s, "\"adt\":{},\"variant\":{},\"fields\":[", esc(&self.tcx.def_path_str(*d)), esc(&v.name.to_string()));
                        let mut first = true;
                        for f in v.fields.iter() { if !first { s.push(','); } first = false; s.push_str(&esc(&f.name.to_string())); }
                        s.push_str("],");
                    }
                    AggregateKind::Tuple => s.push_str("\"tuple\":true,"),
                    AggregateKind::Array(_) => s.push_str("\"array\":true,"),
                    AggregateKind::Closure(d, _) => { let _ = write!(s, "\"closure\":{},", esc(&self.tcx.def_path_str(*d))); }
                    AggregateKind::Coroutine(d, _) => { let _ = write!(s, "\"coroutine\":{},", esc(&self.tcx.def_path_str(*d))); }
                    _ => s.push_str("\"otherkind\":true,"),
                }
                s.push_str("\"a\":[");
                let mut first = true;
                for f in fields.iter() { if !first { s.push(','); } first = false; s.push_str(&self.operand(f)); }
                s.push_str("]}");
                s
            }
            Rvalue::Repeat(a, _) => format!("{{\"r\":\"repeat\",\"a\":[{}]}}", self.operand(a)),
            _ => format!("{{\"r\":\"other\",\"dbg\":{}}}", esc(&format!("{:?}", r))),
        }
    }

    fn span(&self, sp: rustc_span::Span) -> String {
        let sm = self.tcx.sess.source_map();
        let exp = sp.from_expansion();
        let mut mac = String::new();
        if exp {
            if let Some(bt) = sp.macro_backtrace().last() {
                mac = format!("{}", bt.kind.descr());
                if let Some(md) = bt.macro_def_id { mac = format!("{}:{}", self.tcx.crate_name(md.krate), self.tcx.def_path_str(md)); }
            }
        }
        let root = sp.source_callsite();
        let lo = sm.lookup_char_pos(root.lo());
        format!("{{\"file\":{},\"line\":{},\"exp\":{},\"mac\":{}}}", esc(&format!("{}", lo.file.name.prefer_remapped_unconditionally())), lo.line, exp, esc(&mac))
    }
}


fn dump_body<'tcx>(tcx: TyCtxt<'tcx>, ldid: rustc_hir::def_id::LocalDefId, out: &mut String) {
    let did = ldid.to_def_id();
    let kind = tcx.def_kind(did);
    if !matches!(kind, DefKind::Fn | DefKind::AssocFn | DefKind::Closure | DefKind::SyntheticCoroutineBody | DefKind::Static { .. } | DefKind::Const { .. } | DefKind::AssocConst { .. }) { return; }
    let (steal, promoted) = tcx.mir_promoted(ldid);
    if steal.is_stolen() {
        // a `const fn` evaluated during type checking (array lengths): its pre-borrowck MIR is gone, use the final one
        if matches!(kind, DefKind::Fn | DefKind::AssocFn) {
            let body = tcx.optimized_mir(did);
            dump_mir(tcx, did, body, None, out);
        } else if matches!(kind, DefKind::Const { .. } | DefKind::AssocConst { .. }) {
            // constants evaluated during type checking (array lengths): value comes from the const pass instead
            let _ = write!(out, "{{\"stolen_const\":{}}}\n", esc(&tcx.def_path_str(did)));
        } else {
            let _ = write!(out, "{{\"stolen\":{}}}\n", esc(&tcx.def_path_str(did)));
        }
        return;
    }
    let body = steal.borrow();
    dump_mir(tcx, did, &body, None, out);
    if !promoted.is_stolen() {
        let pr = promoted.borrow();
        for (i, pb) in pr.iter_enumerated() {
            dump_mir(tcx, did, pb, Some(i.as_u32()), out);
        }
    }
}

fn dump_mir<'tcx>(tcx: TyCtxt<'tcx>, did: DefId, body: &mir::Body<'tcx>, promoted: Option<u32>, out: &mut String) {
    let kind = tcx.def_kind(did);
    let cx = Cx { tcx, body, did };
    let mut path = tcx.def_path_str(did);
    if let Some(i) = promoted { let _ = write!(path, "::{{promoted#{}}}", i); }
    let parent = tcx.opt_parent(did).map(|p| tcx.def_path_str(p)).unwrap_or_default();
    // impl info
    let mut trait_path = String::new();
    let mut auto_derived = false;
    let mut self_ty = String::new();
    let mut cur = did;
    loop {
        if matches!(tcx.def_kind(cur), DefKind::Impl { .. }) {
            if let Some(tr) = tcx.impl_opt_trait_ref(cur) { trait_path = tcx.def_path_str(tr.skip_binder().def_id); }
            auto_derived = tcx.is_automatically_derived(cur);
            self_ty = tystr(tcx.type_of(cur).skip_binder());
            break;
        }
        match tcx.opt_parent(cur) { Some(p) => cur = p, None => break }
    }
    let _ = write!(out, "{{\"path\":{},\"kind\":{},\"parent\":{},\"trait\":{},\"auto_derived\":{},\"self_ty\":{},\"span\":{},\"argc\":{},\"promoted\":{},",
        esc(&path), esc(&format!("{:?}", kind).split(|c: char| c == ' ' || c == '{').next().unwrap_or("")), esc(&parent), esc(&trait_path), auto_derived, esc(&self_ty), cx.span(body.span), body.arg_count, promoted.is_some());
    if promoted.is_none() && matches!(kind, DefKind::Fn | DefKind::AssocFn) {
        let sig = tcx.fn_sig(did).skip_binder().skip_binder();
        out.push_str("\"sig_in\":[");
        for (i, t) in sig.inputs().iter().enumerate() { if i > 0 { out.push(','); } out.push_str(&esc(&tystr(*t))); }
        let _ = write!(out, "],\"sig_out\":{},\"vis\":{},\"asyncness\":{},", esc(&tystr(sig.output())), esc(&format!("{:?}", tcx.visibility(did))), tcx.asyncness(did).is_async());
        // provided trait method?
        if let Some(tr) = tcx.trait_of_assoc(did) { let _ = write!(out, "\"trait_item_of\":{},", esc(&tcx.def_path_str(tr))); }
    }
    if promoted.is_none() && matches!(kind, DefKind::Closure | DefKind::SyntheticCoroutineBody) {
        if let Some(l) = did.as_local() {
            out.push_str("\"upvars\":[");
            let mut first = true;
            for cap in tcx.closure_captures(l).iter() {
                if !first { out.push(','); }
                first = false;
                out.push_str(&esc(&cap.to_string(tcx)));
            }
            out.push_str("],");
        }
    }
    out.push_str("\"locals\":[");
    for (i, (_, d)) in body.local_decls.iter_enumerated().enumerate() {
        if i > 0 { out.push(','); }
        out.push_str(&esc(&tystr(d.ty)));
    }
    out.push_str("],\"user_locals\":[");
    {
        let mut first = true;
        for (l, d) in body.local_decls.iter_enumerated() {
            if matches!(d.local_info, mir::ClearCrossCrate::Set(_)) && d.is_user_variable() { if !first { out.push(','); } first = false; let _ = write!(out, "{}", l.as_u32()); }
        }
    }
    out.push_str("],\"names\":{");
    let mut first = true;
    let mut seen_names: Vec<String> = Vec::new();
    for vdi in body.var_debug_info.iter() {
        if let mir::VarDebugInfoContents::Place(p) = &vdi.value {
            let mut name = vdi.name.to_string();
            // disambiguate shadowed names: x, x#1, x#2 ...
            let cnt = seen_names.iter().filter(|n| **n == name).count();
            seen_names.push(name.clone());
            if cnt > 0 { name = format!("{}#{}", name, cnt); }
            if !first { out.push(','); }
            first = false;
            let _ = write!(out, "{}:{}", esc(&name), cx.place(p));
        }
    }
    out.push_str("},\"blocks\":[");
    let sm = tcx.sess.source_map();
    for (bi, (_, data)) in body.basic_blocks.iter_enumerated().enumerate() {
        if bi > 0 { out.push(','); }
        let _ = write!(out, "{{\"cleanup\":{},\"stmts\":[", data.is_cleanup);
        let mut first = true;
        for st in data.statements.iter() {
            let s = match &st.kind {
                StatementKind::Assign(box (p, r)) => format!("{{\"s\":\"assign\",\"pl\":{},\"rv\":{},\"line\":{},\"exp\":{}}}", cx.place(p), cx.rvalue(r), sm.lookup_char_pos(st.source_info.span.source_callsite().lo()).line, st.source_info.span.from_expansion()),
                StatementKind::SetDiscriminant { place, variant_index } => format!("{{\"s\":\"setdiscr\",\"pl\":{},\"v\":{}}}", cx.place(place), variant_index.as_u32()),
                StatementKind::StorageLive(l) => format!("{{\"s\":\"live\",\"l\":{}}}", l.as_u32()),
                StatementKind::StorageDead(l) => format!("{{\"s\":\"dead\",\"l\":{}}}", l.as_u32()),
                _ => continue,
            };
            if !first { out.push(','); }
            first = false;
            out.push_str(&s);
        }
        out.push_str("],\"term\":");
        let term = data.terminator();
        let sp = cx.span(term.source_info.span);
        let t = match &term.kind {
            TerminatorKind::Goto { target } => format!("{{\"t\":\"goto\",\"succ\":[{}]}}", target.as_u32()),
            TerminatorKind::SwitchInt { discr, targets } => {
                let dty = discr.ty(body, tcx);
                let mut s = format!("{{\"t\":\"switch\",\"discr\":{},\"dty\":{},\"vals\":[", cx.operand(discr), esc(&tystr(dty)));
                let mut first = true;
                for (v, bb) in targets.iter() { if !first { s.push(','); } first = false; let _ = write!(s, "[{},{}]", esc(&format!("{}", v)), bb.as_u32()); }
                let _ = write!(s, "],\"otherwise\":{},\"span\":{}}}", targets.otherwise().as_u32(), sp);
                s
            }
            TerminatorKind::Return => "{\"t\":\"return\"}".to_string(),
            TerminatorKind::Unreachable => "{\"t\":\"unreachable\"}".to_string(),
            TerminatorKind::Drop { place, target, .. } => format!("{{\"t\":\"drop\",\"pl\":{},\"succ\":[{}]}}", cx.place(place), target.as_u32()),
            TerminatorKind::Call { func, args, destination, target, .. } => {
                let fty = func.ty(body, tcx);
                let mut s = String::from("{\"t\":\"call\",");
                if let ty::FnDef(cd, ga) = fty.kind() {
                    let _ = write!(s, "\"callee\":{},", esc(&tcx.def_path_str(*cd)));
                    let env = ty::TypingEnv::post_analysis(tcx, did);
                    if let Ok(Some(inst)) = ty::Instance::try_resolve(tcx, env, *cd, ga) {
                        let _ = write!(s, "\"resolved\":{},", esc(&tcx.def_path_str(inst.def_id())));
                    }
                    let _ = write!(s, "\"gargs\":{},", esc(&ty::print::with_no_trimmed_paths!(format!("{:?}", ga))));
                    if let Some(tr) = tcx.trait_of_assoc(*cd) { let _ = write!(s, "\"trait\":{},", esc(&tcx.def_path_str(tr))); }
                } else {
                    let _ = write!(s, "\"indirect\":{},\"fty\":{},", cx.operand(func), esc(&tystr(fty)));
                }
                s.push_str("\"args\":[");
                let mut first = true;
                for a in args.iter() { if !first { s.push(','); } first = false; s.push_str(&cx.operand(&a.node)); }
                let _ = write!(s, "],\"dest\":{},\"succ\":[{}],\"span\":{}}}", cx.place(destination), target.map(|t| t.as_u32().to_string()).unwrap_or_default(), sp);
                s
            }
            TerminatorKind::Assert { cond, expected, msg, target, .. } => {
                let dbg = format!("{:?}", msg);
                let kind = dbg.split(|c: char| c == '(' || c == '{' || c == ' ').next().unwrap_or("").to_string();
                let mut ops = String::new();
                match &**msg {
                    mir::AssertKind::Overflow(op, a, b) => { let _ = write!(ops, ",\"op\":{},\"a\":[{},{}]", esc(&format!("{:?}", op)), cx.operand(a), cx.operand(b)); }
                    mir::AssertKind::BoundsCheck { len, index } => { let _ = write!(ops, ",\"a\":[{},{}]", cx.operand(len), cx.operand(index)); }
                    mir::AssertKind::OverflowNeg(a) | mir::AssertKind::DivisionByZero(a) | mir::AssertKind::RemainderByZero(a) => { let _ = write!(ops, ",\"a\":[{}]", cx.operand(a)); }
                    _ => {}
                }
                format!("{{\"t\":\"assert\",\"cond\":{},\"expected\":{},\"kind\":{}{},\"succ\":[{}],\"span\":{}}}", cx.operand(cond), expected, esc(&kind), ops, target.as_u32(), sp)
            }
            TerminatorKind::Yield { resume, .. } => format!("{{\"t\":\"yield\",\"succ\":[{}]}}", resume.as_u32()),
            TerminatorKind::FalseEdge { real_target, .. } => format!("{{\"t\":\"falseedge\",\"succ\":[{}]}}", real_target.as_u32()),
            TerminatorKind::FalseUnwind { real_target, .. } => format!("{{\"t\":\"falseunwind\",\"succ\":[{}]}}", real_target.as_u32()),
            other => format!("{{\"t\":\"other\",\"dbg\":{}}}", esc(&format!("{:?}", other).chars().take(40).collect::<String>())),
        };
        out.push_str(&t);
        out.push('}');
    }
    out.push_str("]}\n");
}

fn dump_adts<'tcx>(tcx: TyCtxt<'tcx>, out: &mut String) {
    for id in tcx.hir_free_items() {
        let did = id.owner_id.to_def_id();
        match tcx.def_kind(did) {
            DefKind::Struct | DefKind::Enum | DefKind::Union => {
                let adt = tcx.adt_def(did);
                let _ = write!(out, "{{\"adt\":{},\"kind\":{},\"vis\":{},\"variants\":[", esc(&tcx.def_path_str(did)), esc(&format!("{:?}", tcx.def_kind(did))), esc(&format!("{:?}", tcx.visibility(did))));
                let mut firstv = true;
                let discrs: Vec<String> = if adt.is_enum() { adt.discriminants(tcx).map(|(_, d)| format!("{}", d.val)).collect() } else { vec!["0".to_string()] };
                for (vi, v) in adt.variants().iter_enumerated() {
                    if !firstv { out.push(','); }
                    firstv = false;
                    let _ = write!(out, "{{\"name\":{},\"discr\":{},\"fields\":[", esc(&v.name.to_string()), esc(discrs.get(vi.as_usize()).map(|s| s.as_str()).unwrap_or("")));
                    let mut firstf = true;
                    for f in v.fields.iter() {
                        if !firstf { out.push(','); }
                        firstf = false;
                        let fty = tcx.type_of(f.did).skip_binder();
                        // evaluate array lengths given by named constants (non-generic types only)
                        let mut shown = tystr(fty);
                        if let ty::Array(_, _) = fty.kind() {
                            if !fty.has_param() {
                                if let Ok(n) = tcx.try_normalize_erasing_regions(ty::TypingEnv::fully_monomorphized(), ty::Unnormalized::new(fty)) { shown = tystr(n); }
                            }
                        }
                        let _ = write!(out, "{{\"name\":{},\"ty\":{},\"vis\":{}}}", esc(&f.name.to_string()), esc(&shown), esc(&format!("{:?}", f.vis)));
                    }
                    out.push_str("]}");
                }
                out.push_str("]}\n");
            }
            DefKind::Impl { .. } => {
                let tr = tcx.impl_opt_trait_ref(did).map(|t| tcx.def_path_str(t.skip_binder().def_id)).unwrap_or_default();
                let self_ty = tystr(tcx.type_of(did).skip_binder());
                let mut items = String::new();
                let mut first = true;
                for it in tcx.associated_item_def_ids(did) { if !first { items.push(','); } first = false; items.push_str(&esc(&tcx.item_name(*it).to_string())); }
                let _ = write!(out, "{{\"impl\":{},\"self_ty\":{},\"auto_derived\":{},\"items\":[{}]}}\n", esc(&tr), esc(&self_ty), tcx.is_automatically_derived(did), items);
            }
            DefKind::Trait => {
                let mut sup = String::new();
                let mut first = true;
                for p in tcx.explicit_super_predicates_of(did).skip_binder().iter() {
                    if !first { sup.push(','); }
                    first = false;
                    sup.push_str(&esc(&ty::print::with_no_trimmed_paths!(format!("{:?}", p.0))));
                }
                let mut items = String::new();
                let mut first = true;
                for it in tcx.associated_item_def_ids(did) {
                    if !first { items.push(','); }
                    first = false;
                    let has_default = tcx.defaultness(*it).has_value();
                    let _ = write!(items, "{{\"name\":{},\"provided\":{}}}", esc(&tcx.item_name(*it).to_string()), has_default);
                }
                let _ = write!(out, "{{\"trait_def\":{},\"supers\":[{}],\"items\":[{}]}}\n", esc(&tcx.def_path_str(did)), sup, items);
            }
            _ => {}
        }
    }
}

struct UnsafeFinder<'tcx> { tcx: TyCtxt<'tcx>, found: Vec<String> }
impl<'tcx> rustc_hir::intravisit::Visitor<'tcx> for UnsafeFinder<'tcx> {
    fn visit_block(&mut self, b: &'tcx rustc_hir::Block<'tcx>) {
        if let rustc_hir::BlockCheckMode::UnsafeBlock(src) = b.rules {
            // unsafe blocks produced by another crate's macro (tokio::select!, pin!) are that crate's code:
            // `forbid(unsafe_code)` does not apply to them either
            let foreign_macro = b.span.from_expansion() && b.span.macro_backtrace().last().and_then(|bt| bt.macro_def_id).map(|d| !d.is_local()).unwrap_or(false);
            if matches!(src, rustc_hir::UnsafeSource::UserProvided) && !foreign_macro {
                let sm = self.tcx.sess.source_map();
                let lo = sm.lookup_char_pos(b.span.source_callsite().lo());
                self.found.push(format!("{}:{}", lo.file.name.prefer_remapped_unconditionally(), lo.line));
            }
        }
        rustc_hir::intravisit::walk_block(self, b);
    }
}

fn dump_unsafe<'tcx>(tcx: TyCtxt<'tcx>, out: &mut String) {
    let mut n_bodies = 0;
    let mut f = UnsafeFinder { tcx, found: Vec::new() };
    for ldid in tcx.hir_body_owners() {
        let body = tcx.hir_body_owned_by(ldid);
        rustc_hir::intravisit::Visitor::visit_body(&mut f, body);
        n_bodies += 1;
        let did = ldid.to_def_id();
        if matches!(tcx.def_kind(did), DefKind::Fn | DefKind::AssocFn) {
            let sig = tcx.fn_sig(did).skip_binder().skip_binder();
            if sig.safety().is_unsafe() { f.found.push(format!("unsafe fn {}", tcx.def_path_str(did))); }
        }
    }
    let mut s = String::new();
    for (i, x) in f.found.iter().enumerate() { if i > 0 { s.push(','); } s.push_str(&esc(x)); }
    let _ = write!(out, "{{\"unsafe_scan\":true,\"bodies\":{},\"sites\":[{}]}}\n", n_bodies, s);
}

struct Cb;
impl rustc_driver::Callbacks for Cb {
    fn after_expansion<'tcx>(&mut self, _c: &rustc_interface::interface::Compiler, tcx: TyCtxt<'tcx>) -> Compilation {
        let krate = tcx.crate_name(LOCAL_CRATE).to_string();
        let wanted = std::env::var("MIRFACTS_CRATES").unwrap_or_default();
        if !wanted.split(',').any(|w| w == krate) { return Compilation::Continue; }
        ty::print::with_resolve_crate_name!(ty::print::with_no_visible_paths!(ty::print::with_no_trimmed_paths!(self.run(tcx, &krate))));
        Compilation::Continue
    }
}
impl Cb {
    fn run<'tcx>(&mut self, tcx: TyCtxt<'tcx>, krate: &str) {
        let dir = std::env::var("MIRFACTS_OUT").expect("MIRFACTS_OUT");
        let run = std::env::var("MIRFACTS_RUN").unwrap_or_default();
        let mut out = String::new();
        let mut feats = String::new();
        {
            let mut first = true;
            for a in std::env::args() {
                if let Some(f) = a.strip_prefix("feature=\"") { if !first { feats.push(','); } first = false; feats.push_str(&esc(f.trim_end_matches('"'))); }
            }
        }
        let _ = write!(out, "{{\"meta\":true,\"crate\":{},\"run\":{},\"features\":[{}]}}\n", esc(&krate), esc(&run), feats);
        let mut n = 0;
        for ldid in tcx.hir_body_owners() { dump_body(tcx, ldid, &mut out); n += 1; }
        dump_adts(tcx, &mut out);
        dump_unsafe(tcx, &mut out);
        // consts (second pass: CTFE may steal MIR, all bodies are already dumped)
        for ldid in tcx.hir_body_owners() {
            let did = ldid.to_def_id();
            if matches!(tcx.def_kind(did), DefKind::Const { .. }) {
                let ty = tcx.type_of(did).skip_binder();
                if ty.is_integral() || ty.is_bool() {
                    if let Ok(v) = tcx.const_eval_poly(did) {
                        if let Some(si) = v.try_to_scalar_int() {
                            let _ = write!(out, "{{\"const\":{},\"ty\":{},\"val\":{}}}\n", esc(&tcx.def_path_str(did)), esc(&tystr(ty)), esc(&format!("{}", si.to_bits_unchecked())));
                        }
                    }
                }
            }
        }
        let _ = write!(out, "{{\"end\":true,\"bodies\":{}}}\n", n);
        let suffix = std::env::var("MIRFACTS_SUFFIX").unwrap_or_default();
        std::fs::write(format!("{}/{}{}.facts.jsonl", dir, krate, suffix), out).expect("write facts");
        eprintln!("[mirfacts] {} bodies={} ", krate, n);
    }
}

fn main() {
    let mut args: Vec<String> = std::env::args().collect();
    if args.len() > 1 && (args[1].ends_with("rustc") || args[1].contains("/rustc")) { args.remove(1); }
    args.push("--cap-lints=allow".to_string());
    rustc_driver::run_compiler(&args, &mut Cb);
}
