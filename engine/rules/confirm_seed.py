#!/usr/bin/env python3
"""Confirm an independently written seeded defect and file it under /verif/seeded/<id>/.

usage: confirm_seed.py <out-dir containing patch.diff demo.diff README.md> <seed-id> <property> <demo test filter> [-p crate]

1. in a scratch git worktree of /repo (removed afterwards): demo alone passes; demo + patch fails; patch alone passes the
   whole existing suite;
2. the checks of every claimed property are run against a scratch copy with the patch applied; which rules fire is recorded.
"""
import sys, os, subprocess, json, shutil, tempfile, time

HERE = os.path.dirname(os.path.abspath(__file__))
sys.path.insert(0, HERE)
import extract, facts, core, selftest
import main as M

VERIF = core.VERIF


def sh(cmd, cwd, timeout=1800):
    r = subprocess.run(cmd, cwd=cwd, shell=True, stdout=subprocess.PIPE, stderr=subprocess.STDOUT, text=True, timeout=timeout,
                       env=dict(os.environ, CARGO_NET_OFFLINE='true'))
    return r.returncode, r.stdout


def main(argv):
    out, sid, prop, flt = argv[:4]
    crate = 'rodbus'
    if '-p' in argv:
        crate = argv[argv.index('-p') + 1]
    ran = []
    wt = tempfile.mkdtemp(prefix='verif-seedwt-')
    os.rmdir(wt)
    base = 'HEAD'
    if '--base' in argv:
        base = argv[argv.index('--base') + 1]
    subprocess.check_call(['git', '-C', '/repo', 'worktree', 'add', '--detach', wt, base], stdout=subprocess.DEVNULL, stderr=subprocess.DEVNULL)
    ran.append('git worktree add --detach <scratch> %s' % base)
    # share one target dir between confirmations to save rebuilds of dependencies
    tgt = os.environ.get('VERIF_SEED_TARGET', '/tmp/verif-seed-target')
    env_prefix = 'CARGO_TARGET_DIR=%s ' % tgt
    verdict = {}
    try:
        rc, o = sh('git apply %s/demo.diff' % out, wt)
        if rc != 0 and base == 'HEAD':
            # written against an earlier commit of /repo (before later fix: commits): confirm it there
            subprocess.call(['git', '-C', '/repo', 'worktree', 'remove', '--force', wt], stdout=subprocess.DEVNULL, stderr=subprocess.DEVNULL)
            return main(argv + ['--base', '692fdbd'])
        if rc != 0:
            print('demo.diff does not apply:', o[-400:])
            return 1
        cmd = env_prefix + 'cargo test --offline -p %s %s 2>&1 | tail -15' % (crate, flt)
        rc1, o1 = sh(cmd + '; exit ${PIPESTATUS[0]}', wt)
        ran.append(cmd)
        ok_without = 'test result: ok' in o1 and ' 0 passed' not in o1.split('test result: ok')[1][:40] if 'test result: ok' in o1 else False
        passed_without = ('test result: ok' in o1) and ('0 passed' not in o1.replace('; 0 failed', ''))
        rc, o = sh('git apply %s/patch.diff' % out, wt)
        if rc != 0 and base == 'HEAD':
            subprocess.call(['git', '-C', '/repo', 'worktree', 'remove', '--force', wt], stdout=subprocess.DEVNULL, stderr=subprocess.DEVNULL)
            return main(argv + ['--base', '692fdbd'])
        if rc != 0:
            print('patch.diff does not apply on top of demo:', o[-400:])
            return 1
        rc2, o2 = sh(cmd + '; exit ${PIPESTATUS[0]}', wt)
        failed_with = 'FAILED' in o2 or 'failed' in o2.lower() and 'test result: FAILED' in o2
        # patch alone: full suite
        sh('git checkout -- . && git clean -fdq', wt)
        sh('git apply %s/patch.diff' % out, wt)
        full = env_prefix + 'cargo test --workspace --no-fail-fast --offline 2>&1 | grep -E "^test result|FAILED|panicked" '
        rc3, o3 = sh(full, wt)
        ran.append(full)
        suite_ok = 'FAILED' not in o3 and 'test result: ok' in o3
        verdict = {'demo_passes_without_patch': bool(passed_without), 'demo_fails_with_patch': bool(failed_with), 'suite_passes_with_patch': bool(suite_ok)}
        print('confirmation:', verdict)
        if not (passed_without and failed_with and suite_ok):
            print('--- demo without patch ---\n', o1[-800:], '\n--- demo with patch ---\n', o2[-800:], '\n--- suite ---\n', o3[-800:])
            return 1
    finally:
        subprocess.call(['git', '-C', '/repo', 'worktree', 'remove', '--force', wt], stdout=subprocess.DEVNULL, stderr=subprocess.DEVNULL)
        shutil.rmtree(wt, ignore_errors=True)

    # ---- which checks catch it ----
    M.load_rules()
    fired = {}
    skip_rules = bool(os.environ.get('VERIF_SKIP_RULES'))      # (several confirmations in parallel: the rules are run by rescan_seeds afterwards)
    d, repo = (None, None) if skip_rules else selftest.make_scratch()
    try:
      if not skip_rules:
        rc, o = sh('patch -p1 --no-backup-if-mismatch -i %s/patch.diff' % out, repo)
        if rc != 0:
            print('patch does not apply to scratch copy', o[-300:])
            return 1
        files, _ = extract.extract('default', repo=repo)
        P = facts.load(files)
        FX = facts.load([extract.extract_fixture()])
        for p in sorted(core.RULES):
            c = core.Ctx(p, P, 'quick', 'default', FX)
            c.run()
            ks = [o.key for o in c.failed()]
            if ks:
                fired[p] = ks
    finally:
        if d is not None:
            shutil.rmtree(d, ignore_errors=True)
    print('fired:', json.dumps(fired, indent=1)[:1500])
    dst = os.path.join(VERIF, 'seeded', sid)
    os.makedirs(dst, exist_ok=True)
    for f in ('patch.diff', 'demo.diff', 'README.md'):
        if os.path.exists(os.path.join(out, f)):
            shutil.copy2(os.path.join(out, f), os.path.join(dst, f))
    readme = open(os.path.join(out, 'README.md')).read() if os.path.exists(os.path.join(out, 'README.md')) else ''
    meta = {
        'id': sid, 'property': prop, 'confirmed_at_commit': base,
        'summary': readme.strip().split('\n')[0][:200],
        'demo_cmd': 'cargo test --offline -p %s %s' % (crate, flt),
        'confirmed': verdict,
        'what_i_ran': ran + ['engine/rules/confirm_seed.py (all claimed properties against a scratch copy with the patch applied)'],
        'detected_by': fired,
        'also_detected_by': [p for p in fired if p != prop],
        'expect': {p: (os.path.commonprefix(ks).rsplit('/', 1)[0] if len(ks) > 1 else ks[0]) for p, ks in fired.items()},
        'status': 'unscanned' if skip_rules else ('caught' if prop in fired else ('caught-by-other-property' if fired else 'MISSED')),
    }
    json.dump(meta, open(os.path.join(dst, 'meta.json'), 'w'), indent=1)
    print('status:', meta['status'])
    return 0


if __name__ == '__main__':
    sys.exit(main(sys.argv[1:]))
