#!/usr/bin/env python3
"""run every property's rules on every feature configuration (development aid for the thorough tier)"""
import sys, os
HERE = os.path.dirname(os.path.abspath(__file__))
sys.path.insert(0, HERE)
import extract, facts, core
import main as M
M.load_rules()
FX = facts.load([extract.extract_fixture()])
cfgs = sys.argv[1:] or M.THOROUGH_CONFIGS
for cfg in cfgs:
    files, dt = extract.extract(cfg)
    P = facts.load(files)
    print("== %s (%.1fs) crates %s" % (cfg, dt, P.crates))
    for p in sorted(core.RULES):
        c = core.Ctx(p, P, 'thorough', cfg, FX)
        c.run()
        bad = c.failed()
        print("  %s: %d obligations, %d failed" % (p, len(c.obs), len(bad)))
        for o in bad[:6]:
            print("       %s | %s | %s" % (o.key, o.what[:80], o.detail[:140]))
