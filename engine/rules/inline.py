"""Helper inlining: the view of the program the rules are evaluated on.

The rules were confirmed against the function decomposition of the pinned tree (known_fns.txt lists every function
that existed when they were written).  A function of rodbus / rodbus-ffi that is NOT in that list is, for the rules, an
unknown helper: extracting code into a private helper is the most common behaviour-preserving edit, and a rule anchored
at the caller would lose its anchors.  Inlining is semantics preserving, so instead of failing closed the loader puts
the body of every unknown crate-local callee back into its callers:

  * sync helper:   `dest = h(args) -> bbS`   becomes   `p_i := arg_i; goto h.entry` ... `dest := h._0; goto bbS`
  * async helper:  `fut = h(args); ... poll(fut) ... Ready(v) => ..`  (an immediate `.await`) becomes
                   `cap_i := arg_i` at the creation site, and the poll call becomes `goto h::{closure#0}.entry`, with the
                   coroutine's upvars rewritten to cap_i, its task context to the caller's, its `return` to
                   `pollresult := Poll::Ready(h._0); goto <Ready arm>`; the Pending arm of that await disappears
                   (yields of awaits *inside* the helper stay).
  * a call through `FnOnce/FnMut/Fn` whose callee operand is a function item or a closure literal, exposed by inlining a
    generic helper, is rewritten into a direct call first (and inlined if the target is unknown too).

A helper whose future is not awaited on the spot (spawned, raced in a select!), a recursive helper, and anything called
through a trait object stay ordinary calls.  Nothing is inlined on the pinned tree itself."""
import os, copy, re
import facts
from facts import Body, norm

HERE = os.path.dirname(os.path.abspath(__file__))
KNOWN_FILE = os.path.join(HERE, 'known_fns.txt')
CRATES = ('rodbus', 'rodbus_ffi')
MAX_BLOCKS = 6000

POLL = 'core::future::future::Future::poll'
FN_TRAITS = ('core::ops::function::FnOnce::call_once', 'core::ops::function::FnMut::call_mut', 'core::ops::function::Fn::call')


def load_known():
    if not os.path.exists(KNOWN_FILE):
        return None
    with open(KNOWN_FILE) as fh:
        return set(l.strip() for l in fh if l.strip() and not l.startswith('#'))


def load_sigs():
    f = os.path.join(HERE, 'known_sigs.json')
    if not os.path.exists(f):
        return {}
    import json
    with open(f) as fh:
        return json.load(fh)


def _is_place(x):
    return isinstance(x, dict) and len(x) == 2 and 'l' in x and 'p' in x and isinstance(x['l'], int)


def map_json(x, fpl, floc):
    if isinstance(x, dict):
        if _is_place(x):
            return fpl(x)
        if x.get('s') in ('live', 'dead') and 'l' in x:
            return {'s': x['s'], 'l': floc(x['l'])}
        return {k: map_json(v, fpl, floc) for k, v in x.items()}
    if isinstance(x, list):
        return [map_json(v, fpl, floc) for v in x]
    return x


def _shift_term(t, boff):
    t = dict(t)
    if 'succ' in t:
        t['succ'] = [(int(s) + boff) if s != '' else s for s in t['succ']]
    if t['t'] == 'switch':
        t['vals'] = [[v, b + boff] for v, b in t['vals']]
        t['otherwise'] = t['otherwise'] + boff
    return t


def _assign(pl, rv, line):
    return {'s': 'assign', 'pl': pl, 'rv': rv, 'line': line, 'exp': False, 'inl': True}


def _use(op):
    return {'r': 'use', 'a': [op]}


def _add_names(D, H, fpl, skip_env=False):
    have = {}
    for n in D['names']:
        base = n.split('#')[0]
        k = int(n.split('#')[1]) if '#' in n else 0
        have[base] = max(have.get(base, -1), k)
    for n, pl in H.get('names', {}).items():
        base = n.split('#')[0]
        npl = fpl(pl)
        if npl is None:
            continue
        k = have.get(base, -1) + 1
        have[base] = k
        D['names'][base if k == 0 else '%s#%d' % (base, k)] = npl


def _mark_home(blocks, home):
    """constant operands referring to promoteds of the inlined function remember where they live"""
    def walk(x):
        if isinstance(x, dict):
            if x.get('k') == 'const' and 'promoted' in x and 'phome' not in x:
                x['phome'] = home
            for v in x.values():
                walk(v)
        elif isinstance(x, list):
            for v in x:
                walk(v)
    walk(blocks)


def inline_sync(D, bi, H):
    """inline dict H (a plain fn body) at the call terminating block bi of D (mutates D)"""
    t = D['blocks'][bi]['term']
    off = len(D['locals'])
    boff = len(D['blocks'])
    line = t.get('span', {}).get('line')
    fpl = lambda pl: {'l': pl['l'] + off, 'p': list(pl['p'])}
    floc = lambda l: l + off
    D['locals'] = list(D['locals']) + list(H['locals'])
    D['user_locals'] = list(D.get('user_locals', [])) + [l + off for l in H.get('user_locals', [])]
    _add_names(D, H, fpl)
    succ = [s for s in t.get('succ', []) if s != '']
    hb = copy.deepcopy(H['blocks'])
    _mark_home(hb, H['path'])
    for b in hb:
        nb = {'cleanup': b['cleanup'], 'stmts': map_json(b['stmts'], fpl, floc), 'term': _shift_term(map_json(b['term'], fpl, floc), boff), 'inl': H['path']}
        if nb['term']['t'] == 'return' and not b['cleanup']:
            if succ:
                a_ = _assign(dict(t['dest']), _use({'k': 'move', 'pl': {'l': off, 'p': []}}), line)
                a_['inl_ret'] = True
                nb['stmts'].append(a_)
                nb['term'] = {'t': 'goto', 'succ': [int(succ[0])]}
                nb['ret_of'] = (boff, boff + len(hb))
            else:
                nb['term'] = {'t': 'unreachable'}
        D['blocks'].append(nb)
    blk = D['blocks'][bi]
    shapes = {}
    for i, a in enumerate(t['args']):
        sh = _arg_shape(D, a)
        if sh is not None:
            shapes[off + 1 + i] = sh
        blk['stmts'].append(_assign({'l': off + 1 + i, 'p': []}, _use(a), line))
    blk['term'] = {'t': 'goto', 'succ': [boff]}
    specialise_on_args(D, boff, boff + len(hb), shapes)
    if succ and not t['dest']['p']:
        thread_returns(D, boff, boff + len(hb), off, (t['dest']['l'], ()), int(succ[0]))
    return D


def _arg_shape(D, a):
    """what is evident about a call argument: ('variant', name) for a local built once as an enum aggregate (`Some(x)`,
    `None`, `Mode::Strict`), ('const', value) for a literal bool / integer; None otherwise"""
    if a.get('k') == 'const':
        v = a.get('val')
        if v is not None and str(v) in ('true', 'false'):
            return ('const', '1' if str(v) == 'true' else '0')
        if v is not None and str(v).lstrip('-').isdigit():
            return ('const', str(v))
        return None
    if a.get('k') not in ('copy', 'move') or a['pl']['p']:
        return None
    l = a['pl']['l']
    defs = []
    for b in D['blocks']:
        for s_ in b['stmts']:
            if s_['s'] == 'assign' and s_['pl']['l'] == l:
                defs.append(s_)
        t = b['term']
        if t['t'] == 'call' and t['dest']['l'] == l:
            return None
    if len(defs) != 1 or defs[0]['pl']['p']:
        return None
    rv = defs[0]['rv']
    if rv['r'] == 'agg' and rv.get('variant') and 'adt' in rv:
        return ('variant', rv['variant'])
    if rv['r'] == 'use':
        return _arg_shape(D, rv['a'][0]) if rv['a'][0].get('k') == 'const' else None
    return None


def specialise_on_args(D, lo, hi, params):
    """the inlined copy lo..hi of a helper is private to one call: tests of a parameter whose value is evident at that call
    (`Some(LIMIT)` / `None` / `true`) are decided, so that the copy reads like the code the caller would have written
    without the helper.  `params`: {param local -> shape}.  Returns the number of switches decided."""
    if not params:
        return 0
    written = set()
    alias = dict(params)
    blocks = D['blocks'][lo:hi]
    for b in blocks:
        for s_ in b['stmts']:
            if s_['s'] == 'assign' and s_['pl']['l'] in params:
                written.add(s_['pl']['l'])
            if s_['s'] == 'assign' and s_['rv']['r'] in ('ref', 'rawptr') and s_['rv']['pl']['l'] in params and s_['rv'].get('mut'):
                written.add(s_['rv']['pl']['l'])
        t = b['term']
        if t['t'] == 'call' and t['dest']['l'] in params:
            written.add(t['dest']['l'])
    alias = {p: sh for p, sh in params.items() if p not in written}
    if not alias:
        return 0
    # single-definition copies of such a parameter
    ndef = {}
    for b in D['blocks']:
        for s_ in b['stmts']:
            if s_['s'] == 'assign':
                ndef[s_['pl']['l']] = ndef.get(s_['pl']['l'], 0) + 1
        if b['term']['t'] == 'call':
            ndef[b['term']['dest']['l']] = ndef.get(b['term']['dest']['l'], 0) + 1
    changed = True
    while changed:
        changed = False
        for b in blocks:
            for s_ in b['stmts']:
                if s_['s'] == 'assign' and not s_['pl']['p'] and s_['rv']['r'] == 'use' and ndef.get(s_['pl']['l']) == 1 and s_['pl']['l'] not in alias:
                    a = s_['rv']['a'][0]
                    if a.get('k') in ('copy', 'move') and not a['pl']['p'] and a['pl']['l'] in alias:
                        alias[s_['pl']['l']] = alias[a['pl']['l']]
                        changed = True
    ival = {}
    for b in blocks:
        for s_ in b['stmts']:
            if s_['s'] == 'assign' and not s_['pl']['p'] and s_['rv']['r'] == 'discr' and not s_['rv']['pl']['p'] and s_['rv']['pl']['l'] in alias and ndef.get(s_['pl']['l']) == 1:
                sh = alias[s_['rv']['pl']['l']]
                of = s_['rv'].get('of') or {}
                if sh[0] == 'variant':
                    for name, v in of.get('variants', []):
                        if name == sh[1]:
                            ival[s_['pl']['l']] = str(v)
    n = 0
    for b in blocks:
        t = b['term']
        if b['cleanup'] or t['t'] != 'switch' or t['discr'].get('k') not in ('copy', 'move') or t['discr']['pl']['p']:
            continue
        L = t['discr']['pl']['l']
        val = ival.get(L)
        if val is None and L in alias and alias[L][0] == 'const':
            val = alias[L][1]
        if val is None:
            continue
        vals = {str(v): x for v, x in t['vals']}
        b['term'] = {'t': 'goto', 'succ': [vals.get(val, t['otherwise'])], 'decided': True}
        n += 1
    return n


def inline_async(D, create_bi, poll_bi, H, ctx_local=2):
    """inline coroutine body dict H at an immediately awaited call (mutates D).  Returns False if the shape of the
    await is not the one rustc emits (then nothing is changed)."""
    ct = D['blocks'][create_bi]['term']
    pt = D['blocks'][poll_bi]['term']
    psucc = [s for s in pt.get('succ', []) if s != '']
    if len(psucc) != 1:
        return False
    sb = D['blocks'][int(psucc[0])]
    st = sb['term']
    if st['t'] != 'switch':
        return False
    # the switch must be on discriminant(poll result)
    dl = st['discr'].get('pl', {}).get('l')
    ok = False
    for s in sb['stmts']:
        if s['s'] == 'assign' and s['pl']['l'] == dl and s['rv']['r'] == 'discr' and s['rv']['pl']['l'] == pt['dest']['l'] and not s['rv']['pl']['p']:
            ok = True
    ready = [b for v, b in st['vals'] if str(v) == '0']
    if not ok or len(ready) != 1:
        return False
    off = len(D['locals'])
    boff = len(D['blocks'])
    line = ct.get('span', {}).get('line')
    nargs = len(ct['args'])
    caps = {i: off + len(H['locals']) + i for i in range(nargs)}
    junk = off + len(H['locals']) + nargs

    def fpl(pl):
        l, p = pl['l'], list(pl['p'])
        if l == 1:
            if p and p[0].startswith('field:'):
                i = int(p[0].split(':')[1])
                if i in caps:
                    return {'l': caps[i], 'p': p[1:]}
            return {'l': junk, 'p': p}
        if l == 2:
            return {'l': ctx_local, 'p': p}
        return {'l': l + off, 'p': p}

    def floc(l):
        return fpl({'l': l, 'p': []})['l']

    def arg_ty(a):
        if a.get('k') in ('copy', 'move') and not a['pl']['p']:
            return D['locals'][a['pl']['l']]
        return a.get('ty', '?')

    D['locals'] = list(D['locals']) + list(H['locals']) + [arg_ty(a) for a in ct['args']] + ['<inlined coroutine env>']
    D['user_locals'] = list(D.get('user_locals', [])) + [l + off for l in H.get('user_locals', []) if l > 2] + list(caps.values())
    names = {n: pl for n, pl in H.get('names', {}).items() if not (pl['l'] == 2 and not pl['p'])}
    _add_names(D, {'names': names}, fpl)
    hb = copy.deepcopy(H['blocks'])
    _mark_home(hb, H['path'])
    for b in hb:
        nb = {'cleanup': b['cleanup'], 'stmts': map_json(b['stmts'], fpl, floc), 'term': _shift_term(map_json(b['term'], fpl, floc), boff), 'inl': H['path']}
        if nb['term']['t'] == 'return' and not b['cleanup']:
            a_ = _assign(dict(pt['dest']), {'r': 'agg', 'adt': 'core::task::poll::Poll', 'variant': 'Ready', 'fields': ['0'],
                                            'a': [{'k': 'move', 'pl': {'l': off, 'p': []}}]}, line)
            a_['inl_ret'] = True
            nb['stmts'].append(a_)
            nb['term'] = {'t': 'goto', 'succ': [int(psucc[0])]}
            nb['ret_of'] = (boff, boff + len(hb))
        D['blocks'].append(nb)
    cb = D['blocks'][create_bi]
    for i, a in enumerate(ct['args']):
        cb['stmts'].append(_assign({'l': caps[i], 'p': []}, _use(a), line))
    csucc = [s for s in ct.get('succ', []) if s != '']
    cb['term'] = {'t': 'goto', 'succ': [int(csucc[0])]} if csucc else {'t': 'unreachable'}
    D['blocks'][poll_bi]['term'] = {'t': 'goto', 'succ': [boff]}
    sb['term'] = {'t': 'goto', 'succ': [ready[0]]}
    sb['stmts'] = [x for x in sb['stmts'] if not (x['s'] == 'assign' and x['pl']['l'] == dl)]
    if not pt['dest']['p']:
        rdy = [p_ for p_ in ('downcast:0:Ready',)]
        thread_returns(D, boff, boff + len(hb), off, (pt['dest']['l'], ('downcast:0:Ready', 'field:0:0')), int(psucc[0]))
    return True


def _drop_dead_machinery(D, B, create_dest):
    """`into_future(fut)` of a future that no longer exists: turn the call into a goto"""
    for i, b in enumerate(D['blocks']):
        t = b['term']
        if t['t'] == 'call' and norm(t.get('callee', '')) == 'core::future::into_future::IntoFuture::into_future' and t['args'] and \
                t['args'][0].get('k') in ('copy', 'move') and t['args'][0]['pl']['l'] == create_dest and not t['args'][0]['pl']['p']:
            succ = [s for s in t.get('succ', []) if s != '']
            if succ:
                b['term'] = {'t': 'goto', 'succ': [int(succ[0])]}



TRY_BRANCH = 'core::ops::try_trait::Try::branch'
FROM_RESIDUAL = 'core::ops::try_trait::FromResidual::from_residual'
SUCC_NAMES = ('Ok', 'Some', 'Continue', 'Ready')
FAIL_NAMES = ('Err', 'None', 'Break')


def _pk(pl):
    return (pl['l'], tuple(pl['p']))


def _only_storage(stmts):
    return all(s['s'] in ('live', 'dead') for s in stmts)


def _single_succ(t):
    if t['t'] in ('goto', 'drop', 'falseedge', 'falseunwind'):
        ss = [x for x in t.get('succ', []) if x != '']
        if len(ss) == 1:
            return int(ss[0])
    return None


def _class_of_def(x, is_term):
    if is_term:
        if x['t'] == 'call' and norm(x.get('callee', '')) == FROM_RESIDUAL:
            return 'failure'
        return None
    rv = x['rv']
    if rv['r'] == 'agg' and 'adt' in rv and rv.get('variant') in SUCC_NAMES:
        return 'success'
    if rv['r'] == 'agg' and 'adt' in rv and rv.get('variant') in FAIL_NAMES:
        return 'failure'
    return None


IS_TESTS = {'core::option::Option::is_some': ('success', True), 'core::option::Option::is_none': ('success', False),
            'core::result::Result::is_ok': ('success', True), 'core::result::Result::is_err': ('success', False)}


def _cls(name):
    if name in SUCC_NAMES or name == 'success':
        return 'success'
    if name in FAIL_NAMES or name == 'failure':
        return 'failure'
    return name


def _shape_of(B, op, depth=0):
    """nested variants evident from how the value was built: Ok(Some(x)) -> ['Ok', 'Some']"""
    if depth > 3 or op is None or op.get('k') not in ('copy', 'move'):
        return []
    org = B.origin(op)
    if org[0] == 'agg' and not org[2] and 'adt' in org[1]:
        rv = org[1]
        sh = [rv['variant']]
        if len(rv['a']) == 1:
            sh += _shape_of(B, rv['a'][0], depth + 1)
        return sh
    return []


def _hint(sh):
    for x in sh:
        if x != 'Ready':
            return x
    return sh[0] if sh else None


def _locals_in(x):
    out = set()
    if isinstance(x, dict):
        if 'l' in x and isinstance(x['l'], int) and 'p' in x:
            out.add(x['l'])
        for v in x.values():
            out |= _locals_in(v)
    elif isinstance(x, list):
        for v in x:
            out |= _locals_in(v)
    return out


class _Sim:
    """forward partial evaluation of the code that follows a definition of an inlined helper's return value whose
    variant structure is evident.  Only moves / borrows / discriminant reads of the tracked value, `?` on it and
    is_some/is_none/is_ok/is_err tests are interpreted; the first statement that is anything else ends the private copy,
    which then rejoins the original code.  Switches whose outcome is certain for this definition are replaced by a jump."""

    def __init__(self, D, env):
        self.D = D
        D['_tid'] = D.get('_tid', 0) + 1
        self.tid = D['_tid']
        self.env = dict(env)
        self.ival = {}
        self.bval = {}
        self.clones = []
        self.resolved = 0

    def lookup(self, pl):
        l, p = pl['l'], list(pl['p'])
        if (l, tuple(p)) in self.env:
            return self.env[(l, tuple(p))]
        sh = None
        if p and p[0] == 'deref' and (l, ('deref',)) in self.env:
            sh = self.env[(l, ('deref',))]
            p = p[1:]
        elif (l, ()) in self.env:
            sh = self.env[(l, ())]
        else:
            return None
        while p:
            if len(p) >= 2 and p[0].startswith('downcast:') and p[1].startswith('field:0:') and sh:
                v = p[0].split(':', 2)[2]
                if _cls(v) != _cls(sh[0]) and v != sh[0]:
                    return None
                sh = sh[1:]
                p = p[2:]
                continue
            return None
        return sh

    def _tracked_locals(self):
        return {l for (l, _) in self.env} | set(self.ival) | set(self.bval)

    def stmt(self, s_):
        if s_['s'] in ('live', 'dead'):
            return dict(s_)
        if s_['s'] != 'assign' or s_['pl']['p']:
            return None
        d = s_['pl']['l']
        rv = s_['rv']
        r = rv['r']
        tl = self._tracked_locals()
        if d not in tl and not (_locals_in(rv) & tl) and r in ('agg', 'use', 'ref', 'cast', 'bin', 'un'):
            # has nothing to do with the tracked value (e.g. the closure of the next adapter is built): carried along
            return copy.deepcopy(s_)
        out = copy.deepcopy(s_)
        out['tid'] = self.tid
        if r == 'use':
            a = rv['a'][0]
            if a.get('k') not in ('copy', 'move'):
                return None
            sh = self.lookup(a['pl'])
            if sh is None:
                return None
            self.env[(d, ())] = sh
            if sh:
                out['vclass'] = _hint(sh)
            return out
        if r in ('ref', 'copyderef', 'rawptr'):
            sh = self.lookup(rv['pl'])
            if sh is None:
                return None
            if r == 'copyderef':
                self.env[(d, ())] = sh
            else:
                self.env[(d, ('deref',))] = sh
            return out
        if r == 'discr':
            sh = self.lookup(rv['pl'])
            of = rv.get('of') or {}
            if not sh or 'variants' not in of:
                return None
            val = None
            for name, v in of['variants']:
                if name == sh[0] or _cls(name) == sh[0] or (_cls(name) == _cls(sh[0]) and _cls(name) in ('success', 'failure')):
                    val = str(v)
            if val is None:
                return None
            self.ival[d] = val
            return out
        if r == 'agg' and 'adt' in rv and len(rv['a']) == 1 and rv['a'][0].get('k') in ('copy', 'move'):
            sh = self.lookup(rv['a'][0]['pl'])
            if sh is None:
                return None
            self.env[(d, ())] = [rv['variant']] + sh
            out['vclass'] = _hint([rv['variant']] + sh)
            return out
        return None

    def run(self, b0, i0):
        """simulate from statement i0 of block b0.  Returns (clones, rejoin) or None if nothing was decided."""
        blocks = self.D['blocks']
        visited = set()
        cur, idx = b0, i0
        nb = {'cleanup': False, 'stmts': [], 'term': None, 'threaded': True}
        self.clones.append(nb)
        rejoin = None
        while True:
            if cur in visited or len(self.clones) > 16:
                rejoin = (cur, idx)
                break
            visited.add(cur)
            blk = blocks[cur]
            if blk['cleanup']:
                return None
            i = idx
            stop = False
            while i < len(blk['stmts']):
                r = self.stmt(blk['stmts'][i])
                if r is None:
                    stop = True
                    break
                nb['stmts'].append(r)
                i += 1
            if stop:
                rejoin = (cur, i)
                break
            t = blk['term']
            nxt = None
            if _single_succ(t) is not None:
                nt = copy.deepcopy(t)
                nt['succ'] = [('clone', len(self.clones))]
                nb['term'] = nt
                nxt = _single_succ(t)
            elif t['t'] == 'call':
                cal = norm(t.get('callee', ''))
                ss = [x for x in t.get('succ', []) if x != '']
                a0 = t['args'][0] if t['args'] else None
                if len(ss) == 1 and not t['dest']['p'] and a0 is not None and a0.get('k') in ('copy', 'move'):
                    if cal == TRY_BRANCH:
                        sh = self.lookup(a0['pl'])
                        if sh:
                            c_ = _cls(sh[0])
                            if c_ == 'success':
                                self.env[(t['dest']['l'], ())] = ['Continue'] + sh[1:]
                            elif c_ == 'failure':
                                self.env[(t['dest']['l'], ())] = ['Break', sh[0]] + sh[1:]
                            if c_ in ('success', 'failure'):
                                nt = copy.deepcopy(t)
                                nt['vclass'] = c_
                                nt['tid'] = self.tid
                                nt['succ'] = [('clone', len(self.clones))]
                                nb['term'] = nt
                                nxt = int(ss[0])
                    elif cal in IS_TESTS:
                        sh = self.env.get((a0['pl']['l'], ('deref',))) if not a0['pl']['p'] else None
                        if sh and _cls(sh[0]) in ('success', 'failure'):
                            cls_, pos = IS_TESTS[cal]
                            self.bval[t['dest']['l']] = (_cls(sh[0]) == cls_) == pos
                            nt = copy.deepcopy(t)
                            nt['succ'] = [('clone', len(self.clones))]
                            nb['term'] = nt
                            nxt = int(ss[0])
            elif t['t'] == 'switch' and t['discr'].get('k') in ('copy', 'move') and not t['discr']['pl']['p']:
                L = t['discr']['pl']['l']
                tgt = None
                vals = {str(v): b for v, b in t['vals']}
                if L in self.ival:
                    tgt = vals.get(self.ival[L], t['otherwise'])
                elif L in self.bval:
                    v = '1' if self.bval[L] else '0'
                    tgt = vals.get(v, t['otherwise'])
                if tgt is not None:
                    self.resolved += 1
                    nb['term'] = {'t': 'goto', 'succ': [('clone', len(self.clones))], 'decided': True}
                    nxt = tgt
            if nxt is None:
                rejoin = (cur, len(blk['stmts']))
                break
            cur, idx = nxt, 0
            nb = {'cleanup': False, 'stmts': [], 'term': None, 'threaded': True}
            self.clones.append(nb)
        if not self.resolved:
            return None
        return rejoin


def _split(D, b, i):
    """make statement i of block b the start of a block; returns that block's index"""
    blk = D['blocks'][b]
    if i == 0:
        return b
    nb = {'cleanup': blk['cleanup'], 'stmts': blk['stmts'][i:], 'term': blk['term']}
    for k in ('inl', 'threaded'):
        if k in blk:
            nb[k] = blk[k]
    D['blocks'].append(nb)
    blk['stmts'] = blk['stmts'][:i]
    blk['term'] = {'t': 'goto', 'succ': [len(D['blocks']) - 1]}
    return len(D['blocks']) - 1


def thread_returns(D, lo, hi, ret_local, tracked=None, start=None):
    """jump threading after inlining (see _Sim).  Blocks lo..hi are the inlined callee.  For every definition of its
    return value whose variant structure is evident (Ok(Some(..)), Err(..), `?` residual conversion) the code that
    follows gets a private copy in which the tests that are certain for that definition are already decided; the copies
    carry `vclass` hints so that value tracing can tell the merged definitions apart."""
    B = Body(D, 'rodbus')
    done = 0
    sites = []
    for bi in range(lo, hi):
        b = D['blocks'][bi]
        if b['cleanup']:
            continue
        t = b['term']
        if t['t'] == 'call' and t['dest']['l'] == ret_local and not t['dest']['p']:
            if norm(t.get('callee', '')) == FROM_RESIDUAL:
                ss = [x for x in t.get('succ', []) if x != '']
                if len(ss) == 1:
                    sites.append((bi, None, ['failure']))
            continue
        idx = None
        for k, s_ in enumerate(b['stmts']):
            if s_['s'] == 'assign' and s_['pl']['l'] == ret_local and not s_['pl']['p']:
                idx = k
        if idx is None:
            continue
        rv = b['stmts'][idx]['rv']
        sh = []
        if rv['r'] == 'agg' and 'adt' in rv:
            sh = [rv['variant']]
            if len(rv['a']) == 1:
                sh += _shape_of(B, rv['a'][0])
        if sh and _cls(sh[0]) in ('success', 'failure'):
            sites.append((bi, idx, sh))
    for bi, idx, sh in sites:
        sim = _Sim(D, {(ret_local, ()): sh})
        b = D['blocks'][bi]
        if idx is None:
            ss = [x for x in b['term'].get('succ', []) if x != '']
            rejoin = sim.run(int(ss[0]), 0)
        else:
            rejoin = sim.run(bi, idx + 1)
        if rejoin is None:
            continue
        tgt = _split(D, rejoin[0], rejoin[1])
        base = len(D['blocks'])
        sim.clones[-1]['term'] = {'t': 'goto', 'succ': [tgt]}
        for nb in sim.clones:
            nb['term']['succ'] = [(base + x[1]) if isinstance(x, tuple) else x for x in nb['term']['succ']]
            D['blocks'].append(nb)
        b = D['blocks'][bi]
        if idx is None:
            b['term']['succ'] = [base]
            b['term']['tid'] = sim.tid
        else:
            b['stmts'] = b['stmts'][:idx + 1]
            b['stmts'][idx]['tid'] = sim.tid
            b['term'] = {'t': 'goto', 'succ': [base]}
        done += 1
    return done


def json_dumps_blocks_gargs(H):
    return ' '.join(b['term'].get('gargs') or '' for b in H['blocks'] if b['term']['t'] == 'call')

def _split_gargs(g):
    g = (g or '').strip()
    if not (g.startswith('[') and g.endswith(']')):
        return []
    g = g[1:-1]
    out, depth, cur = [], 0, ''
    for ch in g:
        if ch in '<([':
            depth += 1
        elif ch in '>)]':
            depth -= 1
        if ch == ',' and depth == 0:
            out.append(cur.strip())
            cur = ''
        else:
            cur += ch
    if cur.strip():
        out.append(cur.strip())
    return out


def instantiate_generics(P, blocks, caller_gargs):
    """a generic helper is inlined at a call that names its type arguments: trait-method calls on a type parameter
    (`T::parse(..)`, unresolved in the generic body) are resolved to the impl of the concrete type"""
    args = _split_gargs(caller_gargs)
    if not args:
        return
    PARAM = r"(?:impl [^,\[\]]*?|\b\w+)/#(\d+)"
    for b in blocks:
        t = b['term']
        if t['t'] != 'call' or not t.get('gargs') or '/#' not in t['gargs']:
            continue
        ga = _split_gargs(t.get('gargs'))
        if not ga:
            continue
        bad = []
        def sub(m):
            i = int(m.group(1))
            if i >= len(args) or '/#' in args[i] or args[i].startswith("'"):
                bad.append(i)
                return m.group(0)
            return args[i]
        def inst(g):
            m = re.match(r'^(.*)/#(\d+)$', g)
            if m and '/#' not in m.group(1):
                return sub(re.match(r'^.*/#(\d+)$', g))        # the argument is the parameter itself (`T`, `impl Trait`)
            return re.sub(PARAM, sub, g)                         # a type built from it (`Indexed<T>`)
        ng = [inst(g) for g in ga]
        if bad:
            continue
        if t.get('trait') and not t.get('resolved') and ng[0] != ga[0]:
            method = t['callee'].rsplit('::', 1)[-1]
            try:
                ib = P.find_impl(norm(t['trait']), norm(ng[0]), method)
                t['resolved'] = ib.raw
                t['instantiated'] = True
            except Exception:
                pass
        if ng != ga:
            t['gargs'] = '[' + ', '.join(ng) + ']'


MAP_ADAPTERS = {'core::result::Result::map': ('core::result::Result', 'Ok', 'Err', True), 'core::option::Option::map': ('core::option::Option', 'Some', 'None', False),
                'core::result::Result::map_err': ('core::result::Result', 'Err', 'Ok', True)}
RESULT_OF = {'adt': 'core::result::Result', 'variants': [['Ok', '0'], ['Err', '1']]}
OPTION_OF = {'adt': 'core::option::Option', 'variants': [['None', '0'], ['Some', '1']]}


def expand_ctor_maps(P, D):
    """`r.map(Enum::Variant)` / `o.map(Enum::Variant)` / `r.map_err(Enum::Variant)` with an enum (or tuple-struct)
    constructor passed as a function: written out as the match it stands for (std's definition of map with a known
    function), so that the construction is visible as an aggregate like everywhere else.  Returns the number rewritten."""
    n = 0
    for bi in range(len(D['blocks'])):
        b = D['blocks'][bi]
        t = b['term']
        if b['cleanup'] or t['t'] != 'call' or norm(t.get('callee', '')) not in MAP_ADAPTERS or len(t['args']) != 2:
            continue
        f = t['args'][1]
        x = t['args'][0]
        if f.get('k') != 'const' or not f.get('fn') or x.get('k') not in ('copy', 'move') or x['pl']['p'] or t['dest']['p']:
            continue
        fn = norm(f['fn'])
        if '::' not in fn:
            continue
        adt, variant = fn.rsplit('::', 1)
        a = P.adts.get(adt)
        std = {'core::option::Option': ['None', 'Some'], 'core::result::Result': ['Ok', 'Err']}
        if (a is None or variant not in [v['name'] for v in a['variants']]) and variant not in std.get(adt, []):
            continue
        succ = [s_ for s_ in t.get('succ', []) if s_ != '']
        if len(succ) != 1:
            continue
        outer, hit, other, is_result = MAP_ADAPTERS[norm(t['callee'])]
        of = RESULT_OF if is_result else OPTION_OF
        val = {nm: v for nm, v in of['variants']}
        idx = {nm: i for i, (nm, v) in enumerate(of['variants'])}
        line = t.get('span', {}).get('line')
        L = len(D['locals'])
        D['locals'] = list(D['locals']) + ['isize', '?', adt, '?']
        d_, p_, r_, e_ = L, L + 1, L + 2, L + 3
        xl = x['pl']['l']
        nb = len(D['blocks'])
        hit_blk = {'cleanup': False, 'inl': 'map', 'stmts': [
            _assign({'l': p_, 'p': []}, _use({'k': 'move', 'pl': {'l': xl, 'p': ['downcast:%d:%s' % (idx[hit], hit), 'field:0:0']}}), line),
            _assign({'l': r_, 'p': []}, {'r': 'agg', 'adt': adt, 'variant': variant, 'fields': ['0'], 'a': [{'k': 'move', 'pl': {'l': p_, 'p': []}}]}, line),
            _assign(dict(t['dest']), {'r': 'agg', 'adt': outer, 'variant': hit, 'fields': ['0'], 'a': [{'k': 'move', 'pl': {'l': r_, 'p': []}}]}, line)],
            'term': {'t': 'goto', 'succ': [int(succ[0])]}}
        if other == 'None':
            other_stmts = [_assign(dict(t['dest']), {'r': 'agg', 'adt': outer, 'variant': 'None', 'fields': [], 'a': []}, line)]
        else:
            other_stmts = [_assign({'l': e_, 'p': []}, _use({'k': 'move', 'pl': {'l': xl, 'p': ['downcast:%d:%s' % (idx[other], other), 'field:0:0']}}), line),
                           _assign(dict(t['dest']), {'r': 'agg', 'adt': outer, 'variant': other, 'fields': ['0'], 'a': [{'k': 'move', 'pl': {'l': e_, 'p': []}}]}, line)]
        other_blk = {'cleanup': False, 'inl': 'map', 'stmts': other_stmts, 'term': {'t': 'goto', 'succ': [int(succ[0])]}}
        D['blocks'].append(hit_blk)
        D['blocks'].append(other_blk)
        D['blocks'].append({'cleanup': False, 'inl': 'map', 'stmts': [], 'term': {'t': 'unreachable'}})
        b['stmts'].append(_assign({'l': d_, 'p': []}, {'r': 'discr', 'pl': {'l': xl, 'p': []}, 'of': of}, line))
        b['term'] = {'t': 'switch', 'discr': {'k': 'move', 'pl': {'l': d_, 'p': []}}, 'dty': 'isize',
                     'vals': [[val[hit], nb], [val[other], nb + 1]], 'otherwise': nb + 2, 'span': t.get('span', {})}
        n += 1
    return n


# std adapters written out as the match they stand for when their callback is a closure literal (or they take none):
#   callee -> (is_result, variant that is processed, what happens to it, what happens to the other variant)
ALWAYS_EXPAND = True
CLOSURE_ADAPTERS = {
    'core::option::Option::map': (False, 'Some', 'call-wrap', 'keep'),
    'core::result::Result::map': (True, 'Ok', 'call-wrap', 'keep'),
    'core::result::Result::map_err': (True, 'Err', 'call-wrap', 'keep'),
    'core::option::Option::and_then': (False, 'Some', 'call', 'keep'),
    'core::result::Result::and_then': (True, 'Ok', 'call', 'keep'),
    'core::result::Result::or_else': (True, 'Err', 'call', 'keep'),
    'core::option::Option::unwrap_or': (False, 'Some', 'payload', 'arg'),
    'core::result::Result::unwrap_or': (True, 'Ok', 'payload', 'arg'),
    'core::option::Option::unwrap_or_else': (False, 'Some', 'payload', 'call0'),
    'core::option::Option::map_or': (False, 'Some', 'call2', 'arg'),
    'core::result::Result::map_or': (True, 'Ok', 'call2', 'arg'),
    'core::result::Result::inspect_err': (True, 'Err', 'call-ref-keep', 'same'),
    'core::result::Result::inspect': (True, 'Ok', 'call-ref-keep', 'same'),
    'core::option::Option::inspect': (False, 'Some', 'call-ref-keep', 'same'),
    'core::option::Option::is_some_and': (False, 'Some', 'call', 'false'),
    'core::option::Option::is_none_or': (False, 'Some', 'call', 'true'),
}


def _closure_literal(D, o):
    """the operand is a local holding a closure built right here (a closure literal passed as an argument), or names a
    function (`.map(Authorization::from)`)"""
    if o.get('k') == 'const' and o.get('fn'):
        return True
    if o.get('k') not in ('copy', 'move') or o['pl']['p']:
        return False
    l = o['pl']['l']
    defs = [s_ for b in D['blocks'] for s_ in b['stmts'] if s_['s'] == 'assign' and s_['pl']['l'] == l]
    return len(defs) == 1 and not defs[0]['pl']['p'] and defs[0]['rv']['r'] == 'agg' and 'closure' in defs[0]['rv']


def _sink_pure_default(D, o):
    """`x.map_or(Enum::A, f)` / `x.unwrap_or(Enum::A)`: the eagerly built default is a constant aggregate used only by this
    call - returns its rvalue (and removes the eager statement) so that it can be built on the arm that uses it"""
    if o.get('k') not in ('copy', 'move') or o['pl']['p']:
        return None
    l = o['pl']['l']
    defs = []
    uses = 0
    for b in D['blocks']:
        for s_ in b['stmts']:
            if s_['s'] == 'assign' and s_['pl']['l'] == l and not s_['pl']['p']:
                defs.append((b, s_))
            elif s_['s'] == 'assign' and l in _locals_in(s_['rv']):
                uses += 1
            elif s_['s'] == 'assign' and s_['pl']['l'] == l:
                uses += 1
        tt = b['term']
        if l in _locals_in({k: v for k, v in tt.items() if k in ('args', 'discr', 'pl', 'dest', 'cond', 'a')}):
            uses += 1
    if len(defs) != 1 or uses != 1:
        return None
    blk, st = defs[0]
    rv = st['rv']
    if rv['r'] != 'agg' or 'adt' not in rv or any(a.get('k') != 'const' for a in rv.get('a', [])):
        return None
    blk['stmts'].remove(st)
    return copy.deepcopy(rv)


def expand_closure_adapters(P, D):
    """`x.map(|v| ..)`, `x.and_then(|v| ..)`, `x.map_err(|e| ..)`, `x.unwrap_or(d)`, `x.map_or(d, |v| ..)` ... with a closure
    literal: written out as the match std defines them to be, the callback becoming a direct call of the closure (which the
    inliner then inlines).  A combinator chain and the match it replaces read the same to the rules.  Returns the number
    of adapters rewritten."""
    n = 0
    later = []
    FNONCE = 'core::ops::function::FnOnce::call_once'
    for bi in range(len(D['blocks'])):
        b = D['blocks'][bi]
        t = b['term']
        if b['cleanup'] or t['t'] != 'call':
            continue
        cal = norm(t.get('callee', ''))
        if cal not in CLOSURE_ADAPTERS or not t['args'] or t['dest']['p']:
            continue
        is_result, hit, hit_do, other_do = CLOSURE_ADAPTERS[cal]
        x = t['args'][0]
        if x.get('k') not in ('copy', 'move') or x['pl']['p']:
            continue
        succ = [s_ for s_ in t.get('succ', []) if s_ != '']
        if len(succ) != 1:
            continue
        nargs = len(t['args'])
        clos = None
        if hit_do in ('call', 'call-wrap', 'call-ref-keep'):
            if nargs != 2 or not _closure_literal(D, t['args'][1]):
                continue
            clos = t['args'][1]
        elif hit_do == 'call2':
            if nargs != 3 or not _closure_literal(D, t['args'][2]):
                continue
            clos = t['args'][2]
        if other_do == 'call0' and (nargs != 2 or not _closure_literal(D, t['args'][1])):
            continue
        if other_do == 'arg' and nargs < 2:
            continue
        of = RESULT_OF if is_result else OPTION_OF
        names = [nm for nm, _ in of['variants']]
        other = [nm for nm in names if nm != hit][0]
        val = {nm: v for nm, v in of['variants']}
        idx = {nm: i for i, (nm, v) in enumerate(of['variants'])}
        outer = of['adt']
        line = t.get('span', {}).get('line')
        span = t.get('span', {})
        L = len(D['locals'])
        D['locals'] = list(D['locals']) + ['isize', '?', '(?,)', '?', '?', '()']
        d_, p_, tup_, r_, e_, unit_ = L, L + 1, L + 2, L + 3, L + 4, L + 5
        xl = x['pl']['l']
        join = int(succ[0])
        nb = len(D['blocks'])
        dest = dict(t['dest'])
        new_blocks = []
        # ---- the processed variant
        hit_stmts = [_assign({'l': p_, 'p': []}, _use({'k': 'move', 'pl': {'l': xl, 'p': ['downcast:%d:%s' % (idx[hit], hit), 'field:0:0']}}), line)]
        if hit_do == 'call-ref-keep':
            # inspect / inspect_err: the callback sees a reference to the payload, the value itself is handed on untouched
            hit_stmts = [_assign({'l': p_, 'p': []}, {'r': 'ref', 'mut': False, 'pl': {'l': xl, 'p': ['downcast:%d:%s' % (idx[hit], hit), 'field:0:0']}}, line),
                         _assign({'l': tup_, 'p': []}, {'r': 'agg', 'tuple': True, 'a': [{'k': 'move', 'pl': {'l': p_, 'p': []}}]}, line)]
            new_blocks.append({'cleanup': False, 'inl': 'adapter', 'stmts': hit_stmts,
                               'term': {'t': 'call', 'callee': FNONCE, 'trait': 'core::ops::function::FnOnce', 'args': [clos, {'k': 'move', 'pl': {'l': tup_, 'p': []}}],
                                        'dest': {'l': unit_, 'p': []}, 'succ': [nb + 1], 'span': span, 'gargs': ''}})
            new_blocks.append({'cleanup': False, 'inl': 'adapter', 'stmts': [_assign(dest, _use({'k': 'move', 'pl': {'l': xl, 'p': []}}), line)], 'term': {'t': 'goto', 'succ': [join]}})
        elif hit_do == 'payload':
            hit_stmts.append(_assign(dest, _use({'k': 'move', 'pl': {'l': p_, 'p': []}}), line))
            hit_blk = {'cleanup': False, 'inl': 'adapter', 'stmts': hit_stmts, 'term': {'t': 'goto', 'succ': [join]}}
            new_blocks.append(hit_blk)
        else:
            wrap = hit_do == 'call-wrap'
            call_dest = {'l': r_, 'p': []} if wrap else dest
            after = nb + 1 if wrap else join
            ctor = None
            if clos.get('k') == 'const' and clos.get('fn') and '::' in norm(clos['fn']):
                adt_, var_ = norm(clos['fn']).rsplit('::', 1)
                a_ = P.adts.get(adt_)
                std_ = {'core::option::Option': ['None', 'Some'], 'core::result::Result': ['Ok', 'Err']}
                if (a_ is not None and var_ in [v_['name'] for v_ in a_['variants']]) or var_ in std_.get(adt_, []):
                    ctor = (adt_, var_)
            if ctor is not None:
                # the callback is a variant constructor (`.map_or(Ok(()), Err)`): the call is that aggregate
                hit_stmts.append(_assign(call_dest, {'r': 'agg', 'adt': ctor[0], 'variant': ctor[1], 'fields': ['0'], 'a': [{'k': 'move', 'pl': {'l': p_, 'p': []}}]}, line))
                hit_blk = {'cleanup': False, 'inl': 'adapter', 'stmts': hit_stmts, 'term': {'t': 'goto', 'succ': [after]}}
            else:
                hit_stmts.append(_assign({'l': tup_, 'p': []}, {'r': 'agg', 'tuple': True, 'a': [{'k': 'move', 'pl': {'l': p_, 'p': []}}]}, line))
                hit_blk = {'cleanup': False, 'inl': 'adapter', 'stmts': hit_stmts,
                           'term': {'t': 'call', 'callee': FNONCE, 'trait': 'core::ops::function::FnOnce', 'args': [clos, {'k': 'move', 'pl': {'l': tup_, 'p': []}}],
                                    'dest': call_dest, 'succ': [after], 'span': span, 'gargs': ''}}
            new_blocks.append(hit_blk)
            if wrap:
                new_blocks.append({'cleanup': False, 'inl': 'adapter', 'stmts': [
                    _assign(dest, {'r': 'agg', 'adt': outer, 'variant': hit, 'fields': ['0'], 'a': [{'k': 'move', 'pl': {'l': r_, 'p': []}}]}, line)],
                    'term': {'t': 'goto', 'succ': [join]}})
        other_idx = nb + len(new_blocks)
        # ---- the other variant
        if other_do == 'keep':
            if other == 'None':
                st = [_assign(dest, {'r': 'agg', 'adt': outer, 'variant': 'None', 'fields': [], 'a': []}, line)]
            else:
                st = [_assign({'l': e_, 'p': []}, _use({'k': 'move', 'pl': {'l': xl, 'p': ['downcast:%d:%s' % (idx[other], other), 'field:0:0']}}), line),
                      _assign(dest, {'r': 'agg', 'adt': outer, 'variant': other, 'fields': ['0'], 'a': [{'k': 'move', 'pl': {'l': e_, 'p': []}}]}, line)]
            new_blocks.append({'cleanup': False, 'inl': 'adapter', 'stmts': st, 'term': {'t': 'goto', 'succ': [join]}})
        elif other_do == 'same':
            other_idx = nb + 1        # the block that hands the value on after the callback: one definition of the result
        elif other_do == 'arg':
            dflt = _use(t['args'][1])
            sunk = _sink_pure_default(D, t['args'][1])
            if sunk is not None:
                dflt = sunk      # the default was a literal built just for this call: it is built where it is used
            new_blocks.append({'cleanup': False, 'inl': 'adapter', 'stmts': [_assign(dest, dflt, line)], 'term': {'t': 'goto', 'succ': [join]}})
        elif other_do in ('true', 'false'):
            new_blocks.append({'cleanup': False, 'inl': 'adapter', 'stmts': [_assign(dest, _use({'k': 'const', 'ty': 'bool', 'val': '1' if other_do == 'true' else '0', 'repr': 'const ' + other_do}), line)],
                               'term': {'t': 'goto', 'succ': [join]}})
        elif other_do == 'call0':
            new_blocks.append({'cleanup': False, 'inl': 'adapter', 'stmts': [_assign({'l': unit_, 'p': []}, {'r': 'agg', 'tuple': True, 'a': []}, line)],
                               'term': {'t': 'call', 'callee': FNONCE, 'trait': 'core::ops::function::FnOnce', 'args': [t['args'][1], {'k': 'move', 'pl': {'l': unit_, 'p': []}}],
                                        'dest': dest, 'succ': [join], 'span': span, 'gargs': ''}})
        new_blocks.append({'cleanup': False, 'inl': 'adapter', 'stmts': [], 'term': {'t': 'unreachable'}})
        D['blocks'].extend(new_blocks)
        b['stmts'].append(_assign({'l': d_, 'p': []}, {'r': 'discr', 'pl': {'l': xl, 'p': []}, 'of': of}, line))
        b['term'] = {'t': 'switch', 'discr': {'k': 'move', 'pl': {'l': d_, 'p': []}}, 'dty': 'isize',
                     'vals': [[val[hit], nb], [val[other], other_idx]], 'otherwise': nb + len(new_blocks) - 1, 'span': span}
        n += 1
        if hit_do == 'call-wrap' or other_do == 'keep':
            later.append((nb, nb + len(new_blocks) - 1, dest['l'], join))
    # the value an adapter builds is usually taken apart by the next adapter of the chain: decide those tests per definition
    for lo, hi, dl, join in later:
        try:
            thread_returns(D, lo, hi, dl, (dl, ()), join)
        except Exception:
            pass
    if n:
        D['adapters'] = D.get('adapters', 0) + n
    return n


LOOP_ADAPTERS = ('core::iter::traits::iterator::Iterator::try_for_each', 'core::iter::traits::iterator::Iterator::for_each')


def _opaque_iter_type(P, D, l):
    """the concrete type behind an `impl Iterator` value produced by a function of this crate (read off that function's
    body: the type it builds and returns)"""
    import q
    for _ in range(4):
        src = None
        for b in D['blocks']:
            t = b['term']
            if t['t'] == 'call' and t['dest']['l'] == l and not t['dest']['p']:
                src = ('call', t)
            for s_ in b['stmts']:
                if s_['s'] == 'assign' and s_['pl']['l'] == l and not s_['pl']['p'] and s_['rv']['r'] == 'use' and s_['rv']['a'][0].get('k') in ('copy', 'move') and not s_['rv']['a'][0]['pl']['p']:
                    src = ('use', s_['rv']['a'][0]['pl']['l'])
                if s_['s'] == 'assign' and s_['pl']['l'] == l and not s_['pl']['p'] and s_['rv']['r'] == 'ref' and not s_['rv']['pl']['p']:
                    src = ('use', s_['rv']['pl']['l'])        # `(&mut it).try_for_each(..)`
        if src is None:
            return None
        if src[0] == 'use':
            l = src[1]
            continue
        t = src[1]
        cal = norm(t.get('resolved') or t.get('callee') or '')
        if cal.endswith('IntoIterator::into_iter') and t['args'] and t['args'][0].get('k') in ('copy', 'move') and not t['args'][0]['pl']['p']:
            l = t['args'][0]['pl']['l']
            continue
        hb = P.get(cal)
        if hb is None or hb.crate not in CRATES:
            return None
        tys = set()
        for x in q.exits(hb):
            if x['kind'] == 'agg':
                tys.add(norm(x['adt']))
            elif x['kind'] == 'call':
                inner = P.get(x['cs'].callee or '')
                so = norm(inner.sig_out) if inner is not None and inner.sig_out else None
                tys.add(so)
            else:
                tys.add(None)
        if len(tys) == 1 and None not in tys:
            return tys.pop()
        return None
    return None


def expand_loop_adapters(P, D):
    """`iter.try_for_each(|x| ..)` / `iter.for_each(|x| ..)` with a closure literal: written out as the loop they stand for
    (`loop { match iter.next() { Some(x) => f(x)?, None => break } }`), so that an adapter and the `for` loop it replaces
    read the same.  Returns the number rewritten."""
    n = 0
    FNMUT = 'core::ops::function::FnMut::call_mut'
    NEXT = 'core::iter::traits::iterator::Iterator::next'
    for bi in range(len(D['blocks'])):
        b = D['blocks'][bi]
        t = b['term']
        if b['cleanup'] or t['t'] != 'call' or norm(t.get('callee', '')) not in LOOP_ADAPTERS or len(t['args']) != 2 or t['dest']['p']:
            continue
        it, clos = t['args']
        if it.get('k') not in ('copy', 'move') or it['pl']['p'] or not _closure_literal(D, clos) or clos.get('k') == 'const':
            continue
        succ = [s_ for s_ in t.get('succ', []) if s_ != '']
        if len(succ) != 1:
            continue
        is_try = norm(t['callee']).endswith('try_for_each')
        join = int(succ[0])
        line = t.get('span', {}).get('line')
        span = t.get('span', {})
        L = len(D['locals'])
        ity = D['locals'][it['pl']['l']] if it['pl']['l'] < len(D['locals']) else '?'
        D['locals'] = list(D['locals']) + ['&mut ' + str(ity), 'core::option::Option<?>', 'isize', '?', '(?,)', '?', 'isize', '&mut ?']
        ref_, nx_, d_, p_, tup_, r_, d2_, cref_ = range(L, L + 8)
        nb = len(D['blocks'])
        head, some_b, none_b, after_b, brk_b, dead = nb, nb + 1, nb + 2, nb + 3, nb + 4, nb + 5
        dest = dict(t['dest'])
        gargs = t.get('gargs', '')
        blocks = [
            # head: next(&mut iter)
            {'cleanup': False, 'inl': 'adapter', 'stmts': [_assign({'l': ref_, 'p': []}, {'r': 'ref', 'mut': True, 'pl': {'l': it['pl']['l'], 'p': []}}, line)],
             'term': {'t': 'call', 'callee': NEXT, 'trait': 'core::iter::traits::iterator::Iterator', 'args': [{'k': 'move', 'pl': {'l': ref_, 'p': []}}],
                      'dest': {'l': nx_, 'p': []}, 'succ': [nb + 6], 'span': span, 'gargs': gargs}},
            # some: r = f(x)
            {'cleanup': False, 'inl': 'adapter', 'stmts': [
                _assign({'l': p_, 'p': []}, _use({'k': 'move', 'pl': {'l': nx_, 'p': ['downcast:1:Some', 'field:0:0']}}), line),
                _assign({'l': tup_, 'p': []}, {'r': 'agg', 'tuple': True, 'a': [{'k': 'move', 'pl': {'l': p_, 'p': []}}]}, line),
                _assign({'l': cref_, 'p': []}, {'r': 'ref', 'mut': True, 'pl': {'l': clos['pl']['l'], 'p': []}}, line)],
             'term': {'t': 'call', 'callee': FNMUT, 'trait': 'core::ops::function::FnMut', 'args': [{'k': 'move', 'pl': {'l': cref_, 'p': []}}, {'k': 'move', 'pl': {'l': tup_, 'p': []}}],
                      'dest': {'l': r_, 'p': []}, 'succ': [after_b], 'span': span, 'gargs': ''}},
            # none: the iteration is over
            {'cleanup': False, 'inl': 'adapter', 'stmts': [_assign(dest, {'r': 'agg', 'adt': 'core::result::Result', 'variant': 'Ok', 'fields': ['0'], 'a': [{'k': 'const', 'ty': '()', 'val': '()', 'repr': 'const ()'}]} if is_try
                                                               else _use({'k': 'const', 'ty': '()', 'val': '()', 'repr': 'const ()'}), line)],
             'term': {'t': 'goto', 'succ': [join]}},
            # after the callback
            ({'cleanup': False, 'inl': 'adapter', 'stmts': [_assign({'l': d2_, 'p': []}, {'r': 'discr', 'pl': {'l': r_, 'p': []}, 'of': RESULT_OF}, line)],
              'term': {'t': 'switch', 'discr': {'k': 'move', 'pl': {'l': d2_, 'p': []}}, 'dty': 'isize', 'vals': [['0', head], ['1', brk_b]], 'otherwise': dead, 'span': span}} if is_try
             else {'cleanup': False, 'inl': 'adapter', 'stmts': [], 'term': {'t': 'goto', 'succ': [head]}}),
            # break: the callback failed, its error is the result
            {'cleanup': False, 'inl': 'adapter', 'stmts': [_assign(dest, _use({'k': 'move', 'pl': {'l': r_, 'p': []}}), line)], 'term': {'t': 'goto', 'succ': [join]}},
            {'cleanup': False, 'inl': 'adapter', 'stmts': [], 'term': {'t': 'unreachable'}},
            # switch on next()
            {'cleanup': False, 'inl': 'adapter', 'stmts': [_assign({'l': d_, 'p': []}, {'r': 'discr', 'pl': {'l': nx_, 'p': []}, 'of': OPTION_OF}, line)],
             'term': {'t': 'switch', 'discr': {'k': 'move', 'pl': {'l': d_, 'p': []}}, 'dty': 'isize', 'vals': [['1', some_b], ['0', none_b]], 'otherwise': dead, 'span': span}},
        ]
        ga = _split_gargs(gargs) or []
        ity_ = norm(ga[0]) if ga else None
        if ity_ is None or 'Opaque' in ity_ or 'Alias' in ity_:
            ity_ = _opaque_iter_type(P, D, it['pl']['l'])       # `fn iter(self) -> impl Iterator` of this crate
        if ity_:
            blocks[0]['term']['gargs'] = '[' + ity_ + ']'
            try:
                ib = P.find_impl('core::iter::traits::iterator::Iterator', ity_, 'next')
                if ib is not None:
                    blocks[0]['term']['resolved'] = ib.raw
            except Exception:
                pass
        D['blocks'].extend(blocks)
        b['term'] = {'t': 'goto', 'succ': [head]}
        n += 1
    if n:
        D['adapters'] = D.get('adapters', 0) + n
    return n


def body_changed(P, b, sigs):
    """does the body call something else than the pinned body did?  (adapter chains are only written out where the code
    differs from the pinned tree: the pinned bodies read exactly as they did when the rules were written)"""
    own = re.sub(r'(::\{closure#\d+\})+$', '', b.path)
    sg = sigs.get(own)
    if sg is None or len(sg) <= 5:
        return True
    cur = set()
    for p2, bs2 in P.bodies.items():
        if p2 == own or p2.startswith(own + '::{closure#'):
            for b2 in bs2:
                if not b2.is_promoted:
                    cur |= {cs.resolved or cs.declared for cs in b2.calls() if (cs.resolved or cs.declared)}
    pinned = set(sg[5])
    noise = lambda x: x.startswith('tracing') or x.startswith('core::fmt::') or x.startswith('core::panicking::')
    if len(pinned) >= 60:
        return not ({x for x in pinned if not noise(x)} <= cur)
    return {x for x in cur if not noise(x)} != {x for x in pinned if not noise(x)}


class Inliner:
    def __init__(self, P, known):
        self.P = P
        self.known = known
        self.memo = {}
        self.stack = []
        self.log = []          # (caller, helper, how)
        self.kept = set()      # unknown helpers that still have a non-inlined call site
        self.inlined_fns = set()

    def is_helper(self, path):
        if path is None or path in self.known:
            return False
        b = self.P.get(path)
        if b is None or b.crate not in CRATES or b.kind not in ('Fn', 'AssocFn'):
            return False
        return True

    def inl(self, path):
        """fully inlined raw dict of the body at normalised `path`"""
        if path in self.memo:
            return self.memo[path]
        b = self.P.get(path)
        D = copy.deepcopy(b.d)
        self.stack.append(path)
        try:
            D = self._process(D, b.crate, path)
        finally:
            self.stack.pop()
        self.memo[path] = D
        return D

    def _devirtualise(self, D, B):
        """FnOnce::call_once(f, (a, b)) with f a function item / closure literal -> direct call"""
        import q
        ch = False
        for cs in B.calls():
            if cs.declared not in FN_TRAITS or len(cs.args) != 2:
                continue
            f = q.sem(B, cs.args[0])
            tgt = None
            env = None
            decl = None
            if f.kind == 'const' and f.extra and f.extra.get('fn'):
                tgt = decl = f.extra['fn']
                m = re.search(r'\{([^{}]*)\}$', f.extra.get('ty', ''))
                if self.P.get(norm(tgt)) is None and m:
                    tgt = m.group(1)       # trait method named through its impl: `{<T as Trait>::method}`
                    if self.P.get(norm(tgt)) is None:
                        # ... of a generic impl (`impl<T> From<TrySendError<T>> for E`): found by self type and head of the argument type
                        mm = re.match(r'^<(.+?) as ([\w:]+)<(.+)>>::(\w+)$', norm(tgt))
                        if mm:
                            head = mm.group(3).split('<')[0]
                            hits = [b_ for b_ in self.P.all_bodies() if b_.kind == 'AssocFn' and norm(b_.trait or '') == mm.group(2) and norm(b_.self_ty or '') == mm.group(1)
                                    and b_.path.rsplit('::', 1)[-1] == mm.group(4) and b_.sig_in and norm(b_.sig_in[0]).split('<')[0] == head]
                            if len(hits) == 1:
                                tgt = hits[0].path
            elif f.kind == 'agg' and isinstance(f.extra, dict) and 'closure' in f.extra and not f.proj:
                tgt = f.extra['closure']
                env = cs.args[0]
            elif f.kind == 'place' and not f.proj and f.local is not None and cs.declared != FN_TRAITS[0]:
                # called through a reference to a closure literal held in a local (FnMut / Fn: `(&mut f)(x)`)
                d_ = B.single_def(f.local)
                if d_ is not None and d_[0] == 'assign' and d_[2]['rv']['r'] == 'agg' and 'closure' in d_[2]['rv']:
                    tgt = d_[2]['rv']['closure']
                    env = cs.args[0]
            if tgt is None or self.P.get(norm(tgt)) is None:
                continue
            tup = q.sem(B, cs.args[1])
            if not (tup.kind == 'agg' and isinstance(tup.extra, dict) and tup.extra.get('tuple') and not tup.proj):
                continue
            t = D['blocks'][cs.block]['term']
            t['callee'] = decl or tgt
            t['resolved'] = tgt
            t.pop('trait', None)
            t['args'] = ([env] if env is not None else []) + list(tup.extra['a'])
            t['devirt'] = True
            D['devirtualised'] = D.get('devirtualised', 0) + 1
            ch = True
        return ch

    def _process(self, D, crate, path):
        import q
        skip = set()
        guard = 0
        while guard < 400 and len(D['blocks']) < MAX_BLOCKS:
            guard += 1
            B = Body(D, crate)
            B.prog = self.P
            if any(cs.declared in FN_TRAITS for cs in B.calls()) and self.memo_has_inlined(D):
                if self._devirtualise(D, B):
                    continue
            did = False
            for cs in B.calls():
                tgt = cs.resolved if self.is_helper(cs.resolved) else (cs.declared if self.is_helper(cs.declared) else None)
                if tgt is None and cs.declared in ('core::convert::Into::into', 'core::convert::TryInto::try_into'):
                    # `a.into()` / `a.try_into()` are std's blanket impls: `B::from(a)` / `B::try_from(a)` - if that impl is a
                    # new helper, it is the callee
                    ip = from_impl_for_into(self.P, cs.gargs, 'TryFrom' if cs.declared.endswith('try_into') else 'From')
                    if ip is not None and self.is_helper(ip):
                        tgt = ip
                if tgt is None and cs.t.get('devirt') and cs.resolved:
                    # a closure literal called on the spot (exposed by inlining the generic helper it was passed to)
                    cb_ = self.P.get(cs.resolved)
                    if cb_ is not None and cb_.kind == 'Closure' and cb_.crate in CRATES and not cb_.yields():
                        tgt = cs.resolved
                key = (cs.block, tgt)
                if tgt is None or key in skip:
                    continue
                if tgt in self.stack:
                    skip.add(key)
                    self.kept.add(tgt)
                    continue
                hb = self.P.get(tgt)
                if hb.is_async:
                    cb = self.P.get(tgt + '::{closure#0}')
                    polls = [p for p in B.calls(POLL) if q.future_source(B, p) is cs]
                    if cb is None or len(polls) != 1:
                        skip.add(key)
                        self.kept.add(tgt)
                        continue
                    H = self.inl(tgt + '::{closure#0}')
                    if cs.gargs and '/#' in json_dumps_blocks_gargs(H):
                        H = copy.deepcopy(H)
                        instantiate_generics(self.P, H['blocks'], cs.gargs)
                    if len(cs.args) != len(cb.upvars) and cb.upvars:
                        skip.add(key)
                        self.kept.add(tgt)
                        continue
                    if not inline_async(D, cs.block, polls[0].block, H):
                        skip.add(key)
                        self.kept.add(tgt)
                        continue
                    _drop_dead_machinery(D, B, cs.dest['l'])
                    self.log.append((path, tgt, 'async'))
                else:
                    if (hb.kind == 'Closure' and not cs.t.get('devirt')) or len(cs.args) != hb.argc:
                        skip.add(key)
                        self.kept.add(tgt)
                        continue
                    H = self.inl(tgt)
                    if cs.gargs and '/#' in json_dumps_blocks_gargs(H):
                        H = copy.deepcopy(H)
                        instantiate_generics(self.P, H['blocks'], cs.gargs)
                    inline_sync(D, cs.block, H)
                    self.log.append((path, tgt, 'sync'))
                D['inlined'] = sorted(set(D.get('inlined', [])) | {tgt} | set(H.get('inlined', [])))
                self.inlined_fns.add(tgt)
                did = True
                break
            if not did:
                break
        return D

    def memo_has_inlined(self, D):
        return bool(D.get('inlined')) or bool(D.get('adapters'))


def from_impl_for_into(P, gargs, trait='From'):
    """path of `<B as From<A>>::from` in the program for an `Into::into` call with type arguments [A, B] (None if there
    is none, or the types are not concrete)"""
    ga = _split_gargs(gargs)
    if not ga or len(ga) != 2 or any('/#' in g for g in ga) or norm(ga[0]) == norm(ga[1]):
        return None
    try:
        ib = P.find_impl('core::convert::' + trait, norm(ga[1]), 'from' if trait == 'From' else 'try_from', norm(ga[0]))
    except Exception:
        return None
    return ib.path if ib is not None else None


def unnamed_callers_possible(P, hb, leaving=()):
    """could a `From::from` impl still be reached through a call that does not name it (an `.into()` / `?` conversion /
    generic call that was not resolved and inlined)?"""
    m = re.match(r'^<(.+) as core::convert::(?:Try)?From<(.+)>>::(?:try_)?from$', hb.path)
    if not m:
        return True
    tgt_ty, src_ty = m.group(1), m.group(2)
    for b in P.all_bodies():
        if b.crate not in CRATES or b.is_promoted or b.path == hb.path or re.sub(r'(::\{closure#\d+\})+$', '', b.path) in leaving:
            continue
        for cs in b.calls():
            d = cs.declared or ''
            if d not in ('core::convert::Into::into', 'core::convert::From::from', 'core::ops::try_trait::FromResidual::from_residual', 'core::convert::TryInto::try_into', 'core::convert::TryFrom::try_from') and not (cs.t.get('trait') and '/#' in (cs.gargs or '')):
                continue
            g = cs.gargs or ''
            if tgt_ty.split('<')[0] in g and (src_ty.split('<')[0] in g or '/#' in g):
                return True
    return False


def relocate_moved(P, known):
    """a free function that was moved to another module of the same crate keeps its old name for the rules: an unknown
    `fn leaf` with exactly one known-but-absent function of the same leaf name (and no sibling candidate) is that function"""
    present = {}
    for path, bs in P.bodies.items():
        for b in bs:
            if not b.is_promoted and b.crate in CRATES and b.kind in ('Fn', 'AssocFn'):
                present[path] = b
    unknown_free = [p for p, b in present.items() if p not in known and b.kind == 'Fn' and '<' not in p]
    missing = [k for k in known if k not in present and '<' not in k]
    alias = {}
    for u in unknown_free:
        leaf = u.rsplit('::', 1)[-1]
        cands = [k for k in missing if k.rsplit('::', 1)[-1] == leaf and k.split('::')[0] == u.split('::')[0]]
        sib = [x for x in unknown_free if x.rsplit('::', 1)[-1] == leaf]
        if len(cands) == 1 and len(sib) == 1:
            alias[u] = cands[0]
    # renamed function / method: in one parent (module or impl type) exactly one known function disappeared and exactly
    # one unknown function of the same kind, asyncness and signature appeared
    sigs = load_sigs()
    if sigs:
        def parent(p):
            return p.rsplit('::', 1)[0]
        gone = {}
        for k in known:
            if k not in present and k not in alias.values() and k in sigs:
                gone.setdefault(parent(k), []).append(k)
        new = {}
        for p, b in present.items():
            if p not in known and p not in alias:
                new.setdefault(parent(p), []).append(p)
        def sig_of(b):
            return [b.kind, bool(b.is_async), list(b.sig_in or []), b.sig_out]
        for par, ks in gone.items():
            us = new.get(par, [])
            for k in ks:
                sg = sigs[k]
                want = [sg[0], bool(sg[1]), list(sg[2]), sg[3]]
                same_new = [u for u in us if sig_of(present[u]) == want and u not in alias]
                same_gone = [k2 for k2 in ks if [sigs[k2][0], bool(sigs[k2][1]), list(sigs[k2][2]), sigs[k2][3]] == want]
                # exactly one function of that signature disappeared from the parent and exactly one appeared
                if len(same_new) == 1 and len(same_gone) == 1:
                    alias[same_new[0]] = k
                elif len(same_new) > 1 and len(same_gone) == 1 and len(sg) > 5 and sg[5]:
                    # several newcomers share the signature (the old function was renamed AND a helper with the same
                    # parameters was split off): the renamed one is the one that still calls what the old one called
                    old_c = set(sg[5])
                    def callees_of(u):
                        out = set()
                        for p2, bs2 in P.bodies.items():
                            if p2 == u or p2.startswith(u + '::{closure#'):
                                for b2 in bs2:
                                    if not b2.is_promoted:
                                        out |= {cs.resolved or cs.declared for cs in b2.calls() if (cs.resolved or cs.declared)}
                        return out
                    scored = sorted(((len(old_c & callees_of(u)) / max(1, len(old_c | callees_of(u))), u) for u in same_new), reverse=True)
                    if scored[0][0] >= 0.5 and scored[0][0] >= 1.5 * scored[1][0]:
                        alias[scored[0][1]] = k
    # a method that moved to another type of the same module, keeping its name (`RtuParser::length_mode(&self, fc)` ->
    # `ParserType::length_mode(self, fc)`): the old path is gone and exactly one new function of the crate has that leaf name,
    # the same number of parameters and lives in the same file
    if sigs:
        for k in [k for k in known if k not in present and k not in alias.values() and k in sigs and '<' not in k]:
            leaf = k.rsplit('::', 1)[-1]
            mod_ = k.rsplit('::', 2)[0]
            cands = [u for u, b_ in present.items() if u not in known and u not in alias and u.rsplit('::', 1)[-1] == leaf and u.rsplit('::', 2)[0] == mod_
                     and b_.kind == sigs[k][0] and bool(b_.is_async) == bool(sigs[k][1]) and len(b_.sig_in or []) == len(sigs[k][2]) and norm(b_.sig_out or '') == norm(sigs[k][3] or '')]
            others = [k2 for k2 in known if k2 not in present and k2 != k and k2.rsplit('::', 1)[-1] == leaf and k2.rsplit('::', 2)[0] == mod_]
            if len(cands) == 1 and not others:
                alias[cands[0]] = k
    # a function whose parameters were bundled into a struct and that became a method of it (`run_session(a, b, c)` ->
    # `Session{a, b, c}.run()`): same module, same asyncness, and it still calls what the old one called
    P.bundled = getattr(P, 'bundled', {})
    if sigs:
        def module_of(p):
            b_ = present.get(p)
            return getattr(b_, 'file', None)
        def callees_of2(u):
            out = set()
            for p2, bs2 in P.bodies.items():
                if p2 == u or p2.startswith(u + '::{closure#'):
                    for b2 in bs2:
                        if not b2.is_promoted:
                            out |= {cs.resolved or cs.declared for cs in b2.calls() if (cs.resolved or cs.declared)}
            return out
        try:
            import facts as _f
            known_adts_ = {l.strip() for l in open(os.path.join(os.path.dirname(os.path.abspath(__file__)), 'known_adts.txt')) if l.strip()}
        except Exception:
            known_adts_ = set()
        still_gone = [k for k in known if k not in present and k not in alias.values() and k in sigs and len(sigs[k]) > 5 and len(sigs[k][5]) >= 3]
        newcomers = [p for p, b_ in present.items() if p not in known and p not in alias]
        for k in still_gone:
            sg = sigs[k]
            old_c = set(sg[5])
            crate_ = k.split('::')[0]
            def on_new_type(u):
                # the newcomer is a method of a type that did not exist on the pinned tree (the parameter object)
                si = present[u].sig_in or []
                if not si:
                    return False
                t0 = norm(re.sub(r'<.*$', '', re.sub(r'^&(mut )?', '', si[0])))
                return t0.split('::')[0] == crate_ and t0 in P.adts and t0 not in known_adts_
            cands = [u for u in newcomers if u.split('::')[0] == crate_ and bool(present[u].is_async) == bool(sg[1]) and u not in alias and on_new_type(u)]
            scored = sorted(((len(old_c & callees_of2(u)) / max(1, len(old_c | callees_of2(u))), u) for u in cands), reverse=True)
            if scored and scored[0][0] >= 0.6 and (len(scored) == 1 or scored[0][0] >= 1.5 * scored[1][0]):
                alias[scored[0][1]] = k
                P.bundled[k] = list(sg[4]) if len(sg) > 4 and sg[4] else []
    if not alias:
        return alias

    def ren(raw):
        n = norm(raw)
        for u, k in alias.items():
            if n == u:
                return k
            if n.startswith(u + '::{'):
                return k + n[len(u):]
        return raw

    def walk(x):
        if isinstance(x, dict):
            for key in ('callee', 'resolved', 'fn', 'closure', 'coroutine'):
                if key in x and isinstance(x[key], str):
                    x[key] = ren(x[key])
            for v in x.values():
                walk(v)
        elif isinstance(x, list):
            for v in x:
                walk(v)
    newbodies = {}
    for path, bs in P.bodies.items():
        for b in bs:
            if b.crate in CRATES:
                walk(b.d['blocks'])
                b.d['path'] = ren(b.d['path'])
                if b.d.get('parent'):
                    b.d['parent'] = ren(b.d['parent'])
                nb = Body(b.d, b.crate)
                nb.prog = P
            else:
                nb = b
            newbodies.setdefault(nb.path, []).append(nb)
    P.bodies = newbodies
    return alias


def alias_param_names(P):
    """parameters are identified by position: if a parameter of a known function was renamed, its pinned name stays usable
    (every debug name with the new base name gets a twin with the old one).  Applies to the fn body and, for an async fn,
    to its coroutine body (upvars are the parameters in order)."""
    sigs = load_sigs()
    n = 0
    for path, sg in sigs.items():
        if len(sg) < 5 or not sg[4]:
            continue
        b = P.get(path)
        if b is None or b.crate not in CRATES:
            continue
        old = sg[4]
        cur = {}
        for nm, pl in b.names.items():
            if not pl['p'] and 1 <= pl['l'] <= b.argc and '#' not in nm:
                cur[pl['l']] = nm
        if len(cur) != len(old):
            continue
        ren = {cur[i + 1]: old[i] for i in range(len(old)) if cur[i + 1] != old[i]}
        if not ren:
            continue
        targets = [b]
        if b.is_async:
            cb = P.get(path + '::{closure#0}')
            if cb is not None:
                targets.append(cb)
        for tb in targets:
            bases = {k.split('#')[0] for k in tb.names}
            first = {}
            for newn, oldn in ren.items():
                if oldn in bases:
                    continue            # the old name now means something else in this body
                for k in list(tb.names):
                    if k.split('#')[0] == newn:
                        first[oldn + k[len(newn):]] = tb.names[k]
                        n += 1
            if first:
                # pinned names first: they are the ones used when a place is printed (panic-site keys, diagnostics)
                merged = dict(first)
                merged.update(tb.names)
                tb.names.clear()
                tb.names.update(merged)
    return n


def alias_bundled_params(P):
    """for a function recognised as `parameters bundled into self` (relocate_moved): a pinned parameter name that is now
    a field of the type of `self` names that field"""
    n = 0
    for k, old in getattr(P, 'bundled', {}).items():
        targets = [P.get(k)]
        if targets[0] is not None and targets[0].is_async:
            targets.append(P.get(k + '::{closure#0}'))
        for tb in targets:
            if tb is None:
                continue
            bases = {x.split('#')[0] for x in tb.names}
            selfs = [(nm, pl) for nm, pl in tb.names.items() if nm.split('#')[0] == 'self']
            for nm, pl in selfs:
                ty = tb.locals[pl['l']] if not pl['p'] and pl['l'] < len(tb.locals) else None
                if ty is None:
                    continue
                ref = ty.startswith('&')
                core_ty = re.sub(r'^&(mut )?', '', ty)
                core_ty = norm(re.sub(r'<.*$', '', core_ty))
                a = P.adts.get(core_ty)
                if a is None or len(a['variants']) != 1:
                    continue
                for i, f in enumerate(a['variants'][0]['fields']):
                    if f['name'] in old and f['name'] not in bases:
                        key = f['name'] if f['name'] not in tb.names else f['name'] + nm[len('self'):]
                        tb.names[key] = {'l': pl['l'], 'p': (['deref'] if ref else []) + ['field:%d:%s' % (i, f['name'])]}
                        n += 1
    return n


def apply(P, known=None):
    """rewrite P in place: every known body gets unknown helpers inlined; helpers that were inlined everywhere are
    removed from the program.  Returns the inliner (log of what was done)."""
    if known is None:
        known = load_known()
    inl = Inliner(P, known if known is not None else set())
    P.inline_log = inl
    if known is None:
        return inl
    inl.moved = relocate_moved(P, known)
    inl.renamed_params = alias_param_names(P)
    inl.bundled_params = alias_bundled_params(P)
    # adapters with a constructor passed as a function are written out (everywhere: a refactoring may introduce one
    # without adding any function); adapters with a closure literal where the body differs from the pinned one
    sigs_ = load_sigs() or {}
    changed_ = {}
    for path, bs in list(P.bodies.items()):
        for b in bs:
            if not (b.is_promoted or b.crate not in CRATES or b.kind in ('Static', 'Const', 'AssocConst')):
                own = re.sub(r'(::\{closure#\d+\})+$', '', b.path)
                if own not in changed_:
                    changed_[own] = body_changed(P, b, sigs_)
    for path, bs in list(P.bodies.items()):
        for i, b in enumerate(bs):
            if b.is_promoted or b.crate not in CRATES or b.kind in ('Static', 'Const', 'AssocConst'):
                continue
            if any(bl['term']['t'] == 'call' and norm(bl['term'].get('callee', '')) in MAP_ADAPTERS and len(bl['term']['args']) == 2 and bl['term']['args'][1].get('fn') for bl in b.blocks):
                D = copy.deepcopy(b.d)
                if expand_ctor_maps(P, D):
                    nb = Body(D, b.crate)
                    nb.prog = P
                    bs[i] = nb
                    b = nb
            if any(bl['term']['t'] == 'call' and norm(bl['term'].get('callee', '')) in LOOP_ADAPTERS for bl in b.blocks):
                D = copy.deepcopy(b.d)
                if expand_loop_adapters(P, D):
                    nb = Body(D, b.crate)
                    nb.prog = P
                    bs[i] = nb
                    b = nb
            if any(bl['term']['t'] == 'call' and norm(bl['term'].get('callee', '')) in CLOSURE_ADAPTERS for bl in b.blocks) and (ALWAYS_EXPAND or changed_.get(re.sub(r'(::\{closure#\d+\})+$', '', b.path), True)):
                D = copy.deepcopy(b.d)
                if expand_closure_adapters(P, D):
                    nb = Body(D, b.crate)
                    nb.prog = P
                    bs[i] = nb
    # roots: every body that is not itself (part of) an unknown helper
    todo = []
    for path, bs in list(P.bodies.items()):
        for b in bs:
            if b.is_promoted or b.kind in ('Static', 'Const', 'AssocConst') or b.crate not in CRATES:
                continue
            todo.append((path, b))
    # does anything unknown exist at all?
    unknown = [p for p, b in todo if b.kind in ('Fn', 'AssocFn') and p not in known]
    if not unknown and not any(b.d.get('adapters') for _, b in todo):
        return inl
    for path, b in todo:
        D = inl.inl(path)
        if D.get('inlined') or D.get('devirtualised'):
            nb = Body(D, b.crate)
            nb.prog = P
            nb.inlined = D.get('inlined', [])
            P.bodies[path] = [nb if x is b else x for x in P.bodies[path]]
    # remove helpers that no longer have a caller (all their call sites were inlined)
    def owner(path):
        return re.sub(r'(::\{closure#\d+\})+$', '', path)

    def refs(b):
        out = set()
        for cs in b.calls():
            out |= cs.names()
        def walk(x):
            if isinstance(x, dict):
                if x.get('k') == 'const' and x.get('fn'):
                    out.add(norm(x['fn']))
                for v in x.values():
                    walk(v)
            elif isinstance(x, list):
                for v in x:
                    walk(v)
        walk(b.blocks)
        return out
    refmap = {}
    for b in P.all_bodies():
        if b.crate in CRATES:
            refmap.setdefault(owner(b.path), set()).update(refs(b) & inl.inlined_fns)
    gone = set()
    changed = True
    while changed:
        changed = False
        for h in inl.inlined_fns - gone:
            if not any(h in r for o, r in refmap.items() if o != h and o not in gone):
                gone.add(h)
                changed = True
    still = inl.inlined_fns - gone
    inl.removed = []
    for h in sorted(inl.inlined_fns):
        if h in still:
            continue
        hb = P.get(h)
        if hb is not None and hb.trait:
            # a trait method can be reached without being named (blanket impls such as Into for From, generic and dyn
            # dispatch): it stays in the program even if every direct call was inlined - unless it is a From conversion
            # and no conversion between its two types is left anywhere in the crate (`.into()` calls are resolved above)
            leaving = {x for x in inl.inlined_fns if x not in still and not (P.get(x) is not None and P.get(x).trait)}
            if not (norm(hb.trait) in ('core::convert::From', 'core::convert::TryFrom') and not unnamed_callers_possible(P, hb, leaving)):
                continue
        for p in list(P.bodies):
            if p == h or (hb is not None and hb.is_async and p == h + '::{closure#0}'):
                inl.removed.append(p)
                # promoteds of the helper stay (constants of inlined code refer to them through `phome`)
                P.bodies[p] = [x for x in P.bodies[p] if x.is_promoted]
                if not P.bodies[p]:
                    del P.bodies[p]
    # closure literals that were written into their only use (callbacks of adapters that were written out, closures handed
    # to an inlined generic helper): the copy in the caller is the code now, the stand-alone body is dead
    for p in sorted(inl.inlined_fns):
        if p in inl.kept or not re.search(r'\{closure#\d+\}$', p) or p not in P.bodies:
            continue
        if any(b_.kind == 'Closure' for b_ in P.bodies[p]):
            inl.removed.append(p)
            P.bodies[p] = [x for x in P.bodies[p] if x.is_promoted]
            if not P.bodies[p]:
                del P.bodies[p]
    return inl


def expand(P, body, helpers):
    """view of `body` with the named *known* crate-local helpers inlined as well (a rule that reasons about what a
    caller does through a thin wrapper asks for this, so that it sees the same code whether or not the wrapper is used)"""
    helpers = frozenset(helpers)
    cache = P.__dict__.setdefault('_expand_cache', {})
    key = (body.path, helpers)
    if key in cache:
        return cache[key]
    inl = Inliner(P, set())
    inl.is_helper = lambda path: path in helpers and P.get(path) is not None
    inl.stack.append(body.path)
    D = inl._process(copy.deepcopy(body.d), body.crate, body.path)
    nb = Body(D, body.crate)
    nb.prog = P
    nb.inlined = D.get('inlined', [])
    cache[key] = nb
    return nb
