#!/usr/bin/env python3
"""regenerate /verif/MANIFEST.json from the registered rule modules and meta.py"""
import json, os, sys
HERE = os.path.dirname(os.path.abspath(__file__))
sys.path.insert(0, HERE)
import core, meta, main
main.load_rules()
props = [json.loads(l) for l in open(os.path.join(core.VERIF, 'properties.jsonl'))]
checks = []
na = []
for p in props:
    pid = p['id']
    if pid in core.RULES and pid in meta.EXPLAIN and pid not in meta.NA_REASON:
        nrules = len(core.RULES[pid])
        checks.append({
            'property_id': pid,
            'quick_cmd': './check %s' % pid,
            'thorough_cmd': './check %s --thorough' % pid,
            'evidence_file': '/verif/evidence/%s.json' % pid,
            'replay_cmd_template': './check explain {path}',
            'engine': 'mirfacts+rules',
            'level_claimed': {
                'category': 'other',
                'text': "Static decision of the structural clauses only (%d rules, each a necessary condition of the property, evaluated on every path / call site of the type-checked program): %s" % (nrules, meta.explain(pid)),
                'design_ref': meta.DESIGN_REF[pid],
            },
            'level_note': "Not decided (value/schedule/timing level): %s. Trusted: %s; rustc's MIR construction and trait resolution; the /verif exporter and rule engine." % (meta.NOT_DECIDED.get(pid, ''), '; '.join(meta.TRUSTED.get(pid, []))),
            'technique': meta.TECHNIQUE.get(pid, meta.DEFAULT_TECHNIQUE),
        })
    else:
        na.append({'property_id': pid, 'reason': meta.NA_REASON.get(pid, 'check under construction in this round (static MIR rules per DESIGN.md section 4); not yet claimed')})
m = {
 'version': 1,
 'setup_cmd': './setup.sh',
 'hooks': {'guard': 'stepfunc_rodbus_verif',
           'enable': "none needed: the analysis reads /repo's unmodified sources through a rustc driver (RUSTC_WORKSPACE_WRAPPER under cargo +nightly check); no hook commits exist",
           'baseline_off_cmd': 'cd /repo && cargo test --workspace --no-fail-fast --offline',
           'source_commits': [], 'add_only': True},
 'engines': [
  {'name': 'mirfacts', 'path': 'engine/driver', 'serves_properties': [c['property_id'] for c in checks], 'kind_free_text': 'rustc_private driver exporting MIR (mir_promoted), ADTs, impls, constants, unsafe blocks of rodbus and rodbus-ffi as JSON facts'},
  {'name': 'rules', 'path': 'engine/rules', 'serves_properties': [c['property_id'] for c in checks], 'kind_free_text': 'Python rule engine: CFG, dominators, SCCs, exact value-flow, effect summaries, match tables; per-property rule modules'},
  {'name': 'fixtures', 'path': 'fixtures/posctl', 'serves_properties': [c['property_id'] for c in checks], 'kind_free_text': 'positive controls analysed on every run'},
  {'name': 'selftest', 'path': 'engine/variants', 'serves_properties': [c['property_id'] for c in checks], 'kind_free_text': 'seeded-variant battery (thorough tier): still-compiling edits that must make the named rule fire; benign twins that must stay silent'},
 ],
 'checks': checks,
 'notes': 'Technique family: static analysis. Every check decides structural clauses only; see DESIGN.md sections 1 and 6 for what is not decided.',
 'not_applicable': na,
}
json.dump(m, open(os.path.join(core.VERIF, 'MANIFEST.json'), 'w'), indent=1)
print('claimed', [c['property_id'] for c in checks])
