import re,sys,subprocess,os
# usage: confirm_batch.py G05 G06 ...   (maps /tmp/out-Enn/m1 -> Cnn-m3, m2 -> Cnn-m4)
for e in sys.argv[1:]:
    nn=e[1:]
    import os as _os
    _mk=_os.environ.get('MAPK','m7,m8').split(',')
    for m,k in (('m1',_mk[0]),('m2',_mk[1])):
        out='/tmp/out-%s/%s'%(e,m)
        if not os.path.exists(out+'/patch.diff'):
            print('==',out,'missing'); continue
        rd=open(out+'/README.md').read()
        mm=re.search(r"cargo test --offline -p (\S+)((?: --?[\w-]+(?: \w+)?)*?) ([\w:]+)`", rd) or re.search(r"cargo test --offline -p (\S+) ([^`\n]+)", rd)
        if not mm:
            print('==',out,'no command found'); continue
        crate=mm.group(1)
        rest=(mm.group(2)+' '+mm.group(3)).strip() if mm.lastindex==3 else mm.group(2).strip()
        print('==',out,'C%s-%s'%(nn,k),crate,'|',rest, flush=True)
        r=subprocess.run(['python3','/verif/engine/rules/confirm_seed.py',out,'C%s-%s'%(nn,k),'C%s'%nn,rest,'-p',crate],stdout=subprocess.PIPE,stderr=subprocess.STDOUT,text=True)
        lines=[l for l in r.stdout.splitlines() if l.startswith('confirmation') or l.startswith('status') or 'does not apply' in l or l.startswith('---')]
        print('\n'.join(lines[:8]), flush=True)
