"""Reference tables (oracles for P6 rules).  Sources: Modbus Application Protocol v1.1b3 (section numbers),
Modbus over serial line v1.02, and the repository's own naming discipline (file noted per table)."""

# MODBUS Application Protocol 1.1b3, section 6 (public function codes implemented by rodbus)
FUNCTION_CODES = {
    1: 'ReadCoils', 2: 'ReadDiscreteInputs', 3: 'ReadHoldingRegisters', 4: 'ReadInputRegisters',
    5: 'WriteSingleCoil', 6: 'WriteSingleRegister', 15: 'WriteMultipleCoils', 16: 'WriteMultipleRegisters',
}
REQUESTS = list(FUNCTION_CODES.values())
READS = REQUESTS[:4]
WRITES = REQUESTS[4:]

# spec 6.1-6.4, 6.11, 6.12 quantity limits
LIMITS = {
    'rodbus::constants::limits::MAX_READ_COILS_COUNT': 2000,          # 0x7D0
    'rodbus::constants::limits::MAX_READ_REGISTERS_COUNT': 125,       # 0x7D
    'rodbus::constants::limits::MAX_WRITE_COILS_COUNT': 1968,         # 0x7B0
    'rodbus::constants::limits::MAX_WRITE_REGISTERS_COUNT': 123,      # 0x7B
}

# spec section 7 exception codes
EXCEPTIONS = {
    1: 'IllegalFunction', 2: 'IllegalDataAddress', 3: 'IllegalDataValue', 4: 'ServerDeviceFailure',
    5: 'Acknowledge', 6: 'ServerDeviceBusy', 8: 'MemoryParityError', 10: 'GatewayPathUnavailable',
    11: 'GatewayTargetDeviceFailedToRespond',
}

# request variant -> RequestHandler method   (rodbus/src/server/handler.rs, request.rs)
HANDLER_METHOD = {
    'ReadCoils': 'read_coil', 'ReadDiscreteInputs': 'read_discrete_input',
    'ReadHoldingRegisters': 'read_holding_register', 'ReadInputRegisters': 'read_input_register',
    'WriteSingleCoil': 'write_single_coil', 'WriteSingleRegister': 'write_single_register',
    'WriteMultipleCoils': 'write_multiple_coils', 'WriteMultipleRegisters': 'write_multiple_registers',
}
# request variant -> AuthorizationHandler method and the payload field handed to it (server/task.rs)
AUTH_METHOD = {
    'ReadCoils': ('read_coils', 'inner'), 'ReadDiscreteInputs': ('read_discrete_inputs', 'inner'),
    'ReadHoldingRegisters': ('read_holding_registers', 'inner'), 'ReadInputRegisters': ('read_input_registers', 'inner'),
    'WriteSingleCoil': ('write_single_coil', 'index'), 'WriteSingleRegister': ('write_single_register', 'index'),
    'WriteMultipleCoils': ('write_multiple_coils', 'range'), 'WriteMultipleRegisters': ('write_multiple_registers', 'range'),
}

# request variant -> decoder used by Request::parse (server/request.rs)
REQ_DECODER = {
    'ReadCoils': 'rodbus::types::AddressRange::of_read_bits',
    'ReadDiscreteInputs': 'rodbus::types::AddressRange::of_read_bits',
    'ReadHoldingRegisters': 'rodbus::types::AddressRange::of_read_registers',
    'ReadInputRegisters': 'rodbus::types::AddressRange::of_read_registers',
    'WriteSingleCoil': '<rodbus::types::Indexed<bool> as rodbus::common::traits::Parse>::parse',
    'WriteSingleRegister': '<rodbus::types::Indexed<u16> as rodbus::common::traits::Parse>::parse',
    'WriteMultipleCoils': 'rodbus::types::BitIterator::parse_all',
    'WriteMultipleRegisters': 'rodbus::types::RegisterIterator::parse_all',
}

RH = 'rodbus::server::handler::RequestHandler::'
AH = 'rodbus::server::handler::AuthorizationHandler::'
REQ = 'rodbus::server::request::Request'
BREQ = 'rodbus::server::request::BroadcastRequest'
FC = 'rodbus::common::function::FunctionCode'
EXC = 'rodbus::exception::ExceptionCode'
HANDLE_FRAME = 'rodbus::server::task::SessionTask::handle_frame'
