#!/usr/bin/env python3
"""re-run every claimed property's rules against each kept seeded defect (/verif/seeded/*/patch.diff applied to a scratch
copy of /repo) and refresh meta.json `detected_by` / `status`.   usage: rescan_seeds.py [id-substring]"""
import sys, os, json, glob, subprocess, shutil
HERE = os.path.dirname(os.path.abspath(__file__))
sys.path.insert(0, HERE)
import extract, facts, core, selftest
import main as M


def evaluate(meta, mf, files, FX):
    P = facts.load(files)
    fired = {}
    for p in sorted(core.RULES):
        c = core.Ctx(p, P, 'quick', 'default', FX)
        c.run()
        ks = [o.key for o in c.failed()]
        if ks:
            fired[p] = ks
    prop = meta['property']
    meta['detected_by'] = fired
    meta['also_detected_by'] = [p for p in fired if p != prop]
    meta['expect'] = {p: (os.path.commonprefix(ks).rsplit('/', 1)[0] if len(ks) > 1 else ks[0]) for p, ks in fired.items()}
    meta['status'] = 'caught' if prop in fired else ('caught-by-other-property' if fired else 'MISSED')
    json.dump(meta, open(mf, 'w'), indent=1)
    return (meta['id'], meta['status'], {p: ks[:3] for p, ks in fired.items()})


def main(argv):
    sub = argv[0] if argv else ''
    M.load_rules()
    d, repo = selftest.make_scratch()
    FX = facts.load([extract.extract_fixture()])
    state = selftest._repo_state()
    rows = []
    try:
        for sd in sorted(glob.glob(os.path.join(core.VERIF, 'seeded', '*'))):
            if sub not in os.path.basename(sd):
                continue
            mf = os.path.join(sd, 'meta.json')
            if not os.path.exists(mf):
                continue
            meta = json.load(open(mf))
            vk = os.path.join(selftest.VCACHE, selftest._variant_key({'kind': 'diff', 'patch': os.path.join(sd, 'patch.diff')}, state))
            cached = sorted(glob.glob(os.path.join(vk, '*.jsonl')))
            if cached:
                rows.append(evaluate(meta, mf, cached, FX))
                continue
            subprocess.check_call(['rsync', '-a', '--delete', '--exclude', '/target', '--exclude', '/.git', extract.REPO + '/', repo + '/'])
            r = subprocess.run(['patch', '-p1', '--no-backup-if-mismatch', '-i', os.path.join(sd, 'patch.diff')], cwd=repo, stdout=subprocess.PIPE, stderr=subprocess.STDOUT, text=True)
            if r.returncode != 0:
                meta['status'] = 'patch-no-longer-applies'
                json.dump(meta, open(mf, 'w'), indent=1)
                rows.append((meta['id'], meta['status'], ''))
                continue
            try:
                files, _ = extract.extract('default', repo=repo)
            except extract.NoVerdict as e:
                rows.append((meta['id'], 'no-compile', str(e)[-200:]))
                continue
            os.makedirs(vk, exist_ok=True)
            files = [shutil.copy2(f, vk) for f in files]
            rows.append(evaluate(meta, mf, files, FX))
    finally:
        shutil.rmtree(d, ignore_errors=True)
    for r in rows:
        print("%-10s %-26s %s" % r)
    return 0


if __name__ == '__main__':
    sys.exit(main(sys.argv[1:]))
