"""E2 core: fact loader, CFG, dominators, reachability, SCCs, dependence, edge facts.

Nothing here knows about rodbus; rodbus-specific anchors live in the rule modules / tables.py.
"""
import json, collections, re, sys

sys.setrecursionlimit(10000)


class AnchorLost(Exception):
    """an item a rule is anchored at does not exist (renamed / removed): fail closed"""
    pass


_norm_cache = {}


def _match_angle(s, i):
    """s[i] == '<': index of the matching '>' (ignoring '->')"""
    depth = 0
    n = len(s)
    while i < n:
        c = s[i]
        if c == '<':
            depth += 1
        elif c == '>' and not (i > 0 and s[i - 1] == '-'):
            depth -= 1
            if depth == 0:
                return i
        i += 1
    return -1


def _split_for(inner):
    """split `Trait for Type` at depth 0"""
    depth = 0
    i = 0
    n = len(inner)
    while i < n:
        c = inner[i]
        if c == '<':
            depth += 1
        elif c == '>' and not (i > 0 and inner[i - 1] == '-'):
            depth -= 1
        elif depth == 0 and inner.startswith(' for ', i):
            return inner[:i], inner[i + 5:]
        i += 1
    return None, inner


def norm(path):
    """canonical def path: generic argument lists `::<...>` stripped; impl blocks written module-independently:
       `m::<impl Trait for Type>::f` -> `<Type as Trait>::f`,  `m::<impl Type>::f` -> `Type::f`"""
    r = _norm_cache.get(path)
    if r is not None:
        return r
    orig = path
    k = path.find('::<impl ')
    if k >= 0:
        j = _match_angle(path, k + 2)
        if j > 0:
            inner = path[k + 8:j]
            rest = path[j + 1:]
            tr, ty = _split_for(inner)
            if tr is None:
                path = norm(ty) + rest
            else:
                path = '<' + ty + ' as ' + tr + '>' + rest
    out = []
    depth = 0
    i = 0
    n = len(path)
    while i < n:
        if depth == 0 and path.startswith('::<', i) and not path.startswith('::<impl ', i):
            depth = 1
            i += 3
            continue
        if depth > 0:
            c = path[i]
            if c == '<':
                depth += 1
            elif c == '>':
                if not (i > 0 and path[i - 1] == '-'):
                    depth -= 1
            i += 1
            continue
        out.append(path[i])
        i += 1
    s = ''.join(out)
    s = re.sub(r"<'[a-z_]+>", "", s)
    s = re.sub(r"<'[a-z_]+, ", "<", s)
    _norm_cache[orig] = s
    return s


# ----------------------------------------------------------------------------------------------

class CallSite:
    __slots__ = ('body', 'block', 't', 'callee', 'declared', 'resolved', 'trait', 'args', 'dest', 'line',
                 'exp', 'mac', 'indirect', 'gargs')

    def __init__(self, body, block, t):
        self.body = body
        self.block = block
        self.t = t
        self.declared = norm(t['callee']) if 'callee' in t else None
        self.resolved = norm(t['resolved']) if 'resolved' in t else None
        self.callee = self.resolved or self.declared
        self.trait = t.get('trait')
        self.args = t['args']
        self.dest = t['dest']
        sp = t.get('span', {})
        self.line = sp.get('line')
        self.exp = sp.get('exp', False)
        self.mac = sp.get('mac', '')
        self.indirect = t.get('indirect')
        self.gargs = t.get('gargs', '')

    @property
    def node(self):
        return ('b', self.block)

    @property
    def ret(self):
        """virtual node: the call has returned normally"""
        return ('r', self.block)

    def names(self):
        return {x for x in (self.declared, self.resolved) if x}

    def is_(self, *names):
        ns = self.names()
        return any(n in ns for n in names)

    def loc(self):
        return "%s:%s" % (self.body.file, self.line)

    def __repr__(self):
        return "<call %s @%s bb%d>" % (self.callee or 'indirect', self.loc(), self.block)


def op_local(o):
    if o and o.get('k') in ('copy', 'move'):
        return o['pl']['l']
    return None


def place_key(pl):
    return (pl['l'], tuple(pl['p']))


def proj_fields(pl):
    """names of the fields along a place projection"""
    out = []
    for e in pl['p']:
        if e.startswith('field:'):
            out.append(e.split(':', 2)[2] or e.split(':', 2)[1])
        elif e.startswith('downcast:'):
            out.append('as ' + e.split(':', 2)[2])
        elif e == 'deref':
            out.append('*')
        else:
            out.append(e)
    return out


class Body:
    def __init__(self, d, crate):
        self.d = d
        self.crate = crate
        self.raw = d['path']
        self.path = norm(d['path'])
        self.kind = d['kind']
        self.parent = norm(d.get('parent', ''))
        self.trait = d.get('trait', '')
        self.auto_derived = d.get('auto_derived', False)
        self.self_ty = d.get('self_ty', '')
        self.file = d['span']['file']
        self.line = d['span']['line']
        self.from_macro = d['span'].get('exp', False)
        self.mac = d['span'].get('mac', '')
        self.argc = d['argc']
        self.locals = d['locals']
        self.names = d.get('names', {})
        self.blocks = d['blocks']
        self.is_promoted = d.get('promoted', False)
        self.sig_in = d.get('sig_in')
        self.sig_out = d.get('sig_out')
        self.vis = d.get('vis')
        self.is_async = d.get('asyncness', False)
        self.upvars = d.get('upvars', [])
        self.user_locals = set(d.get('user_locals', []))
        self._built = False

    # ---- lazy CFG ----
    def _ensure(self):
        if not self._built:
            self._build()

    def succs_raw(self, i):
        t = self.blocks[i]['term']
        k = t['t']
        if k == 'switch':
            return [b for _, b in t['vals']] + [t['otherwise']]
        if k in ('goto', 'drop', 'call', 'assert', 'yield', 'falseedge', 'falseunwind'):
            return [int(x) for x in t.get('succ', []) if x != '']
        return []

    def _build(self):
        self._built = True
        self.succ = collections.defaultdict(list)
        self.pred = collections.defaultdict(list)
        self.callsites = []
        self.cs_at = {}
        for i, b in enumerate(self.blocks):
            if b['cleanup']:
                continue
            t = b['term']
            if t['t'] == 'switch':
                for v, tb in t['vals']:
                    e = ('e', i, str(v))
                    self._edge(('b', i), e)
                    self._edge(e, ('b', tb))
                e = ('e', i, 'otherwise')
                self._edge(('b', i), e)
                self._edge(e, ('b', t['otherwise']))
            elif t['t'] == 'call':
                cs = CallSite(self, i, t)
                self.callsites.append(cs)
                self.cs_at[i] = cs
                for s in self.succs_raw(i):
                    self._edge(('b', i), ('r', i))
                    self._edge(('r', i), ('b', s))
            else:
                for s in self.succs_raw(i):
                    self._edge(('b', i), ('b', s))
        self.entry = ('b', 0)
        self._dom()
        self._defs = None
        self._dep = None
        self._scc = None
        self._pdom = None

    def _edge(self, a, b):
        self.succ[a].append(b)
        self.pred[b].append(a)

    def _rpo(self, entry, succ):
        order = []
        seen = {entry}
        stack = [(entry, iter(succ[entry]))]
        while stack:
            node, it = stack[-1]
            for s in it:
                if s not in seen:
                    seen.add(s)
                    stack.append((s, iter(succ[s])))
                    break
            else:
                order.append(node)
                stack.pop()
        return list(reversed(order)), seen

    def _idoms(self, entry, succ, pred):
        rpo, seen = self._rpo(entry, succ)
        idx = {n: i for i, n in enumerate(rpo)}
        idom = {entry: entry}
        changed = True
        while changed:
            changed = False
            for n in rpo[1:]:
                ps = [p for p in pred[n] if p in idom]
                if not ps:
                    continue
                new = ps[0]
                for p in ps[1:]:
                    a, b = p, new
                    while a != b:
                        while idx[a] > idx[b]:
                            a = idom[a]
                        while idx[b] > idx[a]:
                            b = idom[b]
                    new = a
                if idom.get(n) != new:
                    idom[n] = new
                    changed = True
        return idom, seen

    def _dom(self):
        self.idom, self.reachable = self._idoms(self.entry, self.succ, self.pred)

    def dominates(self, a, b):
        """every path entry -> b passes through a (a == b counts)"""
        self._ensure()
        if b not in self.idom:
            return False
        while True:
            if a == b:
                return True
            if b == self.entry:
                return False
            b = self.idom[b]

    # post-dominators: virtual exit joining all return blocks
    def _ensure_pdom(self):
        self._ensure()
        if self._pdom is not None:
            return
        EXIT = ('x',)
        succ = collections.defaultdict(list)
        pred = collections.defaultdict(list)
        for a, ss in self.succ.items():
            for b in ss:
                succ[b].append(a)
                pred[a].append(b)
        for i, b in enumerate(self.blocks):
            if not b['cleanup'] and b['term']['t'] == 'return' and ('b', i) in self.reachable:
                succ[EXIT].append(('b', i))
                pred[('b', i)].append(EXIT)
        self._pdom, _ = self._idoms(EXIT, succ, pred)
        self._exit = EXIT

    def postdominates(self, a, b):
        """every path b -> return passes through a"""
        self._ensure_pdom()
        if b not in self._pdom:
            return False
        while True:
            if a == b:
                return True
            if b == self._exit:
                return False
            b = self._pdom[b]

    def reach_set(self, start, avoid=()):
        """all nodes reachable from `start` (exclusive unless on a cycle), not passing through `avoid`"""
        self._ensure()
        avoid = set(avoid)
        seen = set()
        st = [start]
        while st:
            n = st.pop()
            for s in self.succ[n]:
                if s in avoid or s in seen:
                    continue
                seen.add(s)
                st.append(s)
        return seen

    def reaches(self, a, b, avoid=()):
        return b in self.reach_set(a, avoid)

    # ---- SCCs ----
    def _ensure_scc(self):
        self._ensure()
        if self._scc is not None:
            return
        index = {}
        low = {}
        onst = set()
        st = []
        comp = {}
        comps = []
        counter = [0]

        def strong(v):
            work = [(v, iter(self.succ[v]))]
            index[v] = low[v] = counter[0]
            counter[0] += 1
            st.append(v)
            onst.add(v)
            while work:
                node, it = work[-1]
                adv = False
                for w in it:
                    if w not in index:
                        index[w] = low[w] = counter[0]
                        counter[0] += 1
                        st.append(w)
                        onst.add(w)
                        work.append((w, iter(self.succ[w])))
                        adv = True
                        break
                    elif w in onst:
                        low[node] = min(low[node], index[w])
                if adv:
                    continue
                work.pop()
                if work:
                    p = work[-1][0]
                    low[p] = min(low[p], low[node])
                if low[node] == index[node]:
                    c = []
                    while True:
                        w = st.pop()
                        onst.discard(w)
                        c.append(w)
                        if w == node:
                            break
                    comps.append(c)
                    for w in c:
                        comp[w] = len(comps) - 1

        for n in list(self.reachable):
            if n not in index:
                strong(n)
        self._scc = comp
        self._sccs = comps

    def in_cycle(self, node):
        self._ensure_scc()
        c = self._scc.get(node)
        if c is None:
            return False
        members = self._sccs[c]
        if len(members) > 1:
            return True
        return node in self.succ[node]

    def cycle_of(self, node):
        """the SCC (set of nodes) containing node, or None"""
        if not self.in_cycle(node):
            return None
        return set(self._sccs[self._scc[node]])

    def cycles(self):
        self._ensure_scc()
        out = []
        for c in self._sccs:
            if len(c) > 1 or c[0] in self.succ[c[0]]:
                out.append(set(c))
        return out

    # ---- statements / calls ----
    def calls(self, *names, pred=None):
        self._ensure()
        out = []
        for cs in self.callsites:
            if ('b', cs.block) not in self.reachable:
                continue
            if names and not cs.is_(*names):
                continue
            if pred and not pred(cs):
                continue
            out.append(cs)
        return out

    def assigns(self):
        self._ensure()
        for i, b in enumerate(self.blocks):
            if b['cleanup'] or ('b', i) not in self.reachable:
                continue
            for s in b['stmts']:
                if s['s'] == 'assign':
                    yield i, s

    def aggregates(self, adt=None, variant=None):
        for i, s in self.assigns():
            rv = s['rv']
            if rv['r'] == 'agg' and 'adt' in rv:
                if adt and norm(rv['adt']) != adt:
                    continue
                if variant and rv['variant'] != variant:
                    continue
                yield i, s

    def return_blocks(self):
        self._ensure()
        return [i for i, b in enumerate(self.blocks)
                if not b['cleanup'] and b['term']['t'] == 'return' and ('b', i) in self.reachable]

    def yields(self):
        self._ensure()
        return [i for i, b in enumerate(self.blocks)
                if not b['cleanup'] and b['term']['t'] == 'yield' and ('b', i) in self.reachable]

    # ---- definitions ----
    def defs(self):
        """local -> list of ('assign', block, stmt) | ('call', block, callsite)"""
        self._ensure()
        if self._defs is None:
            d = collections.defaultdict(list)
            for i, s in self.assigns():
                d[s['pl']['l']].append(('assign', i, s))
            for cs in self.calls():
                d[cs.dest['l']].append(('call', cs.block, cs))
            self._defs = d
        return self._defs

    def single_def(self, local):
        ds = [x for x in self.defs().get(local, []) if not (x[0] == 'assign' and x[2]['pl']['p'])]
        whole = [x for x in self.defs().get(local, [])]
        if len(whole) == 1:
            return whole[0]
        return None

    def stable(self, l):
        """user local with exactly one whole definition, never partially assigned, never `&mut`-borrowed
        directly (so its value at every use is the value of that definition)"""
        self._ensure()
        if not hasattr(self, '_stable'):
            self._stable = {}
            mutb = set()
            for i, s in self.assigns():
                rv = s['rv']
                if rv['r'] in ('ref', 'rawptr') and rv.get('mut', True):
                    pl = rv['pl']
                    if 'deref' not in pl['p']:
                        mutb.add(pl['l'])
            self._mutb = mutb
        if l in self._stable:
            return self._stable[l]
        ds = self.defs().get(l, [])
        # writes *through* a pointer local (`(*l).f = ..`) do not redefine the local itself
        ds = [d for d in ds if not ((d[0] == 'assign' and d[2]['pl']['p'] and d[2]['pl']['p'][0] == 'deref') or
                                    (d[0] == 'call' and d[2].dest['p'] and d[2].dest['p'][0] == 'deref'))]
        ok = len(ds) == 1 and not (ds[0][0] == 'assign' and ds[0][2]['pl']['p']) and \
            not (ds[0][0] == 'call' and ds[0][2].dest['p']) and \
            (l not in self._mutb or any(n.startswith('__awaitee') for n in [self.name_of(l) or '']))
        self._stable[l] = ok
        return ok

    def user_locals_named(self):
        """locals that are whole user variables with a source name"""
        if not hasattr(self, '_uln'):
            self._uln = {pl['l'] for n, pl in self.names.items() if not pl['p']} & set(self.user_locals)
        return self._uln

    def name_of(self, local):
        for n, pl in self.names.items():
            if pl['l'] == local and not pl['p']:
                return n
        return None

    def place_str(self, pl):
        base = self.name_of(pl['l'])
        # upvar of closure / coroutine: _1.field:i
        s = base or ('_%d' % pl['l'])
        full = None
        for n, p in self.names.items():
            if p['l'] == pl['l'] and p['p'] and p['p'] == pl['p'][:len(p['p'])]:
                if full is None or len(p['p']) > len(full[1]['p']):
                    full = (n, p)
        if full:
            rest = pl['p'][len(full[1]['p']):]
            s = full[0]
            fl = proj_fields({'p': rest})
        else:
            fl = proj_fields(pl)
        for f in fl:
            if f == '*':
                s = '*' + s
            else:
                s += '.' + f
        return s

    def op_str(self, o):
        if o is None:
            return '?'
        if o['k'] in ('copy', 'move'):
            return self.place_str(o['pl'])
        if o['k'] == 'const':
            return 'const ' + str(o.get('def') or o.get('fn') or o.get('repr') or o.get('val') or o.get('ty'))
        return '?'

    # ---- origin tracing (exact, through single-definition temporaries) ----
    def origin(self, o, depth=0):
        """Trace an operand back through moves/copies/refs/derefs/casts of compiler temporaries.
        Returns a tuple describing the root:
          ('const', def|val, ty)
          ('place', local, projection-tuple)       user variable / parameter / upvar (possibly projected)
          ('call', CallSite)
          ('bin', op, a, b) / ('un', op, a) / ('agg', rv) / ('discr', place) / ('cast', inner, ty)
          ('multi', local)                          several definitions
        """
        if o is None or depth > 40:
            return ('unknown',)
        if o['k'] == 'const':
            return ('const', o.get('def') or o.get('val') or o.get('fn') or o.get('repr'), o.get('ty'), o)
        pl = o['pl']
        return self.origin_place(pl, depth)

    _SUCC = ('Ok', 'Some', 'Continue', 'Ready')
    _FAIL = ('Err', 'None', 'Break')

    def _def_class(self, d, hints='first'):
        """variant (class) of the enum value a definition produces, where that is evident.  `vclass` hints are left
        by jump threading in the inliner: the class of the (possibly wrapped) result the copy was made for.
        hints='first': the hint wins (selection by the class of the tracked result);  hints='last': the definition's own
        variant wins, the hint is used only for definitions that have none (selection by a downcast)"""
        own = None
        hint = None
        if d[0] == 'assign':
            s = d[2]
            hint = s.get('vclass')
            rv = s['rv']
            if rv['r'] == 'agg' and 'adt' in rv:
                own = rv['variant']
        else:
            cs = d[2]
            hint = cs.t.get('vclass')
            if cs.is_('core::ops::try_trait::FromResidual::from_residual'):
                own = 'failure'
        if hints == 'first':
            return hint or own
        return own or hint

    def _class_matches(self, cls, want):
        if cls == want:
            return True
        if cls == 'success':
            return want in self._SUCC
        if cls == 'failure':
            return want in self._FAIL
        if want == 'success':
            return cls in self._SUCC
        if want == 'failure':
            return cls in self._FAIL
        return False

    def select_def(self, whole, want, hints='first'):
        """several definitions reach a read that presupposes variant `want` (a downcast, the Continue arm of `?`):
        if the variant every definition produces is evident, only the matching ones can be the source"""
        cls = [self._def_class(d, hints) for d in whole]
        # a definition whose variant is evident and different cannot be the source; one whose variant is not evident may
        sel = [d for d, c in zip(whole, cls) if c is None or self._class_matches(c, want)]
        return sel if sel else whole

    def origin_place(self, pl, depth=0, want=None, tid=None):
        l = pl['l']
        proj = tuple(pl['p'])
        if depth > 40:
            return ('unknown',)
        if l <= self.argc and l != 0:
            return ('place', l, proj)
        ds = self.defs().get(l, [])
        whole = [x for x in ds if x[0] == 'call' or not x[2]['pl']['p']]
        if len(whole) > 1 and tid is not None:
            # inside a private copy made by jump threading the reaching definition is the one of the same copy
            same = [x for x in whole if (x[2].t.get('tid') if x[0] == 'call' else x[2].get('tid')) == tid]
            if len(same) == 1:
                whole = same
        if len(whole) > 1 and proj and proj[0].startswith('downcast:'):
            whole = self.select_def(whole, proj[0].split(':', 2)[2], hints='last')
        if len(whole) > 1 and want:
            whole = self.select_def(whole, want)
        if l in self.user_locals and not self.stable(l):
            # a user variable that is borrowed mutably or partially assigned is opaque; one that merely has several
            # whole definitions may still be resolved by the variant the read presupposes
            n_all = len([x for x in ds if x[0] == 'call' or not x[2]['pl']['p']])
            opaque = l in self._mutb or any(x[0] == 'assign' and x[2]['pl']['p'] and x[2]['pl']['p'][0] != 'deref' for x in ds)
            if n_all > 1 and not opaque and len(whole) > 1:
                return ('multi', l, proj)
            if n_all <= 1 or len(whole) != 1 or opaque:
                return ('place', l, proj)
        if len(whole) != 1:
            if not whole:
                return ('place', l, proj)
            return ('multi', l, proj)
        return self.origin_from_def(whole[0], proj, depth, want, tid)

    def whole_defs(self, l):
        return [x for x in self.defs().get(l, []) if x[0] == 'call' or not x[2]['pl']['p']]

    def origin_from_def(self, d, proj=(), depth=0, want=None, tid=None):
        """origin of the value one particular definition gives to its local (projected by proj)"""
        kind, blk, x = d
        proj = tuple(proj)
        if kind == 'call':
            return ('call', x, proj)
        rv = x['rv']
        r = rv['r']
        tid = x.get('tid') or tid
        if r == 'use':
            inner = rv['a'][0]
            if inner['k'] == 'const':
                return self.origin(inner, depth + 1)
            ipl = {'l': inner['pl']['l'], 'p': list(inner['pl']['p']) + list(proj)}
            return self.origin_place(ipl, depth + 1, want=x.get('vclass') or want, tid=tid)
        if r in ('ref', 'copyderef', 'rawptr'):
            ipl = rv['pl']
            p2 = list(proj)
            if r == 'ref' and p2 and p2[0] == 'deref':
                p2 = p2[1:]
                return self.origin_place({'l': ipl['l'], 'p': list(ipl['p']) + p2}, depth + 1, want=want, tid=tid)
            if r == 'ref':
                return ('ref', self.origin_place(ipl, depth + 1, want=want, tid=tid), proj)
            return self.origin_place({'l': ipl['l'], 'p': list(ipl['p']) + p2}, depth + 1, want=want, tid=tid)
        if r == 'cast':
            return ('cast', self.origin(rv['a'][0], depth + 1), rv['ty'], proj, rv.get('kind', ''))
        if r == 'bin':
            return ('bin', rv['op'], rv['a'][0], rv['a'][1], proj, blk)
        if r == 'un':
            return ('un', rv['op'], rv['a'][0], proj)
        if r == 'agg':
            return ('agg', rv, proj, blk)
        if r == 'discr':
            return ('discr', rv['pl'], rv.get('of'), proj)
        return ('other', rv, proj)

    def origin_str(self, org):
        k = org[0]
        if k == 'const':
            return 'const %s' % (org[1],)
        if k == 'place':
            return self.place_str({'l': org[1], 'p': list(org[2])})
        if k == 'call':
            return 'result of %s' % org[1].callee
        if k == 'ref':
            return '&' + self.origin_str(org[1])
        if k == 'cast':
            return '(%s as %s)' % (self.origin_str(org[1]), org[2])
        if k == 'bin':
            return '%s(%s, %s)' % (org[1], self.op_str(org[2]), self.op_str(org[3]))
        if k == 'agg':
            rv = org[1]
            return 'agg %s::%s' % (rv.get('adt', '?'), rv.get('variant', ''))
        return str(k)

    # ---- flow-insensitive dependence ----
    def dep(self):
        """local -> set of items it may derive from:
           ('l', local) | ('c', const-id) | ('agg', 'Adt::Variant') | ('call', callee, block) | ('field', name)"""
        self._ensure()
        if self._dep is not None:
            return self._dep
        dep = collections.defaultdict(set)

        def add_op(d, a):
            if a['k'] in ('copy', 'move'):
                dep[d].add(('l', a['pl']['l']))
            elif a['k'] == 'const':
                dep[d].add(('c', a.get('def') or a.get('fn') or a.get('val') or a.get('repr') or a['ty']))

        for i, s in self.assigns():
            d = s['pl']['l']
            rv = s['rv']
            for a in rv.get('a', []):
                add_op(d, a)
            if 'pl' in rv:
                dep[d].add(('l', rv['pl']['l']))
                # a `&mut x` taken into d: writes through d may flow back into x (handled by callers below)
            if rv['r'] == 'agg':
                if 'adt' in rv:
                    dep[d].add(('agg', norm(rv['adt']) + '::' + rv['variant']))
                if 'closure' in rv:
                    dep[d].add(('closure', norm(rv['closure'])))
                if 'coroutine' in rv:
                    dep[d].add(('closure', norm(rv['coroutine'])))
        for cs in self.calls():
            d = cs.dest['l']
            dep[d].add(('call', cs.callee or 'indirect', cs.block))
            for a in cs.args:
                add_op(d, a)
            if cs.indirect:
                add_op(d, cs.indirect)
        self._dep = dep
        return dep

    def closure_of(self, local):
        """transitive dependence closure of a local"""
        dep = self.dep()
        seen = set()
        st = [('l', local)]
        while st:
            x = st.pop()
            if x in seen:
                continue
            seen.add(x)
            if x[0] == 'l':
                for y in dep.get(x[1], ()):
                    st.append(y)
        return seen

    def derives_from_local(self, o, local):
        l = op_local(o)
        if l is None:
            return False
        return ('l', local) in self.closure_of(l)

    def op_closure(self, o):
        l = op_local(o)
        if l is None:
            if o and o['k'] == 'const':
                return {('c', o.get('def') or o.get('fn') or o.get('val') or o.get('repr') or o['ty'])}
            return set()
        return self.closure_of(l)

    # ---- switch edges ----
    def switch_info(self, i):
        """describe the switch terminating block i:
           {'kind': 'variant', 'place': pl, 'adt': path, 'labels': {val: name}, 'rest': [names not listed]}
           {'kind': 'bool', 'cond': cond}      cond = ('cmp', op, a, b) | ('call', CallSite) | ('place', ..) with 'neg'
           {'kind': 'int', 'of': origin}
        """
        self._ensure()
        t = self.blocks[i]['term']
        assert t['t'] == 'switch'
        org = self.origin(t['discr'])
        if org[0] == 'multi' and t['discr'].get('k') in ('copy', 'move') and not t['discr']['pl']['p']:
            # the tested temporary also has definitions in private copies made by jump threading: the one that counts
            # is the one in the switch's own block
            own = [s for s in self.blocks[i]['stmts'] if s['s'] == 'assign' and s['pl']['l'] == t['discr']['pl']['l'] and not s['pl']['p']]
            if own:
                org = self.origin_from_def(('assign', i, own[-1]))
        dty = t.get('dty', '')
        if org[0] == 'discr':
            of = org[2] or {}
            if 'adt' in of:
                labels = {str(v): n for n, v in of['variants']}
                listed = [str(v) for v, _ in t['vals']]
                rest = [n for n, v in of['variants'] if str(v) not in listed]
                return {'kind': 'variant', 'place': org[1], 'adt': norm(of['adt']), 'labels': labels, 'rest': rest,
                        'listed': [labels.get(v, v) for v in listed]}
            return {'kind': 'int', 'of': org}
        if dty == 'bool':
            neg = False
            cur = org
            guard = 0
            while cur[0] == 'un' and cur[1] == 'Not' and guard < 8:
                neg = not neg
                cur = self.origin(cur[2])
                guard += 1
            return {'kind': 'bool', 'cond': cur, 'neg': neg}
        return {'kind': 'int', 'of': org}

    def edge_variant(self, e):
        """for a switch edge node ('e', block, val): the variant name selected (or None)"""
        _, i, v = e
        info = self.switch_info(i)
        if info['kind'] != 'variant':
            return None
        if v == 'otherwise':
            if len(info['rest']) == 1:
                return info['rest'][0]
            return None
        return info['labels'].get(v)

    def edge_bool(self, e):
        """for a bool switch edge: True/False meaning of the *source-level condition* on that edge"""
        _, i, v = e
        info = self.switch_info(i)
        if info['kind'] != 'bool':
            return None
        t = self.blocks[i]['term']
        # vals: [[0, bbF]] otherwise bbT
        if v == 'otherwise':
            listed = [str(x) for x, _ in t['vals']]
            val = True if listed == ['0'] else (False if listed == ['1'] else None)
        else:
            val = (v != '0')
        if val is None:
            return None
        return (not val) if info['neg'] else val

    def switches(self):
        self._ensure()
        return [i for i, b in enumerate(self.blocks)
                if not b['cleanup'] and b['term']['t'] == 'switch' and ('b', i) in self.reachable]

    def variant_edges(self, adt=None, place_pred=None):
        """all switch edges on an enum discriminant: yields (edge_node, variant_name, info)"""
        out = []
        for i in self.switches():
            info = self.switch_info(i)
            if info['kind'] != 'variant':
                continue
            if adt and info['adt'] != adt:
                continue
            if place_pred and not place_pred(info['place']):
                continue
            t = self.blocks[i]['term']
            for v, _ in t['vals']:
                out.append((('e', i, str(v)), info['labels'].get(str(v)), info))
            out.append((('e', i, 'otherwise'), info['rest'][0] if len(info['rest']) == 1 else None, info))
        return out

    # ---- pretty printer (diagnostics) ----
    def pretty(self, blocks=None):
        self._ensure()
        lines = ["fn %s  (%s:%d)" % (self.path, self.file, self.line)]
        for i, b in enumerate(self.blocks):
            if b['cleanup'] or ('b', i) not in self.reachable:
                continue
            if blocks is not None and i not in blocks:
                continue
            lines.append(" bb%d:" % i)
            for s in b['stmts']:
                if s['s'] == 'assign':
                    lines.append("   %s = %s   // L%s" % (self.place_str(s['pl']), self.rv_str(s['rv']), s.get('line')))
            t = b['term']
            k = t['t']
            if k == 'call':
                cs = self.cs_at[i]
                lines.append("   %s = %s(%s) -> %s   // L%s%s" % (
                    self.place_str(t['dest']), cs.callee or ('indirect ' + self.op_str(cs.indirect)),
                    ', '.join(self.op_str(a) for a in t['args']), t['succ'], cs.line, ' [macro %s]' % cs.mac if cs.exp else ''))
            elif k == 'switch':
                lines.append("   switch %s %s else %s" % (self.op_str(t['discr']), t['vals'], t['otherwise']))
            elif k == 'assert':
                lines.append("   assert(%s == %s, %s) -> %s // L%s" % (self.op_str(t['cond']), t['expected'], t['kind'], t['succ'], t['span']['line']))
            else:
                lines.append("   %s %s" % (k, t.get('succ', '')))
        return '\n'.join(lines)

    def rv_str(self, rv):
        r = rv['r']
        if r == 'use':
            return self.op_str(rv['a'][0])
        if r == 'ref':
            return ('&mut ' if rv['mut'] else '&') + self.place_str(rv['pl'])
        if r == 'copyderef':
            return 'deref_copy ' + self.place_str(rv['pl'])
        if r == 'bin':
            return '%s(%s, %s)' % (rv['op'], self.op_str(rv['a'][0]), self.op_str(rv['a'][1]))
        if r == 'un':
            return '%s(%s)' % (rv['op'], self.op_str(rv['a'][0]))
        if r == 'cast':
            return '%s as %s [%s]' % (self.op_str(rv['a'][0]), rv['ty'], rv['kind'])
        if r == 'discr':
            return 'discriminant(%s)' % self.place_str(rv['pl'])
        if r == 'agg':
            if 'adt' in rv:
                return '%s::%s{%s}' % (rv['adt'], rv['variant'], ', '.join(
                    '%s: %s' % (f, self.op_str(a)) for f, a in zip(rv['fields'], rv['a'])))
            if 'closure' in rv:
                return 'closure %s [%s]' % (rv['closure'], ', '.join(self.op_str(a) for a in rv['a']))
            if 'coroutine' in rv:
                return 'coroutine %s [%s]' % (rv['coroutine'], ', '.join(self.op_str(a) for a in rv['a']))
            return '(%s)' % ', '.join(self.op_str(a) for a in rv['a'])
        return r


# ----------------------------------------------------------------------------------------------

class Program:
    def __init__(self):
        self.bodies = {}        # normalised path -> [Body] (several for shadowed closures / macro statics)
        self.adts = {}
        self.impls = []
        self.traits = {}
        self.consts = {}
        self.meta = {}
        self.unsafe = {}
        self.crates = []

    def load(self, f, alias=None):
        crate = None
        ended = False
        with open(f) as fh:
            for line in fh:
                if alias:
                    for new, old in alias:
                        if new in line:
                            line = re.sub(re.escape(new) + r'(?![A-Za-z0-9_])', old, line)
                d = json.loads(line)
                if d.get('meta'):
                    crate = d['crate']
                    self.meta[crate] = d
                    self.crates.append(crate)
                elif 'path' in d:
                    b = Body(d, crate)
                    b.prog = self
                    self.bodies.setdefault(b.path, []).append(b)
                elif 'const' in d:
                    self.consts[norm(d['const'])] = int(d['val'])
                elif 'adt' in d:
                    d['crate'] = crate
                    self.adts[norm(d['adt'])] = d
                elif 'impl' in d:
                    d['crate'] = crate
                    self.impls.append(d)
                elif 'trait_def' in d:
                    self.traits[norm(d['trait_def'])] = d
                elif 'unsafe_scan' in d:
                    self.unsafe[crate] = d
                elif 'stolen' in d:
                    raise AnchorLost("MIR of %s was stolen before extraction" % d['stolen'])
                elif d.get('end'):
                    ended = True
        if not ended:
            raise AnchorLost("fact file %s is truncated" % f)
        return self

    # ---- lookup ----
    def all_bodies(self, crate=None, promoted=False, statics=False):
        for p, bs in self.bodies.items():
            for b in bs:
                if crate and b.crate != crate:
                    continue
                if b.is_promoted and not promoted:
                    continue
                if b.kind == 'Static' and not statics:
                    continue
                yield b

    def get(self, path):
        bs = [b for b in self.bodies.get(path, []) if not b.is_promoted]
        return bs[0] if bs else None

    def fn(self, path):
        """logical function body: for an `async fn` the coroutine body where the code lives"""
        b = self.get(path)
        if b is None:
            raise AnchorLost("function %s not found" % path)
        if b.is_async:
            c = self.get(path + '::{closure#0}')
            if c is None:
                raise AnchorLost("coroutine body of async fn %s not found" % path)
            return c
        return b

    def outer(self, path):
        b = self.get(path)
        if b is None:
            raise AnchorLost("function %s not found" % path)
        return b

    def has(self, path):
        return self.get(path) is not None

    def logical_name(self, body):
        """name of the enclosing named fn for closures / coroutine bodies"""
        p = body.path
        p = re.sub(r'(::\{closure#\d+\})+$', '', p)
        p = re.sub(r'::\{promoted#\d+\}$', '', p)
        return p

    def nested(self, path):
        """all bodies lexically inside function `path` (itself, closures, coroutine bodies)"""
        out = []
        for p, bs in self.bodies.items():
            if p == path or p.startswith(path + '::{'):
                out.extend(b for b in bs if not b.is_promoted and b.kind != 'Static')
        return out

    def callers(self, *names, crate=None, pred=None):
        """all call sites (in non-promoted bodies) whose declared or resolved callee is in names"""
        out = []
        for b in self.all_bodies(crate=crate):
            for cs in b.calls(*names, pred=pred):
                out.append(cs)
        return out

    def constructors(self, adt, variant=None, include_derived=False, crate=None):
        out = []
        for b in self.all_bodies(crate=crate):
            if b.auto_derived and not include_derived:
                continue
            for i, s in b.aggregates(adt, variant):
                out.append((b, i, s))
        return out

    def adt(self, path):
        a = self.adts.get(path)
        if a is None:
            raise AnchorLost("type %s not found" % path)
        return a

    def const(self, path):
        if path not in self.consts:
            raise AnchorLost("constant %s not found" % path)
        return self.consts[path]

    def impls_of(self, trait):
        return [i for i in self.impls if norm(i['impl']) == trait]

    def find_impl(self, trait, self_ty, method, arg0=None):
        """method body of `impl trait for self_ty` wherever the impl block lives (module-independent)"""
        hits = []
        for b in self.all_bodies():
            if b.kind != 'AssocFn' or norm(b.trait) != trait:
                continue
            if norm(b.self_ty) != self_ty:
                continue
            if b.path.rsplit('::', 1)[-1] != method:
                continue
            if arg0 is not None and (not b.sig_in or norm(b.sig_in[0]) != arg0):
                continue
            hits.append(b)
        if len(hits) != 1:
            raise AnchorLost("impl %s for %s :: %s (arg %s): %d candidates" % (trait, self_ty, method, arg0, len(hits)))
        return hits[0]

    def promoted(self, body, idx, home=None):
        bs = [b for b in self.bodies.get(norm(home or body.raw) + '::{promoted#%d}' % idx, []) if b.is_promoted]
        return bs[0] if bs else None

    def promoted_of(self, body, o):
        """promoted body a constant operand refers to (constants of inlined code live with the function they came from)"""
        return self.promoted(body, o['promoted'], o.get('phome'))


def moved_types(files):
    """a type that was moved to another module of its crate keeps its old path for the rules: a type whose path is not
    in known_adts.txt, with exactly one known-but-absent type of the same name in the same crate (and no sibling
    candidate), is that type.  Returns [(new path, old path)]; applied textually while loading."""
    import os
    kf = os.path.join(os.path.dirname(os.path.abspath(__file__)), 'known_adts.txt')
    if not os.path.exists(kf):
        return []
    known = set(l.strip() for l in open(kf) if l.strip())
    present = set()
    for f in files:
        with open(f) as fh:
            for line in fh:
                if line.startswith('{"adt"'):
                    present.add(norm(json.loads(line)['adt']))
    if not any(a.split('::')[0] in ('rodbus', 'rodbus_ffi') for a in present):
        return []
    crates = {a.split('::')[0] for a in present}
    new = [a for a in present if a not in known and a.split('::')[0] in ('rodbus', 'rodbus_ffi') and '<' not in a]
    gone = [a for a in known if a not in present and a.split('::')[0] in crates]
    out = []
    for a in new:
        leaf = a.rsplit('::', 1)[-1]
        c = [g for g in gone if g.rsplit('::', 1)[-1] == leaf and g.split('::')[0] == a.split('::')[0]]
        sib = [x for x in new if x.rsplit('::', 1)[-1] == leaf]
        if len(c) == 1 and len(sib) == 1:
            out.append((a, c[0]))
    return out


def load(files, view=True):
    """load fact files; with view=True unknown helper functions are inlined into their callers (see inline.py)"""
    p = Program()
    alias = moved_types(files) if view else None
    for f in files:
        p.load(f, alias)
    p.moved_types = alias or []
    if view:
        import inline
        inline.apply(p)
    return p
