import sys, facts, time
t=time.time()
P=facts.load(['/verif/.cache/facts-main-default/rodbus.facts.jsonl','/verif/.cache/facts-main-default/rodbus_ffi.facts.jsonl'])
if __name__=='__main__':
    for a in sys.argv[1:]:
        hits=[p for p in P.bodies if a in p and '{promoted' not in p and '__CALLSITE' not in p]
        for h in hits:
            for b in P.bodies[h]:
                if b.is_promoted or b.kind=='Static': continue
                print(b.pretty()); print()
