"""Rule framework: obligations, floors, fail-closed anchors, evidence, known findings."""
import json, os, time, traceback, re
from facts import AnchorLost

VERIF = os.path.dirname(os.path.dirname(os.path.dirname(os.path.abspath(__file__))))

RULES = {}      # property -> [(rule_id, title, fn, tier, configs)]


def rule(prop, rid, title, tier='quick', needs=None):
    """register a rule. `needs`: feature-dependent anchors: a callable P -> bool telling whether the rule
    applies to this configuration (feature matrix)."""
    def deco(fn):
        RULES.setdefault(prop, []).append((rid, title, fn, tier, needs))
        return fn
    return deco


class Ob:
    __slots__ = ('rule', 'key', 'ok', 'what', 'detail', 'loc', 'examined')

    def __init__(self, rule, key, ok, what, detail, loc, examined):
        self.rule, self.key, self.ok, self.what, self.detail, self.loc, self.examined = rule, key, ok, what, detail, loc, examined

    def as_dict(self):
        return {'rule': self.rule, 'key': self.key, 'ok': self.ok, 'what': self.what, 'detail': self.detail, 'loc': self.loc}


class Ctx:
    def __init__(self, prop, P, tier='quick', config='default', fixture=None):
        self.prop = prop
        self.P = P
        self.FX = fixture
        self.tier = tier
        self.config = config
        self.obs = []
        self.cur = None
        self.cur_title = ''
        self.counts = {}
        self.call_sites = 0
        self.bodies = set()
        self.controls = []

    # -- obligations --
    def ob(self, item, ok, what, detail='', loc=None, kind='', examined=1):
        key = "%s/%s/%s" % (self.prop, self.cur, item) + (("/" + kind) if kind else '')
        o = Ob(self.cur, key, bool(ok), what, detail, loc, examined)
        self.obs.append(o)
        return bool(ok)

    def floor(self, what, n, floor):
        """a rule instance count must reach the number confirmed by hand on the pinned tree
        (counted on the default feature set; other configurations only have to be non-vacuous)"""
        if self.config != 'default':
            floor = min(floor, 1)
        self.counts["%s %s" % (self.cur, what)] = (n, floor)
        return self.ob('floor:' + what, n >= floor, "at least %d %s" % (floor, what),
                       "found %d" % n, kind='count', examined=n)

    def exact(self, what, n, want):
        self.counts["%s %s" % (self.cur, what)] = (n, want)
        return self.ob('count:' + what, n == want, "exactly %d %s" % (want, what), "found %d" % n, kind='count', examined=n)

    def control(self, name, fired):
        """positive control on the fixture crate: a deliberately violating construct must be seen"""
        self.controls.append((self.cur, name, bool(fired)))

    def saw(self, body=None, calls=0):
        if body is not None:
            self.bodies.add(body.path)
        self.call_sites += calls

    # -- running --
    def run(self):
        for rid, title, fn, tier, needs in RULES.get(self.prop, []):
            if tier == 'thorough' and self.tier != 'thorough':
                continue
            if needs is not None:
                try:
                    if not needs(self.P):
                        continue
                except Exception:
                    continue
            self.cur = rid
            self.cur_title = title
            n0 = len(self.obs)
            try:
                fn(self)
            except AnchorLost as e:
                self.ob('anchor', False, "anchors of rule present", "anchor lost: %s" % e, kind='anchor')
            except Exception as e:  # shape not recognised: fail closed, but say so
                tb = traceback.format_exc().strip().split('\n')
                self.ob('shape', False, "rule could be evaluated on this code shape",
                        "rule evaluation failed (%s: %s) at %s" % (type(e).__name__, e, tb[-3].strip() if len(tb) > 2 else ''), kind='shape')
            if len(self.obs) == n0:
                self.ob('vacuous', False, "rule produced at least one obligation", "rule matched nothing", kind='count')
        return self

    def failed(self):
        return [o for o in self.obs if not o.ok]


def load_known():
    p = os.path.join(VERIF, 'known_findings.json')
    if not os.path.exists(p):
        return []
    with open(p) as fh:
        return json.load(fh).get('findings', [])


def loc_of(body, block=None, cs=None, stmt=None):
    if cs is not None:
        return "%s:%s" % (cs.body.file, cs.line)
    if stmt is not None:
        return "%s:%s" % (body.file, stmt.get('line'))
    if block is not None:
        t = body.blocks[block]['term']
        sp = t.get('span')
        if sp:
            return "%s:%s" % (body.file, sp['line'])
        for s in body.blocks[block]['stmts']:
            if 'line' in s:
                return "%s:%s" % (body.file, s['line'])
    return "%s:%s" % (body.file, body.line)
