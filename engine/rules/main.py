#!/usr/bin/env python3
"""./check <Cnn|all> [--thorough] | ./check explain <violation.json> | ./check facts"""
import sys, os, json, time, importlib, hashlib

HERE = os.path.dirname(os.path.abspath(__file__))
sys.path.insert(0, HERE)
import extract, facts, core
from extract import NoVerdict

VERIF = core.VERIF
EVID = os.path.join(VERIF, 'evidence')
PROPS = ['C%02d' % i for i in range(1, 21)]

RULE_MODULES = ['c01', 'c02', 'c03', 'c04', 'c05', 'c06', 'c07', 'c08', 'c09', 'c10',
                'c11', 'c12', 'c13', 'c14', 'c15', 'c16', 'c17', 'c18', 'c19', 'c20']

THOROUGH_CONFIGS = ['rodbus-nodefault', 'rodbus-serial', 'rodbus-tls', 'ffi-nodefault']


def load_rules():
    import rules
    for m in RULE_MODULES:
        try:
            importlib.import_module('rules.' + m)
        except ModuleNotFoundError as e:
            if ('rules.' + m) not in str(e):
                raise


def safe(s):
    return ''.join(ch if ch.isalnum() or ch in '._-' else '_' for ch in s)[:150]


def run_property(prop, tier, seed, shared=None):
    t0 = time.time()
    shared = shared if shared is not None else {}
    results = []

    def get(config):
        if config not in shared:
            files, dt = extract.extract(config)
            shared[config] = (facts.load(files), dt)
        return shared[config]

    if 'fixture' not in shared:
        shared['fixture'] = facts.load([extract.extract_fixture()])
    FX = shared['fixture']

    configs = ['default'] + (THOROUGH_CONFIGS if tier == 'thorough' else [])
    ctxs = []
    for cfg in configs:
        P, dt = get(cfg)
        c = core.Ctx(prop, P, tier, cfg, FX)
        c.run()
        ctxs.append(c)

    extra = {}
    if tier == 'thorough':
        import thorough
        extra = thorough.run(prop, ctxs, seed)

    known = [k for k in core.load_known() if k.get('property') == prop and k.get('status') == 'known']
    known_keys = {k['key']: k for k in known}
    viol = []
    knownhits = []
    seen = set()
    for c in ctxs:
        for o in c.failed():
            k = o.key
            if (k, c.config) in seen:
                continue
            seen.add((k, c.config))
            if k in known_keys:
                if k not in [x[0] for x in knownhits]:
                    knownhits.append((k, known_keys[k], o))
            else:
                viol.append((c, o))
    broken_controls = [(c.config, r, n) for c in ctxs for (r, n, f) in c.controls if not f]

    # ---- evidence ----
    main = ctxs[0]
    obligations = sum(len(c.obs) for c in ctxs)
    discharged = sum(1 for c in ctxs for o in c.obs if o.ok)
    distinct = len({(o.key) for c in ctxs for o in c.obs if o.examined > 0})
    samples = []
    for o in main.obs:
        if o.ok and o.detail and len(samples) < 8 and o.rule not in [s['rule'] for s in samples]:
            samples.append({'rule': o.rule, 'obligation': o.what, 'found': o.detail, 'at': o.loc, 'key': o.key})
    if not samples:
        samples = [o.as_dict() for o in main.obs[:3]]
    rules_run = []
    for rid, title, fn, rtier, needs in core.RULES.get(prop, []):
        n = sum(1 for o in main.obs if o.rule == rid)
        rules_run.append({'rule': rid, 'title': title, 'obligations': n, 'failed': sum(1 for o in main.obs if o.rule == rid and not o.ok)})
    import meta
    ev = {
        'property_id': prop,
        'tier': tier,
        'seed': seed,
        'level': 'other',
        'coverage': {
            'explanation': meta.explain(prop),
            'obligations': obligations,
            'discharged': discharged,
            'evaluations': obligations,
            'distinct_nontrivial': distinct,
            'rule': 'one obligation = one structural rule instance (rule x item x site) evaluated on the MIR of the current /repo tree; '
                    'non-trivial = the instance examined at least one construct (call site, switch edge, assignment, ADT); distinct = distinct keys',
            'samples': samples,
            'checker_cmd': './check %s%s' % (prop, ' --thorough' if tier == 'thorough' else ''),
            'trusted_base': meta.TRUSTED.get(prop, []) + ['rustc nightly MIR construction (mir_promoted) and Instance::try_resolve', 'the mirfacts exporter and the Python rule engine in /verif/engine'],
            'configs': [c.config for c in ctxs],
            'bodies_analysed': {c.config: sum(1 for _ in c.P.all_bodies()) for c in ctxs},
            'bodies_examined_by_rules': len(main.bodies),
            'call_sites_examined': main.call_sites,
            'rules': rules_run,
            'floors': {k: {'found': v[0], 'floor': v[1]} for k, v in main.counts.items()},
            'positive_controls': [{'rule': r, 'control': n, 'fired': f} for (r, n, f) in main.controls],
            'not_decided': meta.NOT_DECIDED.get(prop, ''),
            'known_findings_reported': [k for k, _, _ in knownhits],
            'exhaustive': False,
        },
        'assumptions': meta.TRUSTED.get(prop, []),
        'wall_s': round(time.time() - t0, 2),
        'violations': len(viol),
    }
    ev['coverage'].update(extra)
    os.makedirs(EVID, exist_ok=True)
    with open(os.path.join(EVID, prop + '.json'), 'w') as fh:
        json.dump(ev, fh, indent=1)

    # ---- report ----
    rc = 0
    for k, kf, o in knownhits:
        print("KNOWN-FINDING: property=%s %s [%s] %s" % (prop, kf.get('what', o.detail), k, o.loc or ''))
    if broken_controls:
        for cfg, r, n in broken_controls:
            print("CHECKER BROKEN: positive control %s of %s did not fire (config %s)" % (n, r, cfg))
        return 2
    vdir = os.path.join(EVID, 'violations')
    if viol:
        os.makedirs(vdir, exist_ok=True)
    for c, o in viol:
        path = os.path.join(vdir, "%s.json" % safe(o.key.replace('/', '-')))
        with open(path, 'w') as fh:
            json.dump({'property': prop, 'rule': o.rule, 'key': o.key, 'config': c.config, 'expected': o.what,
                       'found': o.detail, 'at': o.loc,
                       'rule_title': next((t for (rid, t, _, _, _) in core.RULES.get(prop, []) if rid == o.rule), '')}, fh, indent=1)
        print("  %s: expected %s; %s  [%s]%s" % (o.rule, o.what, o.detail, o.loc or '', '' if c.config == 'default' else ' (config %s)' % c.config))
        print("VIOLATION property=%s replay=%s" % (prop, path))
        rc = 1
    if os.environ.get('VERIF_VERBOSE'):
        for c in ctxs:
            for o in c.obs:
                print("   [%s] %s | %s | %s | %s" % ('ok' if o.ok else 'FAIL', o.key, o.what, o.detail, o.loc))
    if rc == 0:
        print("%s: %d obligations discharged over %d config(s), %d rules, %.1fs" % (
            prop, discharged, len(ctxs), len(rules_run), time.time() - t0))
    return rc


def main(argv):
    if not argv:
        print(__doc__)
        return 2
    tier = 'thorough' if '--thorough' in argv or os.environ.get('VERIF_TIER') == 'thorough' else 'quick'
    argv = [a for a in argv if a != '--thorough']
    seed = int(os.environ.get('VERIF_SEED', '0') or 0)
    load_rules()
    try:
        if argv[0] == 'explain':
            with open(argv[1]) as fh:
                v = json.load(fh)
            shared = {}
            files, _ = extract.extract(v.get('config', 'default'))
            P = facts.load(files)
            FX = facts.load([extract.extract_fixture()])
            c = core.Ctx(v['property'], P, 'quick', v.get('config', 'default'), FX)
            c.run()
            hit = [o for o in c.failed() if o.key == v['key']]
            if hit:
                for o in hit:
                    print("still violated: %s: expected %s; %s [%s]" % (o.key, o.what, o.detail, o.loc))
                    print("VIOLATION property=%s replay=%s" % (v['property'], argv[1]))
                return 1
            print("not reproduced on the current tree: %s" % v['key'])
            return 0
        if argv[0] == 'all':
            shared = {}
            worst = 0
            for p in PROPS:
                if p in core.RULES:
                    rc = run_property(p, tier, seed, shared)
                    worst = max(worst, rc)
            return worst
        prop = argv[0]
        if prop not in core.RULES:
            print("no rules registered for %s" % prop)
            return 2
        return run_property(prop, tier, seed)
    except NoVerdict as e:
        print("NO VERDICT: %s" % e)
        return 2


if __name__ == '__main__':
    sys.exit(main(sys.argv[1:]))
