#!/usr/bin/env python3
"""E5: seeded-variant battery.  Applies small still-compiling edits to a scratch copy of /repo and requires
the named rule to fire.   usage: selftest.py <Cnn|all> [name-substring]   (or from thorough.py)

Variants are edit scripts (file, old, new) in /verif/engine/variants/Cnn.py, and unified diffs kept under
/verif/seeded/<id>/ (independent changes written by sub-agents)."""
import sys, os, json, shutil, subprocess, tempfile, importlib.util, time, glob, hashlib

HERE = os.path.dirname(os.path.abspath(__file__))
sys.path.insert(0, HERE)
import extract, facts, core
from extract import NoVerdict

VERIF = core.VERIF
VARDIR = os.path.join(VERIF, 'engine', 'variants')
SEEDED = os.path.join(VERIF, 'seeded')


def load_variants(prop):
    out = []
    f = os.path.join(VARDIR, prop + '.py')
    if os.path.exists(f):
        spec = importlib.util.spec_from_file_location('variants_' + prop, f)
        m = importlib.util.module_from_spec(spec)
        spec.loader.exec_module(m)
        for v in m.VARIANTS:
            v = dict(v)
            v['kind'] = 'edit'
            v['property'] = prop
            out.append(v)
    for d in sorted(glob.glob(os.path.join(SEEDED, '*'))):
        mf = os.path.join(d, 'meta.json')
        if not os.path.exists(mf):
            continue
        with open(mf) as fh:
            meta = json.load(fh)
        if meta.get('property') != prop and prop not in meta.get('also_detected_by', []):
            continue
        out.append({'name': 'seeded/' + os.path.basename(d), 'kind': 'diff', 'patch': os.path.join(d, 'patch.diff'),
                    'expect': meta.get('expect', {}).get(prop, prop + '/'), 'desc': meta.get('summary', ''), 'property': prop,
                    'benign': False})
    return out


def make_scratch():
    d = tempfile.mkdtemp(prefix='verif-scratch-')
    repo = os.path.join(d, 'repo')
    subprocess.check_call(['rsync', '-a', '--exclude', '/target', '--exclude', '/.git', extract.REPO + '/', repo + '/'])
    return d, repo


def apply_variant(repo, v):
    if v['kind'] == 'edit':
        for (f, old, new) in v['edits']:
            p = os.path.join(repo, f)
            s = open(p).read()
            if s.count(old) != 1:
                return False, "edit anchor found %d times in %s" % (s.count(old), f)
            open(p, 'w').write(s.replace(old, new))
        return True, ''
    r = subprocess.run(['patch', '-p1', '--no-backup-if-mismatch', '-i', v['patch']], cwd=repo, stdout=subprocess.PIPE, stderr=subprocess.STDOUT, text=True)
    return r.returncode == 0, r.stdout[-500:]


def restore(repo, files):
    for f in files:
        shutil.copy2(os.path.join(extract.REPO, f), os.path.join(repo, f))


def _repo_state():
    h = subprocess.run(['git', '-C', extract.REPO, 'rev-parse', 'HEAD'], stdout=subprocess.PIPE, text=True).stdout.strip()
    d = subprocess.run(['git', '-C', extract.REPO, 'diff', 'HEAD'], stdout=subprocess.PIPE, text=True).stdout
    return h + hashlib.sha1(d.encode()).hexdigest()[:8]


def _variant_key(v, state):
    if v['kind'] == 'edit':
        body = json.dumps(v['edits'])
    else:
        body = open(v['patch']).read()
    return hashlib.sha1((state + body).encode()).hexdigest()[:16]


VCACHE = os.path.join(extract.CACHE, 'variant-facts')


def run_variants(prop, variants, verbose=True, use_cache=True):
    import main as M
    M.load_rules()
    results = []
    if not variants:
        return results
    d = repo = None
    FX = facts.load([extract.extract_fixture()])
    state = _repo_state()
    try:
        for v in variants:
            t0 = time.time()
            vk = os.path.join(VCACHE, _variant_key(v, state))
            cached = sorted(glob.glob(os.path.join(vk, '*.jsonl'))) if use_cache else []
            if cached:
                files = cached
            else:
              if d is None:
                d, repo = make_scratch()
                # warm the scratch target dir from the main one (dependencies are keyed by package id, not by path)
                starget = os.path.join(extract.CACHE, 'target-scratch-default')
                mtarget = os.path.join(extract.CACHE, 'target-main-default')
                if not os.path.isdir(starget) and os.path.isdir(mtarget):
                    subprocess.call(['cp', '-a', mtarget, starget])
              subprocess.check_call(['rsync', '-a', '--delete', '--exclude', '/target', '--exclude', '/.git', extract.REPO + '/', repo + '/'])
              ok, msg = apply_variant(repo, v)
              if not ok:
                results.append({'variant': v['name'], 'status': 'skipped', 'why': 'does not apply: ' + msg})
                if verbose:
                    print("  SKIP %-40s %s" % (v['name'], msg))
                continue
              try:
                files, _ = extract.extract('default', repo=repo)
              except NoVerdict as e:
                results.append({'variant': v['name'], 'status': 'no-compile', 'why': str(e)[-600:]})
                if verbose:
                    print("  NOCOMPILE %-36s %s" % (v['name'], str(e)[-300:]))
                continue
              if use_cache:
                os.makedirs(vk, exist_ok=True)
                files = [shutil.copy2(f, vk) for f in files]
            P = facts.load(files)
            c = core.Ctx(prop, P, 'quick', 'default', FX)
            c.run()
            failed = [o for o in c.failed()]
            keys = [o.key for o in failed]
            if v.get('benign'):
                status = 'silent-ok' if not keys else 'FALSE-ALARM'
            else:
                hit = [k for k in keys if k.startswith(v['expect'])]
                status = 'caught' if hit else ('caught-elsewhere' if keys else 'MISSED')
            results.append({'variant': v['name'], 'status': status, 'expected_rule': v.get('expect'), 'fired': keys[:6],
                            'desc': v.get('desc', ''), 'wall_s': round(time.time() - t0, 1)})
            if verbose:
                print("  %-16s %-40s %s" % (status, v['name'], keys[:4]))
                if status in ('MISSED', 'FALSE-ALARM', 'caught-elsewhere'):
                    for o in failed[:6]:
                        print("        %s: %s [%s]" % (o.key, o.detail, o.loc))
    finally:
        if d is not None:
            shutil.rmtree(d, ignore_errors=True)
            shutil.rmtree(os.path.join(extract.CACHE, 'facts-scratch-default'), ignore_errors=True)
    return results


def uncached(variants):
    state = _repo_state()
    return [v for v in variants if not glob.glob(os.path.join(VCACHE, _variant_key(v, state), '*.jsonl'))]


BENIGN = os.path.join(VERIF, 'benign')


def run_benign(verbose=True):
    """behaviour-preserving refactorings written by independent agents (benign/<id>/patch.diff): every property's rules
    must stay silent.  benign/ACCEPTED.json lists the alarms that are accepted (with the reason): a rewritten algorithm
    whose recorded shape / panic-site inventory has to be re-confirmed by a reader."""
    import main as M
    M.load_rules()
    acc = {}
    af = os.path.join(BENIGN, 'ACCEPTED.json')
    if os.path.exists(af):
        acc = json.load(open(af))
    vs = []
    for d in sorted(glob.glob(os.path.join(BENIGN, '*'))):
        if os.path.exists(os.path.join(d, 'patch.diff')):
            vs.append({'name': 'benign/' + os.path.basename(d), 'kind': 'diff', 'patch': os.path.join(d, 'patch.diff'), 'benign': True})
    miss = uncached(vs)
    if miss:
        run_variants('C01', miss, verbose=False)     # produces (and caches) the facts
    FX = facts.load([extract.extract_fixture()])
    state = _repo_state()
    out = []
    for v in vs:
        files = sorted(glob.glob(os.path.join(VCACHE, _variant_key(v, state), '*.jsonl')))
        if not files:
            out.append({'variant': v['name'], 'status': 'skipped'})
            continue
        P = facts.load(files)
        keys = []
        for prop in sorted(core.RULES):
            c = core.Ctx(prop, P, 'quick', 'default', FX)
            c.run()
            keys += [o.key for o in c.failed()]
        allowed = acc.get(os.path.basename(v['name']), {}).get('keys', [])
        extra = [k for k in keys if not any(k.startswith(a) for a in allowed)]
        status = 'silent-ok' if not keys else ('accepted-alarm' if not extra else 'FALSE-ALARM')
        out.append({'variant': v['name'], 'status': status, 'fired': keys[:8], 'inlined': len(P.inline_log.log)})
        if verbose:
            print("  %-16s %-20s %s" % (status, v['name'], extra[:4] if extra else keys[:2]))
    return out


def _variant_one(args):
    prop, v, files = args
    import main as M
    M.load_rules()
    FX = facts.load([os.environ['VERIF_FIXTURE_FACTS']])
    P = facts.load(files)
    c = core.Ctx(prop, P, 'quick', 'default', FX)
    c.run()
    keys = [o.key for o in c.failed()]
    if v.get('benign'):
        status = 'silent-ok' if not keys else 'FALSE-ALARM'
    else:
        hit = [k for k in keys if k.startswith(v['expect'])]
        status = 'caught' if hit else ('caught-elsewhere' if keys else 'MISSED')
    return {'variant': v['name'], 'status': status, 'expected_rule': v.get('expect'), 'fired': keys[:6], 'desc': v.get('desc', '')}


def run_variants_parallel(prop, variants, jobs=12):
    """the variant / seed battery of one property: facts that are not cached yet are produced one after the other (one
    shared scratch build directory), the rules are then evaluated in `jobs` processes"""
    import multiprocessing
    miss = uncached(variants)
    res = []
    if miss:
        res += run_variants(prop, miss, verbose=False)
    done = {r['variant'] for r in res}
    os.environ['VERIF_FIXTURE_FACTS'] = extract.extract_fixture()
    state = _repo_state()
    tasks = []
    for v in variants:
        if v['name'] in done:
            continue
        files = sorted(glob.glob(os.path.join(VCACHE, _variant_key(v, state), '*.jsonl')))
        if files:
            tasks.append((prop, v, files))
    if tasks:
        with multiprocessing.Pool(jobs) as pool:
            res += pool.map(_variant_one, tasks)
    return res


def _benign_one(args):
    prop, name, files, allowed = args
    import main as M
    M.load_rules()
    FX = facts.load([os.environ['VERIF_FIXTURE_FACTS']])
    P = facts.load(files)
    c = core.Ctx(prop, P, 'quick', 'default', FX)
    c.run()
    keys = [o.key for o in c.failed()]
    extra = [k for k in keys if not any(k.startswith(a) for a in allowed)]
    return {'variant': name, 'status': 'silent-ok' if not keys else ('accepted-alarm' if not extra else 'FALSE-ALARM'), 'fired': keys[:6]}


def run_benign_for(prop, jobs=12):
    """the benign battery against one property's rules (thorough tier), evaluated in parallel"""
    import multiprocessing
    acc = {}
    af = os.path.join(BENIGN, 'ACCEPTED.json')
    if os.path.exists(af):
        acc = json.load(open(af))
    vs = []
    for d in sorted(glob.glob(os.path.join(BENIGN, '*'))):
        if os.path.exists(os.path.join(d, 'patch.diff')):
            vs.append({'name': 'benign/' + os.path.basename(d), 'kind': 'diff', 'patch': os.path.join(d, 'patch.diff'), 'benign': True})
    miss = uncached(vs)
    # producing the facts of a refactoring costs one `cargo check` of a scratch copy (~8 s); they are cached per state of /repo,
    # so a run that exhausts its time budget is continued by the next thorough run (of any property)
    budget = float(os.environ.get('VERIF_BENIGN_BUDGET_S', '1500'))
    t0 = time.time()
    for v in miss:
        if time.time() - t0 > budget:
            break
        run_variants(prop, [v], verbose=False)
    os.environ['VERIF_FIXTURE_FACTS'] = extract.extract_fixture()
    state = _repo_state()
    tasks = []
    for v in vs:
        files = sorted(glob.glob(os.path.join(VCACHE, _variant_key(v, state), '*.jsonl')))
        if files:
            tasks.append((prop, v['name'], files, acc.get(os.path.basename(v['name']), {}).get('keys', [])))
    with multiprocessing.Pool(jobs) as pool:
        res = pool.map(_benign_one, tasks)
    done = {t[1] for t in tasks}
    return res + [{'variant': v['name'], 'status': 'not-evaluated', 'fired': []} for v in vs if v['name'] not in done]


def main_parallel(props, save, jobs):
    """all variants of all properties: facts of variants not yet cached are produced one after the other (one shared
    scratch build directory), the evaluation of the rules then runs in `jobs` processes"""
    import concurrent.futures
    todo = {}
    for p in props:
        for v in uncached(load_variants(p)):
            todo.setdefault(v['name'] + str(v.get('patch', '')) + json.dumps(v.get('edits', '')), (p, v))
    if todo:
        print("producing facts for %d variants" % len(todo))
        byprop = {}
        for p, v in todo.values():
            byprop.setdefault(p, []).append(v)
        for p, vs in byprop.items():
            run_variants(p, vs, verbose=False)
    outs = {}
    env = dict(os.environ, VERIF_FIXTURE_FACTS=extract.extract_fixture())
    with concurrent.futures.ThreadPoolExecutor(max_workers=jobs) as ex:
        futs = {p: ex.submit(subprocess.run, [sys.executable, os.path.abspath(__file__), p, '--json'], stdout=subprocess.PIPE, stderr=subprocess.STDOUT, text=True, env=env) for p in props}
        for p, f in futs.items():
            outs[p] = f.result().stdout
    bad = 0
    allres = {}
    resfile = os.path.join(VERIF, 'selftest_results.json')
    for p in props:
        txt = outs[p]
        k = txt.rfind('JSON:')
        rs = json.loads(txt[k + 5:]) if k >= 0 else []
        print(txt[:k] if k >= 0 else txt, end='')
        bad += sum(1 for r in rs if r['status'] in ('MISSED', 'FALSE-ALARM'))
        allres[p] = [{kk: r.get(kk) for kk in ('variant', 'status', 'expected_rule', 'fired', 'desc')} for r in rs]
    if save:
        json.dump(allres, open(resfile, 'w'), indent=1)
    return 1 if bad else 0


def main(argv):
    save = '--save' in argv
    asjson = '--json' in argv
    jobs = 0
    if '--jobs' in argv:
        jobs = int(argv[argv.index('--jobs') + 1])
        argv = [a for i, a in enumerate(argv) if a != '--jobs' and (i == 0 or argv[i - 1] != '--jobs')]
    argv = [a for a in argv if a not in ('--save', '--json')]
    if argv[0] == 'benign':
        rs = run_benign()
        if save:
            resfile = os.path.join(VERIF, 'selftest_results.json')
            allres = json.load(open(resfile)) if os.path.exists(resfile) else {}
            allres['benign'] = rs
            json.dump(allres, open(resfile, 'w'), indent=1)
        return 1 if any(r['status'] == 'FALSE-ALARM' for r in rs) else 0
    if jobs and argv[0] == 'all':
        return main_parallel(['C%02d' % i for i in range(1, 21)], save, jobs)
    props = ['C%02d' % i for i in range(1, 21)] if argv[0] == 'all' else [argv[0]]
    sub = argv[1] if len(argv) > 1 else None
    bad = 0
    allres = {}
    resfile = os.path.join(VERIF, 'selftest_results.json')
    if save and os.path.exists(resfile):
        allres = json.load(open(resfile))
    for p in props:
        vs = load_variants(p)
        if sub:
            vs = [v for v in vs if sub in v['name']]
        if not vs:
            continue
        print("%s: %d variants" % (p, len(vs)))
        rs = run_variants(p, vs)
        if asjson:
            print('JSON:' + json.dumps(rs))
        bad += sum(1 for r in rs if r['status'] in ('MISSED', 'FALSE-ALARM'))
        if save and not sub:
            allres[p] = [{k: r.get(k) for k in ('variant', 'status', 'expected_rule', 'fired', 'desc')} for r in rs]
    if save:
        json.dump(allres, open(resfile, 'w'), indent=1)
    return 1 if bad else 0


if __name__ == '__main__':
    sys.exit(main(sys.argv[1:]))
