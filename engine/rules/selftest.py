#!/usr/bin/env python3
"""E5: seeded-variant battery.  Applies small still-compiling edits to a scratch copy of /repo and requires
the named rule to fire.   usage: selftest.py <Cnn|all> [name-substring]   (or from thorough.py)

Variants are edit scripts (file, old, new) in /verif/engine/variants/Cnn.py, and unified diffs kept under
/verif/seeded/<id>/ (independent changes written by sub-agents)."""
import sys, os, json, shutil, subprocess, tempfile, importlib.util, time, glob, hashlib

HERE = os.path.dirname(os.path.abspath(__file__))
sys.path.insert(0, HERE)
import extract, facts, core
from extract import NoVerdict

VERIF = core.VERIF
VARDIR = os.path.join(VERIF, 'engine', 'variants')
SEEDED = os.path.join(VERIF, 'seeded')


def load_variants(prop):
    out = []
    f = os.path.join(VARDIR, prop + '.py')
    if os.path.exists(f):
        spec = importlib.util.spec_from_file_location('variants_' + prop, f)
        m = importlib.util.module_from_spec(spec)
        spec.loader.exec_module(m)
        for v in m.VARIANTS:
            v = dict(v)
            v['kind'] = 'edit'
            v['property'] = prop
            out.append(v)
    for d in sorted(glob.glob(os.path.join(SEEDED, '*'))):
        mf = os.path.join(d, 'meta.json')
        if not os.path.exists(mf):
            continue
        with open(mf) as fh:
            meta = json.load(fh)
        if meta.get('property') != prop and prop not in meta.get('also_detected_by', []):
            continue
        out.append({'name': 'seeded/' + os.path.basename(d), 'kind': 'diff', 'patch': os.path.join(d, 'patch.diff'),
                    'expect': meta.get('expect', {}).get(prop, prop + '/'), 'desc': meta.get('summary', ''), 'property': prop,
                    'benign': False})
    return out


def make_scratch():
    d = tempfile.mkdtemp(prefix='verif-scratch-')
    repo = os.path.join(d, 'repo')
    subprocess.check_call(['rsync', '-a', '--exclude', '/target', '--exclude', '/.git', extract.REPO + '/', repo + '/'])
    return d, repo


def apply_variant(repo, v):
    if v['kind'] == 'edit':
        for (f, old, new) in v['edits']:
            p = os.path.join(repo, f)
            s = open(p).read()
            if s.count(old) != 1:
                return False, "edit anchor found %d times in %s" % (s.count(old), f)
            open(p, 'w').write(s.replace(old, new))
        return True, ''
    r = subprocess.run(['patch', '-p1', '--no-backup-if-mismatch', '-i', v['patch']], cwd=repo, stdout=subprocess.PIPE, stderr=subprocess.STDOUT, text=True)
    return r.returncode == 0, r.stdout[-500:]


def restore(repo, files):
    for f in files:
        shutil.copy2(os.path.join(extract.REPO, f), os.path.join(repo, f))


def _repo_state():
    h = subprocess.run(['git', '-C', extract.REPO, 'rev-parse', 'HEAD'], stdout=subprocess.PIPE, text=True).stdout.strip()
    d = subprocess.run(['git', '-C', extract.REPO, 'diff', 'HEAD'], stdout=subprocess.PIPE, text=True).stdout
    return h + hashlib.sha1(d.encode()).hexdigest()[:8]


def _variant_key(v, state):
    if v['kind'] == 'edit':
        body = json.dumps(v['edits'])
    else:
        body = open(v['patch']).read()
    return hashlib.sha1((state + body).encode()).hexdigest()[:16]


VCACHE = os.path.join(extract.CACHE, 'variant-facts')


def run_variants(prop, variants, verbose=True, use_cache=True):
    import main as M
    M.load_rules()
    results = []
    if not variants:
        return results
    d, repo = make_scratch()
    # warm the scratch target dir from the main one (dependencies are keyed by package id, not by path)
    starget = os.path.join(extract.CACHE, 'target-scratch-default')
    mtarget = os.path.join(extract.CACHE, 'target-main-default')
    if not os.path.isdir(starget) and os.path.isdir(mtarget):
        subprocess.call(['cp', '-a', mtarget, starget])
    FX = facts.load([extract.extract_fixture()])
    state = _repo_state()
    try:
        for v in variants:
            t0 = time.time()
            vk = os.path.join(VCACHE, _variant_key(v, state))
            cached = sorted(glob.glob(os.path.join(vk, '*.jsonl'))) if use_cache else []
            if cached:
                files = cached
            else:
              subprocess.check_call(['rsync', '-a', '--delete', '--exclude', '/target', '--exclude', '/.git', extract.REPO + '/', repo + '/'])
              ok, msg = apply_variant(repo, v)
              if not ok:
                results.append({'variant': v['name'], 'status': 'skipped', 'why': 'does not apply: ' + msg})
                if verbose:
                    print("  SKIP %-40s %s" % (v['name'], msg))
                continue
              try:
                files, _ = extract.extract('default', repo=repo)
              except NoVerdict as e:
                results.append({'variant': v['name'], 'status': 'no-compile', 'why': str(e)[-600:]})
                if verbose:
                    print("  NOCOMPILE %-36s %s" % (v['name'], str(e)[-300:]))
                continue
              if use_cache:
                os.makedirs(vk, exist_ok=True)
                files = [shutil.copy2(f, vk) for f in files]
            P = facts.load(files)
            c = core.Ctx(prop, P, 'quick', 'default', FX)
            c.run()
            failed = [o for o in c.failed()]
            keys = [o.key for o in failed]
            if v.get('benign'):
                status = 'silent-ok' if not keys else 'FALSE-ALARM'
            else:
                hit = [k for k in keys if k.startswith(v['expect'])]
                status = 'caught' if hit else ('caught-elsewhere' if keys else 'MISSED')
            results.append({'variant': v['name'], 'status': status, 'expected_rule': v.get('expect'), 'fired': keys[:6],
                            'desc': v.get('desc', ''), 'wall_s': round(time.time() - t0, 1)})
            if verbose:
                print("  %-16s %-40s %s" % (status, v['name'], keys[:4]))
                if status in ('MISSED', 'FALSE-ALARM', 'caught-elsewhere'):
                    for o in failed[:6]:
                        print("        %s: %s [%s]" % (o.key, o.detail, o.loc))
    finally:
        shutil.rmtree(d, ignore_errors=True)
        shutil.rmtree(os.path.join(extract.CACHE, 'facts-scratch-default'), ignore_errors=True)
    return results


def main(argv):
    save = '--save' in argv
    argv = [a for a in argv if a != '--save']
    props = ['C%02d' % i for i in range(1, 21)] if argv[0] == 'all' else [argv[0]]
    sub = argv[1] if len(argv) > 1 else None
    bad = 0
    allres = {}
    resfile = os.path.join(VERIF, 'selftest_results.json')
    if save and os.path.exists(resfile):
        allres = json.load(open(resfile))
    for p in props:
        vs = load_variants(p)
        if sub:
            vs = [v for v in vs if sub in v['name']]
        if not vs:
            continue
        print("%s: %d variants" % (p, len(vs)))
        rs = run_variants(p, vs)
        bad += sum(1 for r in rs if r['status'] in ('MISSED', 'FALSE-ALARM'))
        if save and not sub:
            allres[p] = [{k: r.get(k) for k in ('variant', 'status', 'expected_rule', 'fired', 'desc')} for r in rs]
    if save:
        json.dump(allres, open(resfile, 'w'), indent=1)
    return 1 if bad else 0


if __name__ == '__main__':
    sys.exit(main(sys.argv[1:]))
