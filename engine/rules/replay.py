#!/usr/bin/env python3
"""re-run all rules on kept fact files: replay.py <dir>... [-p Cnn] [-v]"""
import sys, os, glob
HERE = os.path.dirname(os.path.abspath(__file__))
sys.path.insert(0, HERE)
import extract, facts, core
import main as M
M.load_rules()
FX = facts.load([extract.extract_fixture()])
args = [a for a in sys.argv[1:] if not a.startswith('-')]
only = None
if '-p' in sys.argv:
    only = sys.argv[sys.argv.index('-p') + 1]
    args.remove(only)
import selftest
for d in args:
    if os.path.exists(os.path.join(d, 'patch.diff')):      # a benign/<id> or seeded/<id> directory: use the cached facts of that patch
        v = {'kind': 'diff', 'patch': os.path.abspath(os.path.join(d, 'patch.diff'))}
        d = os.path.join(selftest.VCACHE, selftest._variant_key(v, selftest._repo_state()))
    fl = sorted(glob.glob(os.path.join(d, '*.jsonl')))
    if not fl:
        print('== %s: no cached facts (run selftest.py first)' % d)
        continue
    P = facts.load(fl)
    il = P.inline_log
    fired = []
    for prop in sorted(core.RULES):
        if only and prop != only:
            continue
        c = core.Ctx(prop, P, 'quick', 'default', FX)
        c.run()
        fired += [(o.key, o.detail, o.loc) for o in c.failed()]
    print("== %s: %s   (inlined %d sites, kept %s)" % (os.path.basename(d), 'SILENT' if not fired else 'FIRED', len(il.log), sorted(il.kept)))
    for k, dt, loc in fired:
        print("     %s: %s [%s]" % (k, dt[:300], loc))
