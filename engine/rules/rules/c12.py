"""C12 — response timeouts and the consecutive-timeout limit (structural clauses; exact timing is tokio's timer)."""
from core import rule, loc_of
from facts import AnchorLost, norm
import q, effects
from tables import *
from rules.c08 import one, WIRE_WRITE
from rules.c11 import CL, EXEC, RUN_ONE, NEXT_FRAME

TC = 'rodbus::client::task::TimeoutCounter'
TCS = 'rodbus::client::task::TimeoutCounterState'
RE = 'rodbus::error::RequestError'
SLEEP_UNTIL = 'tokio::time::sleep::sleep_until'
TIMEOUT_AT = 'tokio::time::timeout::timeout_at'


@rule('C12', 'R12.1', 'one deadline per request: computed once after transmission from the request\'s own timeout, and the only timer raced')
def r1(c):
    P = c.P
    b = P.fn(EXEC)
    c.saw(b, len(b.calls()))
    w = one(b.calls(WIRE_WRITE), 'write')
    add = [cs for cs in b.calls() if cs.declared == 'core::ops::arith::Add::add' and 'Instant' in (cs.callee or '')]
    # a relative timer (timeout / sleep of a Duration) created inside the receive loop restarts with every frame that is
    # skipped (round 7: three independent seeds rewrote the select! into `timeout(request.timeout, next_frame)`)
    rel = [cs for cs in b.calls() if (cs.callee or '').startswith('tokio::time::') and not cs.callee.endswith('Instant::now')
           and not cs.is_(SLEEP_UNTIL) and not (cs.callee or '').endswith('timeout_at') and b.in_cycle(cs.node)]
    c.ob('timer/not-per-frame', not rel, 'no relative timer (timeout / sleep for a duration) is started inside the receive loop - a skipped frame must not move the deadline',
         str(sorted({x.callee for x in rel})), rel[0].loc() if rel else loc_of(b))
    if rel and not add:
        return
    add = one(add, 'Instant + Duration')
    now = q.sem(b, add.args[0])
    to = q.sem(b, add.args[1])
    c.ob('deadline/from-now', now.kind == 'call' and now.cs.callee.endswith('Instant::now'), 'deadline = Instant::now() + ...', repr(now), add.loc())
    c.ob('deadline/own-timeout', q.sem_is_name(b, to, 'request') and bool(to.proj) and to.proj[-1].endswith(':timeout'), '... + request.timeout (the timeout of THIS request)', repr(to), add.loc())
    c.ob('deadline/once', not b.in_cycle(add.node) and not b.in_cycle(now.cs.node if now.kind == 'call' else add.node), 'the deadline is computed once, outside the receive loop', '', add.loc())
    c.ob('deadline/after-write', q.dominated_by_any(b, q.outcomes(b, w).get('success', []), add.node), 'the deadline starts after the request was written successfully', '', add.loc())
    sl = b.calls(SLEEP_UNTIL)
    ta = [cs for cs in b.calls() if cs.is_(TIMEOUT_AT)]
    if len(ta) == 1 and not sl and len(ta[0].args) >= 2:
        # second form of the same race: `timeout_at(deadline, next_frame(..)).await` inside the loop - the deadline is absolute,
        # so a skipped frame does not move it
        s = q.sem(b, ta[0].args[0])
        c.ob('timer/deadline', s.kind == 'call' and s.cs is add, 'the only timer in the transaction is timeout_at(that deadline, ..)', repr(s), ta[0].loc())
        others = [cs for cs in b.calls() if (cs.callee or '').startswith('tokio::time::') and cs is not ta[0] and not cs.callee.endswith('Instant::now')]
        c.ob('timer/no-other', not others, 'no other tokio timer (timeout / sleep) is used in the transaction', str([x.callee for x in others]), loc_of(b))
        fut = q._future_creator(b, ta[0].args[1])
        c.ob('race', fut is not None and hasattr(fut, 'is_') and fut.is_(NEXT_FRAME), 'the future bounded by timeout_at(deadline, ..) is next_frame', '', ta[0].loc())
        return
    oks = len(sl) == 1
    if oks:
        s = q.sem(b, sl[0].args[0])
        oks = s.kind == 'call' and s.cs is add
    c.ob('timer/deadline', oks, 'the only timer in the transaction is sleep_until(that deadline)', '%d sleep_until' % len(sl), sl[0].loc() if sl else loc_of(b))
    others = [cs for cs in b.calls() if (cs.callee or '').startswith('tokio::time::') and not cs.is_(SLEEP_UNTIL) and not cs.callee.endswith('Instant::now')]
    c.ob('timer/no-other', not others, 'no other tokio timer (timeout / sleep) is used in the transaction', str([x.callee for x in others]), loc_of(b))
    # the timer is raced against next_frame in one select!, inside the loop
    sel = [s for s in q.select_sites(b) if sl and sl[0] in s['futures']]
    okr = len(sel) == 1 and any(f is not None and f.is_(NEXT_FRAME) for f in sel[0]['futures'])
    c.ob('race', okr, 'sleep_until(deadline) is raced with next_frame in a select!', '', loc_of(b))


@rule('C12', 'R12.2', 'ResponseTimeout is produced only when that timer fires')
def r2(c):
    P = c.P
    cons = P.constructors(RE, 'ResponseTimeout', crate='rodbus')
    where = sorted({P.logical_name(x) for x, _, _ in cons})
    c.ob('constructors', where == [EXEC], 'RequestError::ResponseTimeout is constructed only in execute_request', str(where), examined=len(cons))
    b = P.fn(EXEC)
    sl = b.calls(SLEEP_UNTIL)
    sel = [s for s in q.select_sites(b) if sl and sl[0] in s['futures']]
    ta = [cs for cs in b.calls() if cs.is_(TIMEOUT_AT)]
    for x, i, st in cons:
        if P.logical_name(x) == EXEC and not sel and not sl and len(ta) == 1:
            # timeout_at form: built only behind the Elapsed (Err) outcome of the awaited timeout_at
            ee = q.outcomes(b, ta[0]).get('Err', [])
            c.ob('timer-arm', bool(ee) and q.dominated_by_any(b, ee, ('b', i)), 'it is built on the Elapsed outcome of timeout_at(deadline, ..)', '%d Err edges' % len(ee), loc_of(b, i, stmt=st))
            rs = b.reach_set(('b', i)) | {('b', i)}
            xs = [y for y in q.exits(b) if y['node'] in rs]
            c.ob('returned', bool(xs) and all(q.exit_is_failure(b, y) for y in xs), 'and from there the transaction can only end with an error (the timeout is what the caller gets)',
                 '%d exits reachable' % len(xs), loc_of(b))
            continue
        if P.logical_name(x) != EXEC or not sel:
            continue
        k = sel[0]['futures'].index(sl[0])
        e = sel[0]['arms'].get(k)
        c.ob('timer-arm', e is not None and b.dominates(e, ('b', i)), 'it is built on the select arm of the deadline timer', '', loc_of(b, i, stmt=st))
        rs = b.reach_set(('b', i)) | {('b', i)}
        xs = [y for y in q.exits(b) if y['node'] in rs]
        c.ob('returned', bool(xs) and all(q.exit_is_failure(b, y) for y in xs), 'and from there the transaction can only end with an error (the timeout is what the caller gets)',
             '%d exits reachable, %d of them not error exits' % (len(xs), len([y for y in xs if not q.exit_is_failure(b, y)])), loc_of(b))


@rule('C12', 'R12.3', 'counter discipline: reset at session start and on every non-timeout outcome, increment only on ResponseTimeout')
def r3(c):
    P = c.P
    b = P.fn(RUN_ONE)
    c.saw(b, len(b.calls()))
    facts = q.cmp_facts(b)
    inc = one(b.calls(TC + '::increment'), 'increment')
    rs = b.calls(TC + '::reset')
    def is_err(o):
        return q.is_error_of(b, o, EXEC)
    def is_to(o):
        av = q.agg_variant_of(b, o)
        return av == (RE, 'ResponseTimeout')
    c.ob('increment/on-timeout', q.has_fact(b, inc.node, 'eq', is_err, is_to, facts), 'increment is dominated by err == RequestError::ResponseTimeout', '', inc.loc())
    okp, how, why = q.failure_leaves(b, inc)
    c.ob('increment/checked', okp, 'the result of increment is propagated (a reached limit ends the session)', '%s: %s' % (how, why), inc.loc())
    c.ob('increment/once', not b.in_cycle(inc.node), 'at most one increment per request', '', inc.loc())
    ex = b.calls(EXEC)
    ok_edges = []
    for cs in ex:
        ok_edges += q.outcomes(b, cs).get('Ok', [])
    # result is a phi of two awaited calls: use the match on `result`
    res_sw = [(e, v) for e, v, info in b.variant_edges('core::result::Result') if q.is_result_of(b, info['place'], EXEC)]
    ok_e = [e for e, v in res_sw if v == 'Ok']
    err_e = [e for e, v in res_sw if v == 'Err']
    on_ok = [r for r in rs if q.dominated_by_any(b, ok_e, r.node)]
    on_other = [r for r in rs if q.has_fact(b, r.node, 'ne', is_err, is_to, facts)]
    c.ob('reset/on-success', len(on_ok) == 1, 'a successful request resets the counter', '%d' % len(on_ok), loc_of(b))
    c.ob('reset/on-other-error', len(on_other) == 1, 'any other failure (exception, bad reply) resets the counter', '%d' % len(on_other), loc_of(b))
    c.ob('reset/sites', len(rs) == 2, 'exactly those two reset sites', str(len(rs)), loc_of(b))
    # request is failed before the counter is consulted (the error the caller sees is the timeout itself)
    fail = one(b.calls('rodbus::client::message::RequestDetails::fail'), 'details.fail')
    c.ob('fail-before-count', b.dominates(fail.ret, inc.node), 'the request is failed (with its own error) before the counter decides about the session', '', fail.loc())
    run = P.fn(CL + '::run')
    rr = run.calls(TC + '::reset')
    po = one(run.calls(CL + '::poll'), 'poll')
    c.ob('session-start', len(rr) == 1 and not run.in_cycle(rr[0].node) and run.dominates(rr[0].ret, po.node), 'ClientLoop::run clears the counter once, before its loop', '%d' % len(rr), loc_of(run), kind='run-reset')
    users = sorted({P.logical_name(cs.body) for cs in P.callers(TC + '::increment', TC + '::reset')})
    c.ob('counter-users', users == sorted([RUN_ONE, CL + '::run']), 'the counter is touched only by run and run_one_request', str(users))


@rule('C12', 'R12.4', 'TimeoutCounter: disabled never trips; enabled trips when the count reaches the limit; reset stores 0')
def r4(c):
    P = c.P
    n = P.fn(TC + '::new')
    opt = [(e, v) for e, v, info in n.variant_edges('core::option::Option') if q.is_name(n, info['place'], 'max_timeouts')]
    ag = [(i, s) for i, s in n.aggregates(TCS)]
    dis = [(i, s) for i, s in ag if s['rv']['variant'] == 'Disabled']
    en = [(i, s) for i, s in ag if s['rv']['variant'] == 'Enabled']
    ok = len(dis) == 1 and len(en) == 1 and q.dominated_by_any(n, [e for e, v in opt if v == 'None'], ('b', dis[0][0])) and q.dominated_by_any(n, [e for e, v in opt if v == 'Some'], ('b', en[0][0]))
    if ok:
        rv = en[0][1]['rv']
        f = dict(zip(rv['fields'], rv['a']))
        ok = q.const_val(n, f['current']) == 0 and 'max_timeouts' in q.closure_names(n, f['max'])
    c.ob('new', ok, 'None -> Disabled; Some(max) -> Enabled{current: 0, max}', '', loc_of(n))
    b = P.fn(TC + '::increment')
    c.saw(b, len(b.calls()))
    arms = q.arms_of(b, TCS)
    exs = q.exits(b)
    reg_d = set()
    for e, r in arms.get('Disabled', []):
        reg_d |= r
    xd = q.exit_in(b, reg_d, exs)
    c.ob('increment/disabled', bool(xd) and all(x['kind'] == 'agg' and x['variant'] == 'Ok' for x in xd), 'Disabled: increment always returns Ok', str([(x['kind'], x.get('variant')) for x in xd]), loc_of(b))
    reg_e = set()
    for e, r in arms.get('Enabled', []):
        reg_e |= r
    facts = q.cmp_facts(b)
    sat = [cs for cs in q.calls_in(b, reg_e) if cs.callee.endswith('::saturating_add') or cs.callee.endswith('::checked_add') or cs.callee.endswith('::wrapping_add')]
    adds = [s for i, s in b.assigns() if ('b', i) in reg_e and s['rv']['r'] == 'bin' and s['rv']['op'].startswith('Add')]
    ok1 = (len(sat) == 1 and sat[0].callee.endswith('::saturating_add') and q.const_val(b, sat[0].args[1]) == 1) and not adds
    cur = lambda o: 'current' in q.chain_names(b, o) or any('current' in p for p in q.sem(b, o).proj)
    mx = lambda o: 'max' in q.chain_names(b, o) or any(p.endswith(':max') for p in q.sem(b, o).proj)
    c.ob('increment/by-one', ok1 and cur(sat[0].args[0]) if sat else False, 'Enabled: current = current.saturating_add(1)', '%d add calls' % len(sat), loc_of(b))
    errs = [x for x in exs if x['node'] in reg_e and x['kind'] == 'agg' and x['variant'] == 'Err']
    oks_ = [x for x in exs if x['node'] in reg_e and x['kind'] == 'agg' and x['variant'] == 'Ok']
    ok2 = len(errs) == 1 and len(oks_) == 1 and q.has_fact(b, errs[0]['node'], 'le', mx, cur, facts) and q.has_fact(b, oks_[0]['node'], 'lt', cur, mx, facts)
    if ok2:
        av = q.agg_variant_of(b, errs[0]['rv']['a'][0])
        ok2 = av is not None and av[1] == 'MaxTimeouts'
        ok2 = ok2 and sat and all(b.dominates(sat[0].ret, x['node']) for x in errs + oks_)
    c.ob('increment/limit', ok2, 'Err(MaxTimeouts) exactly when the incremented count >= max, Ok when it is < max', '', loc_of(b))
    r = P.fn(TC + '::reset')
    st = [(i, s) for i, s in r.assigns() if 'deref' in s['pl']['p'] or any('current' in p for p in s['pl']['p'])]
    okr = any(s['rv']['r'] == 'use' and q.const_val(r, s['rv']['a'][0]) == 0 for i, s in st)
    c.ob('reset', okr, 'reset stores 0 into the current count', '', loc_of(r))
    cons = sorted({P.logical_name(x) for x, _, _ in P.constructors(TCS, crate='rodbus')})
    c.ob('state-constructors', cons == [TC + '::new'], 'counter states are constructed only by TimeoutCounter::new', str(cons))


@rule('C12', 'R12.5', 'reaching the limit drops the connection for re-establishment')
def r5(c):
    P = c.P
    SE = 'rodbus::client::task::SessionError'
    for f in ('rodbus::tcp::client::TcpChannelTask::run_connection', 'rodbus::serial::client::SerialChannelTask::try_open_and_run'):
        if not P.has(f):
            continue
        b = P.fn(f)
        arms = q.arms_of(b, SE)
        def tgt(v):
            for e, r in arms.get(v, []):
                return q._trivial_target(b, e)
            return None
        c.ob('reconnect/%s' % f.split('::')[-2], tgt('MaxTimeouts') is not None and tgt('MaxTimeouts') == tgt('IoError'), 'MaxTimeouts is handled like a lost connection (wait, then reconnect)', '%s vs %s' % (tgt('MaxTimeouts'), tgt('IoError')), loc_of(b))
    # a timeout alone is not a session error
    fr = P.fn('rodbus::client::task::SessionError::from_request_err')
    arms = q.arms_of(fr, RE)
    c.ob('timeout-keeps-connection', 'ResponseTimeout' not in arms or all(q._trivial_target(fr, e) == q._trivial_target(fr, arms['Shutdown'][0][0]) if 'Shutdown' in arms else True for e, r in arms.get('ResponseTimeout', [])),
         'a single ResponseTimeout does not end the session (from_request_err maps it to None)', str(sorted(arms)), loc_of(fr))
    opts = P.fn('rodbus::types::ClientOptions::max_response_timeouts')
    c.ob('option', opts is not None, 'the limit is a client option', '', loc_of(opts))


@rule('C12', 'R12.6', 'a timed-out request leaves the connection usable: the half-received reply stays in the reader and is completed and skipped later - no reset on timeout (C05/R05.7)')
def r6(c):
    from rules import c05
    c05.r7(c)


CO = 'rodbus::types::ClientOptions'


def builder_discipline(c, adt, setters):
    """every by-value builder method of `adt` sets its own field(s) from its parameter(s) and keeps all others"""
    P = c.P
    n = 0
    for b in P.all_bodies(crate='rodbus'):
        if not b.path.startswith(adt + '::') or '{' in b.path[len(adt):] or not b.sig_in or norm(b.sig_in[0]) != adt or norm(b.sig_out or '') != adt:
            continue
        m = b.path.rsplit('::', 1)[-1]
        fl = q.builder_fields(b, adt)
        own = setters.get(m)
        ok = fl is not None and all(v == 'kept' or (v == 'param' and (own is None or k in own)) for k, v in fl.items()) and (own is None or all(fl.get(k) == 'param' for k in own))
        c.ob('builder/%s' % m, ok, '%s::%s sets %s from its argument and keeps every other option as it was' % (adt.rsplit('::', 1)[-1], m, '/'.join(own) if own else 'its own option'), str(fl), loc_of(b))
        n += 1
    return n


@rule('C12', 'R12.7', 'the limit counted against is the limit configured: ClientOptions builders keep it, the TCP/TLS task hands it to the loop, the loop to the counter')
def r7(c):
    P = c.P
    n = builder_discipline(c, CO, {'channel_logging': ['channel_logging'], 'max_queued_requests': ['max_queued_requests'], 'decode_level': ['decode_level'], 'max_response_timeouts': ['max_timeouts']})
    c.floor('ClientOptions builder methods', n, 4)
    t = P.fn('rodbus::tcp::client::TcpChannelTask::new')
    nw = one(t.calls(CL + '::new'), 'ClientLoop::new in TcpChannelTask::new')
    s = q.sem(t, nw.args[4])
    c.ob('task/limit', q.sem_is_name(t, s, 'options') and bool(s.proj) and s.proj[-1].endswith(':max_timeouts'), 'TcpChannelTask::new passes options.max_timeouts to ClientLoop::new', repr(s), nw.loc())
    l = P.fn(CL + '::new')
    tn = one(l.calls(TC + '::new'), 'TimeoutCounter::new in ClientLoop::new')
    c.ob('loop/limit', q.is_name(l, tn.args[0], 'max_timeouts'), 'ClientLoop::new builds its counter from the max_timeouts it was given', '', tn.loc())
    ag = [(i, s_) for i, s_ in l.aggregates(CL)]
    okf = len(ag) == 1
    if okf:
        f = dict(zip(ag[0][1]['rv']['fields'], ag[0][1]['rv']['a']))
        sv = q.sem(l, f.get('timeout_counter'))
        okf = sv.kind == 'call' and sv.cs is tn
    c.ob('loop/field', okf, 'and that counter is the loop\'s timeout_counter', '', loc_of(l))


@rule('C12', 'R12.8', 'a reply that arrives after its deadline leaves the connection usable: while idle it is dropped without ending the session (C11/R11.3)')
def r8(c):
    from rules import c11
    c11.r3(c)
