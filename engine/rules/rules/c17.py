"""C17 — multi-drop discipline: silent unless addressed; broadcast writes reach all units, never answered."""
from core import rule, loc_of
from facts import AnchorLost, norm
import q, effects
from tables import *
from rules.c08 import (one, hf, IS_AUTH, PARSE, GET_REPLY, EXECUTE, INTO_BC, HGET, HITER, LOCK, WIRE_WRITE, REPLY_ERR, REPLY_ERR_G)

FD = 'rodbus::common::frame::FrameDestination'
IS_BC = 'rodbus::common::frame::FrameDestination::is_broadcast'
FORMAT_EX = 'rodbus::common::frame::FrameWriter::format_ex'


def dest_place(body, root):
    def ok(s):
        return s.kind == 'place' and q.sem_is_name(body, s, root) and any('destination' in p for p in s.proj)
    return ok


@rule('C17', 'R17.1', 'exception replies are never sent to a broadcast destination')
def r1(c):
    P = c.P
    b = P.fn(REPLY_ERR_G)
    c.saw(b, len(b.calls()))
    E = effects.get(P)
    edges = q.enum_condition_edges(b, FD, 'Broadcast', dest_place(b, 'header'), predicates=((IS_BC, True),))
    notb = edges['not']
    c.ob('guard', len(notb) >= 1, 'reply_with_error_generic tests header.destination against Broadcast', 'not-broadcast edges %s, broadcast edges %s' % (notb, edges['is']), loc_of(b))
    n = 0
    for cs in b.calls():
        if q.is_tracing(cs) or q.is_fmt(cs) or q.is_machinery(cs):
            continue
        eff = E.of_call(cs)
        if 'wire' in eff or cs.is_(WIRE_WRITE, FORMAT_EX):
            n += 1
            c.ob('wire/%s' % cs.callee, q.dominated_by_any(b, notb, cs.node) and not any(b.reaches(e, cs.node) for e in edges['is']),
                 '%s is dominated by destination != Broadcast and unreachable from the Broadcast edge' % cs.callee, '', cs.loc())
    c.floor('wire-side calls in reply_with_error_generic', n, 2)
    # reply_with_error delegates (no wire access of its own)
    if P.has(REPLY_ERR):        # (the one-line wrapper may have been merged into its callers)
        r = P.fn(REPLY_ERR)
        c.saw(r, len(r.calls()))
        direct = [cs for cs in r.calls() if cs.is_(WIRE_WRITE, FORMAT_EX)]
        dele = r.calls(REPLY_ERR_G)
        okh = len(dele) == 1 and q.is_name(r, dele[0].args[2], 'header')
        c.ob('reply_with_error/delegates', not direct and okh, 'reply_with_error only delegates to reply_with_error_generic with its own header', 'direct wire calls %d, delegations %d' % (len(direct), len(dele)), loc_of(r))
    # who writes to the wire in the server at all
    writers = sorted({P.logical_name(cs.body) for cs in P.callers(WIRE_WRITE) if 'rodbus::server::' in cs.body.path})
    c.ob('server-writers', writers == sorted([HANDLE_FRAME, REPLY_ERR_G]), 'in the server only handle_frame and reply_with_error_generic write to the wire', str(writers))


@rule('C17', 'R17.2', 'handle_frame: nothing is written for broadcast frames or for unit ids without a handler')
def r2(c):
    b = hf(c)
    E = effects.get(c.P)
    auth = one(b.calls(IS_AUTH), 'is_authorized')
    allow = q.outcomes(b, auth).get('Allow', [])
    edges = q.enum_condition_edges(b, FD, 'Broadcast', dest_place(b, 'frame'), predicates=((IS_BC, True),))
    # the match on the destination after authorization
    bc_arm = [e for e in edges['is'] if q.dominated_by_any(b, allow, e)]
    unit_arm = [e for e in edges['not'] if q.dominated_by_any(b, allow, e)]
    c.ob('dispatch-on-destination', len(bc_arm) >= 1 and len(unit_arm) >= 1, 'after authorization the frame is dispatched on its destination', 'broadcast %s unit %s' % (bc_arm, unit_arm), loc_of(b))
    wire = [cs for cs in b.calls() if not (q.is_tracing(cs) or q.is_fmt(cs) or q.is_machinery(cs)) and ('wire' in E.of_call(cs))]
    c.floor('wire-effect call sites in handle_frame', len(wire), 4)
    for e in bc_arm:
        rs = b.reach_set(e)
        bad = [cs for cs in wire if cs.node in rs]
        c.ob('broadcast-arm/silent', not bad, 'no wire effect is reachable from the Broadcast arm', str([x.callee for x in bad]), loc_of(b, e[1]))
    hget = one(b.calls(HGET), 'handlers.get')
    oc = q.outcomes(b, hget)
    for e in oc.get('None', []):
        rs = b.reach_set(e)
        bad = [cs for cs in b.calls() if cs.node in rs and not (q.is_tracing(cs) or q.is_fmt(cs) or q.is_machinery(cs)) and E.of_call(cs)]
        c.ob('unmapped-unit/silent', not bad, 'an unmapped unit id returns without any effect', str([x.callee for x in bad]), loc_of(b, e[1]))
    c.ob('unmapped-unit/edge', len(oc.get('None', [])) == 1, 'the lookup result is checked for None', str(oc.get('None')), hget.loc())
    # after authorization the only wire write is the reply produced by the unit's own handler
    some = oc.get('Some', [])
    post = [cs for cs in wire if q.dominated_by_any(b, allow, cs.node)]
    for cs in post:
        c.ob('post-auth-write/%s' % cs.callee, cs.is_(WIRE_WRITE) and q.dominated_by_any(b, some, cs.node) and q.dominated_by_any(b, unit_arm, cs.node),
             'a reply to an allowed request is written only for a configured unit id', '', cs.loc())
        if cs.is_(WIRE_WRITE):
            s = q.sem(b, cs.args[1])
            c.ob('post-auth-write/data', s.kind == 'call' and s.cs.is_(GET_REPLY) and s.checked, 'the bytes written are the checked result of get_reply', repr(s), cs.loc())
    c.floor('post-authorization wire writes', len(post), 1)
    # the deny reply is guarded (also C08)
    deny = q.outcomes(b, auth).get('Deny', [])
    for cs in wire:
        if any(b.reaches(d, cs.node) for d in deny) and not q.dominated_by_any(b, allow, cs.node):
            if q.dominated_by_any(b, deny, cs.node):
                c.ob('deny-reply/not-broadcast', q.dominated_by_any(b, edges['not'], cs.node), 'the deny reply is dominated by a not-broadcast test', '', cs.loc())


@rule('C17', 'R17.3', 'broadcast conversion: the four reads are dropped, the four writes map to themselves and execute the same-named handler method')
def r3(c):
    P = c.P
    b = P.fn(INTO_BC)
    c.saw(b, len(b.calls()))
    arms = q.arms_of(b, REQ)
    ex = q.exits(b)
    n = 0
    for v in REQUESTS:
        region = set()
        for e, reg in arms.get(v, []):
            region |= reg
        inarm = [x for x in ex if x['node'] in region]
        if v in READS:
            ok = bool(inarm) and all(x['kind'] == 'agg' and x['variant'] == 'None' for x in inarm)
            c.ob('into_broadcast/%s' % v, ok, 'Request::%s has no broadcast form (None)' % v, str([(x['kind'], x.get('variant')) for x in inarm]), loc_of(b))
        else:
            ok = bool(inarm) and all(x['kind'] == 'agg' and x['variant'] == 'Some' for x in inarm)
            inner = [s for i, s in q.aggs_in(b, region, BREQ)]
            ok = ok and len(inner) == 1 and inner[0]['rv']['variant'] == v
            if ok:
                s = q.sem(b, inner[0]['rv']['a'][0])
                ok = q.sem_is_name(b, s, 'self') and (':' + v) in ''.join(s.proj)
            c.ob('into_broadcast/%s' % v, ok, 'Request::%s becomes BroadcastRequest::%s with the same payload' % (v, v), '', loc_of(b))
        n += 1 if ok else 0
    c.exact('into_broadcast_request arms', n, 8)
    x = P.fn(EXECUTE)
    c.saw(x, len(x.calls()))
    arms = q.arms_of(x, BREQ)
    m = 0
    for v in WRITES:
        region = set()
        for e, reg in arms.get(v, []):
            region |= reg
        calls = [cs for cs in q.calls_in(x, region) if (cs.declared or '').startswith(RH)]
        ok = len(calls) == 1 and calls[0].declared == RH + HANDLER_METHOD[v] and not x.in_cycle(calls[0].node)
        if ok:
            s = q.sem(x, calls[0].args[1])
            ok = q.sem_is_name(x, s, 'self') and (':' + v) in ''.join(s.proj) and q.is_name(x, calls[0].args[0], 'handler')
        c.ob('execute/%s' % v, ok, 'BroadcastRequest::%s calls %s once with its payload' % (v, HANDLER_METHOD[v]), str([cs.declared for cs in calls]), loc_of(x))
        m += 1 if ok else 0
    c.exact('execute arms', m, 4)
    # no reply construction in execute: the result is discarded
    bad = [cs for cs in x.calls() if not (cs.declared or '').startswith(RH) and effects.get(P).of_call(cs)]
    c.ob('execute/no-other-effect', not bad, 'execute has no effect besides the handler call', str([cs.callee for cs in bad]), loc_of(x))


@rule('C17', 'R17.4', 'fan-out covers the whole handler map')
def r4(c):
    P = c.P
    b = P.fn(HITER)
    c.saw(b, len(b.calls()))
    ex = q.exits(b)
    ok = len(ex) == 1 and ex[0]['kind'] == 'call' and ex[0]['cs'].callee == 'alloc::collections::btree::map::BTreeMap::values_mut'
    if ok:
        s = q.sem(b, ex[0]['cs'].args[0])
        ok = q.sem_is_name(b, s, 'self') and any('handlers' in p for p in s.proj)
    c.ob('iter_mut', ok, 'ServerHandlerMap::iter_mut returns values_mut() of the whole map', str([(x['kind'], getattr(x.get('cs'), 'callee', None)) for x in ex]), loc_of(b))
    g = P.fn(HGET)
    ex = q.exits(g)
    ok = len(ex) == 1 and ex[0]['kind'] == 'call' and ex[0]['cs'].callee == 'alloc::collections::btree::map::BTreeMap::get_mut'
    if ok:
        ok = q.is_name(g, ex[0]['cs'].args[1], 'id')
    c.ob('get', ok, 'ServerHandlerMap::get looks up exactly the given id', '', loc_of(g))
    # the fan-out itself: execute runs for EVERY handler the iteration yields (no early exit, no skipped element)
    b = hf(c)
    NEXT = 'core::iter::traits::iterator::Iterator::next'
    sites = [cs for cs in P.callers(EXECUTE) if P.logical_name(cs.body) == P.logical_name(b)]
    inl = [cs for cs in sites if cs.body is b]
    if len(sites) == 1 and inl:
        ex_ = inl[0]
        cyc = b.cycle_of(ex_.node)
        nxs = [cs for cs in b.calls(NEXT) if cyc and cs.node in cyc and any(y[0] == 'call' and y[1] == HITER for y in b.op_closure(cs.args[0]))]
        okl = bool(cyc) and len(nxs) == 1
        why = 'execute is %sin a loop; %d iterator steps over handlers.iter_mut() in it' % ('' if cyc else 'not ', len(nxs))
        if okl:
            oc = q.outcomes(b, nxs[0])
            none, some = set(oc.get('None', [])), oc.get('Some', [])
            leaving = {s_ for n_ in cyc for s_ in b.succ[n_] if s_ not in cyc}
            leaving = {s_ for s_ in leaving if not all(t_[0] == 'b' and b.blocks[t_[1]]['term']['t'] == 'unreachable' for t_ in b.succ[s_])}
            every = bool(some) and all(nxs[0].node not in b.reach_set(e, avoid={ex_.node}) for e in some)
            okl = bool(none) and leaving <= none and every
            why = 'edges leaving the loop: %s (exhaustion edges %s); every yielded handler reaches execute: %s' % (sorted(leaving), sorted(none), every)
        c.ob('fan-out/every-handler', okl, 'the broadcast loop steps through handlers.iter_mut() and is left only when the iterator is exhausted; each element yielded is executed', why, ex_.loc())
    elif len(sites) == 1:
        # written with an iterator adapter: only `for_each` visits every element unconditionally
        cb = sites[0].body
        users = [cs for cs in b.calls() if any(y[0] == 'closure' and y[1] == cb.path for a in cs.args for y in b.op_closure(a))]
        okl = len(users) == 1 and users[0].declared == 'core::iter::traits::iterator::Iterator::for_each' and \
            any(y[0] == 'call' and y[1] == HITER for y in b.op_closure(users[0].args[0])) and not cb.in_cycle(sites[0].node) and \
            all(cb.dominates(sites[0].node, ('b', i)) for i in cb.return_blocks())
        c.ob('fan-out/every-handler', okl, 'the broadcast closure is driven by Iterator::for_each over handlers.iter_mut() (an adapter that can stop early -- all, any, try_for_each, find -- does not reach every unit) and always executes',
             str([u.declared for u in users]), sites[0].loc())
    else:
        c.ob('fan-out/every-handler', False, 'one broadcast execution site in handle_frame', '%d sites' % len(sites), loc_of(b))


@rule('C17', 'R17.5', 'Broadcast is produced only by the RTU parser for address 0; MBAP frames always carry a unit id',
      needs=lambda P: P.has('rodbus::serial::frame::RtuParser::parse'))
def r5(c):
    P = c.P
    RP = 'rodbus::serial::frame::RtuParser::parse'
    cons = P.constructors(FD, 'Broadcast', crate='rodbus')
    where = sorted({P.logical_name(b) for b, _, _ in cons})
    c.ob('constructors', where == [RP], 'FrameDestination::Broadcast is constructed only in RtuParser::parse', str(where))
    b = P.fn(RP)
    c.saw(b, len(b.calls()))
    bc = one(b.calls('rodbus::types::UnitId::broadcast'), 'UnitId::broadcast() in RtuParser::parse')
    # the comparison unit_id == UnitId::broadcast()
    eqs = [cs for cs in b.calls() if cs.declared in ('core::cmp::PartialEq::eq', 'core::cmp::PartialEq::ne') and
           any(q.sem(b, a).kind == 'call' and q.sem(b, a).cs is bc for a in cs.args)]
    eq = one(eqs, 'comparison with UnitId::broadcast()')
    be = q.bool_edges(b, eq)
    is_bc = be['true'] if eq.declared.endswith('::eq') else be['false']
    not_bc = be['false'] if eq.declared.endswith('::eq') else be['true']
    other = [a for a in eq.args if not (q.sem(b, a).kind == 'call' and q.sem(b, a).cs is bc)]
    s = q.sem(b, other[0]) if other else None
    okv = s is not None and s.kind == 'call' and s.cs.is_('rodbus::types::UnitId::new') and \
        q.sem(b, s.cs.args[0]).kind == 'call' and q.sem(b, s.cs.args[0]).cs.is_('rodbus::common::buffer::ReadBuffer::read_u8')
    c.ob('compared-value', okv, 'the value compared is UnitId::new(first byte of the frame)', repr(s), eq.loc())
    for bb, i, st in cons:
        if P.logical_name(bb) == RP:
            c.ob('broadcast-on-zero', q.dominated_by_any(b, is_bc, ('b', i)), 'Broadcast is built only on the unit_id == UnitId::broadcast() edge', '', loc_of(b, i, stmt=st))
    for bb, i, st in P.constructors(FD, 'UnitId', crate='rodbus'):
        if P.logical_name(bb) == RP:
            c.ob('unit-on-nonzero', q.dominated_by_any(b, not_bc, ('b', i)), 'UnitId(..) is built only on the != broadcast edge', '', loc_of(b, i, stmt=st))
    u = P.fn('rodbus::types::UnitId::broadcast')
    aggs = [s for _, s in u.aggregates('rodbus::types::UnitId')]
    okz = len(aggs) == 1 and aggs[0]['rv']['a'][0].get('val') == '0'
    if not aggs:
        # ... or through the constructor: UnitId::new(0), with new(value) = UnitId { value }
        nw = u.calls('rodbus::types::UnitId::new')
        nb_ = P.fn('rodbus::types::UnitId::new')
        na = [s for _, s in nb_.aggregates('rodbus::types::UnitId')]
        okz = len(nw) == 1 and q.const_val(u, nw[0].args[0]) == 0 and [x['kind'] for x in q.exits(u)] == ['call'] and len(na) == 1 and q.is_name(nb_, na[0]['rv']['a'][0], 'value')
    c.ob('broadcast-is-zero', okz, 'UnitId::broadcast() is unit id 0', str([a['rv']['a'][0].get('val') for a in aggs]), loc_of(u))
    # MBAP side
    mb = [P.logical_name(b2) for b2, _, _ in P.constructors(FD, None, crate='rodbus') if 'rodbus::tcp::' in b2.path]
    c.ob('mbap-no-broadcast', True, 'no FrameDestination::Broadcast in rodbus::tcp (covered by constructors)', str(mb))
    nh = P.fn('rodbus::common::frame::FrameHeader::new_tcp_header')
    ag = [s_ for _, s_ in nh.aggregates(FD)]
    okh = len(ag) == 1 and ag[0]['rv']['variant'] == 'UnitId' and q.is_name(nh, ag[0]['rv']['a'][0], 'unit_id')
    c.ob('new_tcp_header', okh, 'new_tcp_header always builds FrameDestination::UnitId(unit_id) itself (no conversion that could map unit 0 to Broadcast)', str([a['rv']['variant'] for a in ag]), loc_of(nh))
    v = P.fn('rodbus::common::frame::FrameDestination::value')
    arms = q.arms_of(v, FD)
    okb = False
    for e, reg in arms.get('Broadcast', []):
        okb = any(cs.is_('rodbus::types::UnitId::broadcast') for cs in q.calls_in(v, reg))
    c.ob('value/broadcast', okb, 'FrameDestination::Broadcast.value() is UnitId::broadcast().value', '', loc_of(v))


def unit_guard_edges(P, b):
    """edges of handle_frame on which the frame's destination is known to be served by this server:
    Some / is_some() of handlers.get(frame unit id), or the true edge of a bool helper that performs that lookup"""
    out = []
    for cs in b.calls(HGET):
        s = q.sem(b, cs.args[1])
        if q.sem_is_name(b, s, 'frame') and 'destination' in ''.join(s.proj):
            out += q.outcomes(b, cs).get('Some', [])
            for u in b.calls('core::option::Option::is_some'):
                su = q.sem(b, u.args[0])
                if su.kind == 'call' and su.cs is cs:
                    out += q.bool_edges(b, u)['true']
    for cs in b.calls():
        hb = None
        for n in cs.names():
            if P.has(n) and n.startswith('rodbus::server::'):
                hb = P.get(n)
        if hb is None or hb.sig_out != 'bool' or len(cs.args) < 2:
            continue
        inner = hb.calls(HGET)
        if not inner:
            continue
        # the helper looks up the unit id of ITS destination parameter, and only answers true for UnitId when found
        okh = all('destination' in q.closure_names(hb, i.args[1]) or any(p in q.closure_names(hb, i.args[1]) for p in ('unit_id', 'dest', 'id')) for i in inner)
        a = q.sem(b, cs.args[1])
        if okh and q.sem_is_name(b, a, 'frame') and 'destination' in ''.join(a.proj):
            out += q.bool_edges(b, cs)['true']
    return out


@rule('C17', 'R17.6', 'exception replies sent before the unit dispatch (unknown function, malformed request) go only to units this server serves')
def r6(c):
    P = c.P
    b = hf(c)
    E = effects.get(P)
    auth = one(b.calls(IS_AUTH), 'is_authorized')
    guards = unit_guard_edges(P, b)
    early = [cs for cs in b.calls() if not (q.is_tracing(cs) or q.is_fmt(cs) or q.is_machinery(cs)) and 'wire' in E.of_call(cs) and not b.dominates(auth.ret, cs.node)]
    c.floor('early exception replies', len(early), 2)
    n = {}
    for cs in early:
        nm = cs.callee.rsplit('::', 1)[-1]
        n[nm] = n.get(nm, 0) + 1
        c.ob('early-reply/%s#%d' % (nm, n[nm]), q.dominated_by_any(b, guards, cs.node), 'the reply is dominated by a successful lookup of the frame\'s unit id in the handler map',
             '%d guard edges' % len(guards), cs.loc(), kind='unit-served')
    # the helper itself: UnitId -> handlers.get(unit).is_some()
    for cs in b.calls():
        for nme in cs.names():
            hb = P.get(nme) if P.has(nme) else None
            if hb is not None and hb.sig_out == 'bool' and hb.calls(HGET) and nme.startswith('rodbus::server::task::'):
                arms = q.arms_of(hb, FD)
                reg = set()
                for e, r in arms.get('UnitId', []):
                    reg |= r
                g = [x for x in q.calls_in(hb, reg) if x.is_(HGET)]
                ok = len(g) == 1
                if ok:
                    s = q.sem(hb, g[0].args[1])
                    ok = ':UnitId' in ''.join(s.proj)
                    xs = q.exit_in(hb, reg)
                    ok = ok and bool(xs) and all(x['kind'] == 'call' and x['cs'].is_('core::option::Option::is_some') and q.sem(hb, x['cs'].args[0]).kind == 'call' and q.sem(hb, x['cs'].args[0]).cs is g[0] for x in xs)
                c.ob('helper/%s' % nme.rsplit('::', 1)[-1], ok, 'for a unit id the helper answers handlers.get(that unit id).is_some()', '', loc_of(hb))
