"""C15 — server sessions: bounded, oldest evicted, closed on shutdown (structural clauses; isolation over histories is NOT decided)."""
from core import rule, loc_of
from facts import AnchorLost, norm
import q, effects, inline
from tables import *
from rules.c08 import one

ST = 'rodbus::tcp::server::ServerTask'
TR = 'rodbus::tcp::server::SessionTracker'
SPAWN = 'tokio::task::spawn::spawn'
SC = 'rodbus::server::task::ServerCommand'


@rule('C15', 'R15.1', 'session limit: at the limit the oldest (lowest id) session is evicted before the new one is recorded')
def r1(c):
    P = c.P
    # get_next_id is a two-line private helper of add: look at add with it expanded
    b = inline.expand(P, P.fn(TR + '::add'), {TR + '::get_next_id'})
    c.saw(b, len(b.calls()))
    facts = q.cmp_facts(b)
    rm = one([cs for cs in b.calls() if cs.callee.endswith('BTreeMap::remove')], 'sessions.remove in add')
    ins = one([cs for cs in b.calls() if cs.callee.endswith('BTreeMap::insert')], 'sessions.insert in add')
    ln = [cs for cs in b.calls() if cs.callee.endswith('BTreeMap::len')]
    def is_len(o):
        s = q.sem(b, o)
        return s.kind == 'call' and s.cs in ln
    def is_max(o):
        s = q.sem(b, o)
        return q.sem_is_name(b, s, 'self') and bool(s.proj) and s.proj[-1].endswith(':max_sessions')
    c.ob('evict/at-limit', q.has_fact(b, rm.node, 'le', is_max, is_len, facts), 'eviction happens on the sessions.len() >= max_sessions edge', '', rm.loc())
    c.ob('evict/not-below', not q.has_fact(b, rm.node, 'lt', is_len, is_max, facts), 'and not below the limit', '', rm.loc())
    skip = [f for f in facts if f[1] == 'lt' and is_len(f[2]) and is_max(f[3])]
    c.ob('evict/exactly-at-limit', len(skip) == 1, 'eviction is skipped only on the strict sessions.len() < max_sessions edge (at len == max the oldest goes)', '%d strict facts' % len(skip), rm.loc())
    k = q.sem(b, rm.args[1])
    keys = [cs for cs in b.calls() if cs.callee.endswith('BTreeMap::keys')]
    cl = b.op_closure(rm.args[1])
    nx = [cs for cs in b.calls() if cs.declared == 'core::iter::traits::iterator::Iterator::next']
    okk = len(keys) == 1 and len(nx) == 1 and any(x[0] == 'call' and x[2] == nx[0].block for x in cl) and any(x[0] == 'call' and x[2] == keys[0].block for x in b.op_closure(nx[0].args[0]))
    # or BTreeMap::first_key_value(), the smallest key by definition
    fkv = [cs for cs in b.calls() if cs.callee.endswith('BTreeMap::first_key_value')]
    if not okk and len(fkv) == 1 and not keys:
        okk = any(x[0] == 'call' and x[2] == fkv[0].block for x in cl)
    back = [cs for cs in b.calls() if cs.callee.endswith('::next_back') or cs.callee.endswith('::last') or cs.callee.endswith('::rev') or cs.callee.endswith('::max') or cs.callee.endswith('::last_key_value') or cs.callee.endswith('::pop_last')]
    c.ob('evict/oldest', okk and not back, 'the key removed is the FIRST key of the ordered map (the lowest, i.e. oldest id)', '', rm.loc())
    c.ob('evict/before-insert', b.reaches(rm.ret, ins.node) and not b.reaches(ins.ret, rm.node), 'the new session is recorded after the eviction', '', ins.loc())
    # fresh id: the key inserted is self.id as it was before the one increment of this call
    st = [(i, s_) for i, s_ in b.assigns() if s_['pl']['p'] and s_['pl']['p'][-1].endswith(':id')]
    okg = len(st) == 1
    if okg:
        v = q.sem(b, st[0][1]['rv']['a'][0]) if st[0][1]['rv']['r'] == 'use' else None
        okg = v is not None and v.kind == 'bin' and v.extra[1].startswith('Add') and q.const_val(b, v.extra[3]) == 1 and \
            q.sem_is_name(b, q.sem(b, v.extra[2]), 'self') and q.sem(b, v.extra[2]).proj[-1].endswith(':id') and not b.in_cycle(('b', st[0][0]))
    c.ob('ids/monotone', okg, 'ids grow by exactly one per accepted connection', '%d stores to id' % len(st), loc_of(b))
    oki = False
    if okg and ins.args[1].get('k') in ('copy', 'move'):
        # follow the key operand back to the read of self.id; that read must come before the store
        cur = ins.args[1]['pl']
        guard = 0
        rd = None
        while guard < 10 and not cur['p']:
            guard += 1
            ds = b.whole_defs(cur['l'])
            if len(ds) != 1 or ds[0][0] != 'assign' or ds[0][2]['rv']['r'] != 'use' or ds[0][2]['rv']['a'][0].get('k') not in ('copy', 'move'):
                break
            src = ds[0][2]['rv']['a'][0]['pl']
            if src['p'] and src['p'][-1].endswith(':id'):
                rd = (ds[0][1], ds[0][2])
                break
            cur = src
        if rd is not None:
            i1, s1 = st[0]
            oki = (rd[0] != i1 and b.dominates(('b', rd[0]), ('b', i1))) or (rd[0] == i1 and b.blocks[i1]['stmts'].index(rd[1]) < b.blocks[i1]['stmts'].index(s1))
    ki = q.sem(b, ins.args[1])
    c.ob('insert/fresh-id', oki and q.is_name(b, ins.args[2], 'sender'), 'the new session is stored under the id read before the increment (never reused), with the given sender', repr(ki), ins.loc())
    c.ob('insert/always', b.dominates(ins.node, ('b', b.return_blocks()[0])) and not b.in_cycle(ins.node), 'every accepted connection is recorded exactly once', '', ins.loc())
    a = P.adt(TR)
    ty = {f['name']: f['ty'] for v in a['variants'] for f in v['fields']}
    c.ob('ordered-map', ty.get('sessions', '').startswith('alloc::collections::btree::map::BTreeMap<u128'), 'sessions are kept in a map ordered by id', ty.get('sessions', '')[:60])
    n = P.fn(TR + '::new')
    facts = q.cmp_facts(n)
    ag = [s for _, s in n.aggregates(TR)]
    okn = len(ag) == 1
    if okn:
        ms = ag[0]['rv']['a'][ag[0]['rv']['fields'].index('max_sessions')]
        cl = n.op_closure(ms)
        okn = ('c', '1') in cl or any(x[0] == 'c' and str(x[1]) == '1' for x in cl)
        okn = okn and 'max_sessions' in q.closure_names(n, ms)
        z = [f for f in facts if f[1] == 'eq' and q.const_val(n, f[3]) == 0 or (f[1] == 'eq' and q.const_val(n, f[2]) == 0)]
        okn = okn and bool(z)
    c.ob('zero-means-one', okn, 'max_sessions == 0 is treated as 1', '', loc_of(n))


@rule('C15', 'R15.2', 'every session is tracked: the command channel whose sender the tracker holds is the one the session listens to')
def r2(c):
    P = c.P
    b = P.fn(ST + '::handle')
    c.saw(b, len(b.calls()))
    ch = one(b.calls('tokio::sync::mpsc::bounded::channel'), 'mpsc::channel in handle')
    add = one(b.calls(TR + '::add'), 'tracker.add')
    sp = one(b.calls(SPAWN), 'tokio::spawn')
    tx = q.sem(b, add.args[1])
    c.ob('tracked-sender', tx.kind == 'call' and tx.cs is ch and 'field:0' in ''.join(tx.proj), 'tracker.add receives the sender half of the fresh channel', repr(tx), add.loc())
    c.ob('add-before-spawn', b.dominates(add.ret, sp.node), 'the session is recorded before it is spawned', '', sp.loc())
    # the task spawned runs run_session with the receiver half
    RS_ = 'rodbus::tcp::server::run_session'
    inner = [x for x in P.nested(ST + '::handle') if x is not b and x.path != b.path and x.calls(RS_)]
    direct = b.calls(RS_)
    ok = False
    if len(inner) == 1 and not direct:
        # an async block of handle() calls it: the receiver is one of the block's captured variables
        ib = inner[0]
        rs = one(ib.calls(RS_), 'run_session')
        bundled = len(rs.args) <= 5       # the session's belongings travel as one value (a parameter object) in args[0]
        ok = bool(rs.args)
        a = q.sem(ib, rs.args[0 if bundled else 5]) if ok else None
        ok = ok and a.kind == 'place' and a.local == 1      # an upvar of the async block
        # which upvar: match with the aggregate that builds the async block in handle
        ag = [s for i, s in b.assigns() if s['rv']['r'] == 'agg' and norm(s['rv'].get('coroutine', '')) == ib.path]
        ok = ok and len(ag) == 1
        if ok:
            idx = [int(p.split(':')[1]) for p in a.proj if p.startswith('field:')]
            ok = bool(idx) and idx[0] < len(ag[0]['rv']['a'])
            if ok:
                up = q.sem(b, ag[0]['rv']['a'][idx[0]])
                if bundled:
                    ok = up.kind == 'agg' and isinstance(up.extra, dict) and 'commands' in up.extra.get('fields', [])
                    if ok:
                        up = q.sem(b, up.extra['a'][up.extra['fields'].index('commands')])
                ok = ok and up.kind == 'call' and up.cs is ch and 'field:1' in ''.join(up.proj)
        nc = [cs for cs in ib.calls('tokio::sync::mpsc::bounded::Sender::send') if q.agg_variant_of(ib, cs.args[1]) or True]
        sclose = [s for i, s in ib.assigns() if s['rv']['r'] == 'agg' and s['rv'].get('adt', '').endswith('SessionClose')]
        c.ob('close-notified', len(nc) == 1 and len(sclose) == 1 and ib.dominates(rs.ret, nc[0].node), 'when run_session returns, SessionClose(id) is sent back to the server task', '', loc_of(ib))
    elif len(direct) == 1 and not inner:
        # handle() bundles what the session owns into a value and spawns its run method: the receiver is the `commands` field
        rs = direct[0]
        sv = q.sem(b, rs.args[0]) if rs.args else None
        if sv is not None and sv.kind == 'agg' and isinstance(sv.extra, dict) and 'commands' in sv.extra.get('fields', []):
            up = q.sem(b, sv.extra['a'][sv.extra['fields'].index('commands')])
            ok = up.kind == 'call' and up.cs is ch and 'field:1' in ''.join(up.proj)
        rb = P.fn(RS_)
        sends = [cs for cs in rb.calls('tokio::sync::mpsc::bounded::Sender::send') if (q.agg_variant_of(rb, cs.args[1]) or ('', ''))[0].endswith('SessionClose') or
                 (q.sem(rb, cs.args[1]).kind == 'agg' and str(q.sem(rb, cs.args[1]).extra.get('adt', '')).endswith('SessionClose'))]
        okc = bool(sends) and q.always_passes(rb, rb.entry, {x.node for x in sends})[0]
        c.ob('close-notified', okc, 'however the session ends, SessionClose(id) is sent back to the server task before its task finishes', '%d sends' % len(sends), loc_of(rb))
        sp_arg = b.op_closure(sp.args[0])
        ok = ok and any(x[0] == 'call' and x[2] == rs.block for x in sp_arg)
    c.ob('session-receiver', ok, 'the spawned session runs run_session with the receiver half of that same channel', '', loc_of(b))
    rsb = P.fn('rodbus::tcp::server::run_session')
    st = one(rsb.calls('rodbus::server::task::SessionTask::new'), 'SessionTask::new')
    c.ob('session-commands', q.is_name(rsb, st.args[4], 'commands') and q.is_name(rsb, st.args[0], 'handlers'), 'run_session gives that receiver (and the handler map) to the SessionTask', '', st.loc())
    callers = sorted({P.logical_name(cs.body) for cs in P.callers('rodbus::tcp::server::run_session')})
    c.ob('run_session/callers', callers == [ST + '::handle'], 'sessions are started only by handle()', str(callers))
    users = sorted({P.logical_name(cs.body) for cs in P.callers(TR + '::add')})
    c.ob('add/callers', users == [ST + '::handle'], 'tracker.add is called only by handle()', str(users))


@rule('C15', 'R15.3', 'server loop: shutdown, dropped handle and accept errors end the loop (dropping tracker and listener); closed sessions are forgotten')
def r3(c):
    P = c.P
    b = P.fn(ST + '::run')
    c.saw(b, len(b.calls()))
    sel = q.select_sites(b)
    ok = len(sel) == 1 and len(sel[0]['futures']) == 3
    c.ob('select', ok, 'the server loop races commands, session-close notifications and accept()', str([[f.callee if f else None for f in s['futures']] for s in sel]), loc_of(b))
    cmd = [cs for cs in b.calls('tokio::sync::mpsc::bounded::Receiver::recv') if q.is_name(b, cs.args[0], 'commands')]
    cmd = one(cmd, 'commands.recv')
    acc = one([cs for cs in b.calls() if cs.callee.endswith('TcpListener::accept')], 'accept')
    loop_nodes = b.cycle_of(cmd.node) or set()
    rets = {('b', i) for i in b.return_blocks()}

    def leaves(e):
        """from this edge the task function returns (not merely: never comes back - a panic arm does that too)"""
        rs = b.reach_set(e)
        return not (rs & {cmd.node, acc.node}) and bool(rs & rets)
    none = q.outcomes(b, cmd).get('None', [])
    c.ob('handle-dropped', len(none) == 1 and leaves(none[0]), 'a dropped handle (None) leaves the loop: the task ends, dropping the tracker (all session senders) and the listener', '', cmd.loc())
    sd = [e for e, v, info in b.variant_edges(SC) if v == 'Shutdown' and q.sem(b, info['place']).kind == 'call' and q.sem(b, info['place']).cs is cmd]
    c.ob('shutdown-command', len(sd) == 1 and leaves(sd[0]), 'ServerCommand::Shutdown leaves the loop', str(sd), cmd.loc())
    oc_acc = q.outcomes(b, acc)
    ae = oc_acc.get('Err', [])
    # wherever the error is first noticed (a match arm, `inspect_err`, let-else): from there the loop is left
    first = [e for e in ae if not any(o is not e and e in b.reach_set(o) for o in ae)]
    def leaves_acc(e):
        rs = q.reach_from_outcome(b, acc, e, oc_acc)
        return not (rs & {cmd.node, acc.node}) and bool(rs & rets)
    c.ob('accept-error', len(first) == 1 and leaves_acc(first[0]), 'an accept error leaves the loop', '%d Err edges' % len(ae), acc.loc())
    rm = one(b.calls(TR + '::remove'), 'tracker.remove')
    cl = b.op_closure(rm.args[1])
    rx = [cs for cs in b.calls('tokio::sync::mpsc::bounded::Receiver::recv') if cs is not cmd]
    c.ob('session-close', len(rx) == 1 and any(x[0] == 'call' and x[2] == rx[0].block for x in cl), 'a SessionClose(id) notification removes exactly that id from the tracker', '', rm.loc())
    rmf = P.fn(TR + '::remove')
    r2_ = one([cs for cs in rmf.calls() if cs.callee.endswith('BTreeMap::remove')], 'BTreeMap::remove')
    c.ob('remove', 'id' in q.closure_names(rmf, r2_.args[1]), 'SessionTracker::remove removes the given id', '', loc_of(rmf))
    # other commands are applied, then the loop continues
    ac = one(b.calls(ST + '::apply_command'), 'apply_command')
    c.ob('other-commands', b.in_cycle(ac.node), 'any other command is applied and the server keeps running', '', ac.loc())
    apc = P.fn(ST + '::apply_command')
    snd = [cs for cs in apc.calls('tokio::sync::mpsc::bounded::Sender::send')]
    okf = len(snd) == 1 and apc.in_cycle(snd[0].node) and not q.outcomes(apc, snd[0]).get('failure') and not q.outcomes(apc, snd[0]).get('Err')
    c.ob('forward/best-effort', okf, 'a decode-level change is forwarded to every session; a session that is already gone does not stop the server (result ignored)', '%d sends' % len(snd), loc_of(apc))
    # the tracker and listener are owned by the task: ending the task drops them
    a = P.adt(ST)
    ty = {f['name']: f['ty'] for v in a['variants'] for f in v['fields']}
    c.ob('owned', ty.get('tracker', '').endswith('SessionTracker') and 'TcpListener' in ty.get('listener', ''), 'tracker and listener are fields of the task (dropped with it)', '')


APPLY = 'rodbus::server::task::SessionTask::apply_command'


def command_arms(c, ro):
    """in run_one (seen with the command handler expanded): the edges on which the command received is Shutdown /
    ChangeDecoding.  Returns {variant: [edges]}"""
    out = {}
    for e, v, info in ro.variant_edges(SC):
        if v:
            out.setdefault(v, []).append(e)
    return out


def exits_from(body, edges):
    """[(exit, class)] for the exits reachable from the given edges"""
    exs = q.exits(body)
    out = []
    for e in edges:
        rs = body.reach_set(e) | {e}
        for x in exs:
            if x['node'] in rs:
                out.append((x, q.exit_class_from(body, e, x)))
    return out


@rule('C15', 'R15.4', 'session side: a closed command channel or a Shutdown command ends the session')
def r4(c):
    P = c.P
    # the command handler (apply_command) is a few-line private helper: run_one is looked at with it expanded, so that the
    # same obligations hold however the handling is cut into functions
    ro = inline.expand(P, P.fn('rodbus::server::task::SessionTask::run_one'), {APPLY})
    c.saw(ro, len(ro.calls()))
    rc = one(ro.calls('tokio::sync::mpsc::bounded::Receiver::recv'), 'commands.recv')
    r = q.sem(ro, rc.args[0])
    c.ob('listens', q.sem_is_name(ro, r, 'self') and any('commands' in p for p in r.proj), 'the session listens to its own command receiver while waiting for frames', repr(r), rc.loc())
    sel = q.select_sites(ro)
    c.ob('raced', len(sel) == 1 and rc in sel[0]['futures'] and any(f is not None and f.callee.endswith('next_frame') for f in sel[0]['futures']), 'commands are raced with next_frame', '', loc_of(ro))
    okn, how, why = q.failure_leaves(ro, rc)
    c.ob('closed->shutdown', okn, 'a closed command channel (evicted / server gone) makes run_one return an error', '%s: %s' % (how, why), rc.loc())
    arms = command_arms(c, ro)
    for v, want in (('Shutdown', 'failure'), ('ChangeDecoding', 'success')):
        xs = exits_from(ro, arms.get(v, []))
        c.ob('command/%s' % v, bool(xs) and all(cl == want for _, cl in xs),
             'ServerCommand::%s makes run_one return %s' % (v, 'an error (the session ends)' if want == 'failure' else 'Ok (the session goes on)'),
             '%d arms, exits %s' % (len(arms.get(v, [])), [(x['kind'], cl) for x, cl in xs]), rc.loc())
    run = P.fn('rodbus::server::task::SessionTask::run')
    r1_ = one(run.calls('rodbus::server::task::SessionTask::run_one'), 'run_one')
    e = q.outcomes(run, r1_).get('Err', [])
    c.ob('run/ends', len(e) == 1 and r1_.node not in run.reach_set(e[0]) and bool(run.reach_set(e[0]) & {('b', i_) for i_ in run.return_blocks()}), 'SessionTask::run returns on the first error', '', r1_.loc())


@rule('C15', 'R15.5', 'per-session state: framing objects and the physical layer belong to one session')
def r5(c):
    P = c.P
    rs = P.fn('rodbus::tcp::server::run_session')
    c.ob('fresh-framing', len(rs.calls('rodbus::common::frame::FrameWriter::tcp')) == 1 and len(rs.calls('rodbus::common::frame::FramedReader::tcp')) == 1, 'each session builds its own FrameWriter and FramedReader', '', loc_of(rs))
    o = P.outer('rodbus::tcp::server::run_session')
    own = [t for t in (o.sig_in or []) if 'TcpStream' in t]
    if not own and o.sig_in and not o.sig_in[0].startswith('&'):
        # ... or it owns, by value, a parameter object that owns the socket
        t0 = norm(__import__('re').sub(r'<.*$', '', o.sig_in[0]))
        a0 = P.adts.get(t0)
        if a0 is not None and len(a0['variants']) == 1:
            own = [f['ty'] for f in a0['variants'][0]['fields'] if 'TcpStream' in f['ty']]
    c.ob('socket-owned', len(own) == 1 and not own[0].startswith('&'), 'run_session owns its socket by value (closed when the session ends)', str(o.sig_in[:2]), loc_of(o))
    hb = P.fn(ST + '::handle')
    cl = [cs for cs in hb.calls('core::clone::Clone::clone')]
    c.ob('handlers-cloned', any('ServerHandlerMap' in cs.gargs or 'ServerHandlerMap' in (cs.resolved or '') for cs in cl), 'each session gets its own clone of the handler map (shared handlers are behind their own mutexes)', '', loc_of(hb))
