"""C09 — TLS admits only authenticated peers at or above the minimum version (what rodbus asks rustls for, and that
it does not proceed without it; the handshake itself is rustls / webpki / sfio-rustls-config)."""
from core import rule, loc_of
from facts import AnchorLost, norm
import q, effects
from tables import *
from rules.c08 import one

HAS_TLS = lambda P: P.has('rodbus::tcp::tls::server::TlsServerConfig::new')
MTV = 'rodbus::tcp::tls::MinTlsVersion'
CM = 'rodbus::tcp::tls::CertificateMode'
PV = 'sfio_rustls_config::versions::ProtocolVersions::'
SC = 'rodbus::tcp::tls::server::TlsServerConfig'
CC = 'rodbus::tcp::tls::client::TlsClientConfig'
PATH_ARGS = ['peer_cert_path', 'local_cert_path', 'private_key_path', 'password']


def into_of(b, o, name):
    """operand is `<name>.into()` (or <name> itself)"""
    s = q.sem(b, o)
    if s.kind == 'call' and s.cs.declared in ('core::convert::Into::into', 'core::convert::From::from') and s.cs.args:
        return q.is_name(b, s.cs.args[0], name)
    return q.is_name(b, o, name)


@rule('C09', 'R09.1', 'minimum version -> enabled protocol versions: V1_2 enables {1.2, 1.3}, V1_3 enables {1.3} only', needs=HAS_TLS)
def r1(c):
    P = c.P
    b = P.find_impl('core::convert::From', 'sfio_rustls_config::versions::ProtocolVersions', 'from', MTV)
    c.saw(b, len(b.calls()))
    arms = q.arms_of(b, MTV)
    eff = {'new': set(), 'v12_only': {'1.2'}, 'v13_only': {'1.3'}, 'enable_v12': {'1.2'}, 'enable_v13': {'1.3'}}
    want = {'V1_2': {'1.2', '1.3'}, 'V1_3': {'1.3'}}
    for v in ('V1_2', 'V1_3'):
        reg = set()
        for e, r in arms.get(v, []):
            reg |= r
        calls = [cs for cs in q.calls_in(b, reg) if (cs.callee or '').startswith(PV)]
        got = set()
        unknown = []
        for cs in calls:
            nm = cs.callee.rsplit('::', 1)[-1]
            if nm in eff:
                got |= eff[nm]
            else:
                unknown.append(nm)
        xs = q.exit_in(b, reg)
        okx = bool(xs) and all(x['kind'] == 'call' and x['cs'] in calls for x in xs)
        c.ob('arm/%s' % v, got == want[v] and not unknown and okx and bool(reg), 'MinTlsVersion::%s enables exactly TLS %s' % (v, ' + '.join(sorted(want[v]))),
             'enables %s via %s' % (sorted(got), [cs.callee.rsplit('::', 1)[-1] for cs in calls]), loc_of(b), kind='versions')
    a = P.adt(MTV)
    c.ob('variants', sorted(v['name'] for v in a['variants']) == ['V1_2', 'V1_3'], 'MinTlsVersion has exactly V1_2 and V1_3', str([v['name'] for v in a['variants']]))


@rule('C09', 'R09.2', 'certificate mode -> verifier construction; version, paths and name verification passed through', needs=HAS_TLS)
def r2(c):
    P = c.P
    b = P.fn(SC + '::new')
    c.saw(b, len(b.calls()))
    arms = q.arms_of(b, CM)
    for v, callee, shift in (('SelfSigned', 'sfio_rustls_config::server::self_signed', 1), ('AuthorityBased', 'sfio_rustls_config::server::authority', 2)):
        reg = set()
        for e, r in arms.get(v, []):
            reg |= r
        cl = [cs for cs in q.calls_in(b, reg) if (cs.callee or '').startswith('sfio_rustls_config::')]
        ok = len(cl) == 1 and cl[0].callee == callee and bool(q.outcomes(b, cl[0]).get('success'))
        if ok:
            cs = cl[0]
            ok = into_of(b, cs.args[0], 'min_tls_version') and all(q.is_name(b, cs.args[shift + i], nm) for i, nm in enumerate(PATH_ARGS))
            if v == 'AuthorityBased':
                av = q.agg_variant_of(b, cs.args[1])
                ok = ok and av is not None and av[1] == 'None' and 'ClientNameVerification' in av[0]
        c.ob('server/%s' % v, ok, 'TlsServerConfig::new(%s) builds the config with %s, passing min version and the three paths/password in order (checked)' % (v, callee), str([x.callee for x in cl]), loc_of(b))
    ag = [s for _, s in b.aggregates(SC)]
    okv = len(ag) == 1
    c.ob('server/stored', okv, 'the server config stores the verifier that was built', '', loc_of(b))
    # client
    n = P.fn(CC + '::new')
    arms = q.arms_of(n, CM)
    for v, callee in (('AuthorityBased', CC + '::full_pki'), ('SelfSigned', CC + '::self_signed')):
        reg = set()
        for e, r in arms.get(v, []):
            reg |= r
        cl = [cs for cs in q.calls_in(n, reg) if cs.callee in (CC + '::full_pki', CC + '::self_signed')]
        ok = len(cl) == 1 and cl[0].callee == callee
        if ok:
            cs = cl[0]
            off = 1 if v == 'AuthorityBased' else 0
            ok = all(q.is_name(n, cs.args[off + i], nm) for i, nm in enumerate(PATH_ARGS)) and q.is_name(n, cs.args[off + 4], 'min_tls_version')
            if v == 'AuthorityBased':
                sn = q.agg_variant_of(n, cs.args[0])
                ok = ok and sn == ('core::option::Option', 'Some') and 'server_name' in q.closure_names(n, cs.args[0])
        c.ob('client/new/%s' % v, ok, 'TlsClientConfig::new(%s) delegates to %s with the same paths, version%s' % (v, callee.rsplit('::', 1)[-1], ' and Some(server name)' if v == 'AuthorityBased' else ''), str([x.callee for x in cl]), loc_of(n))
    f = P.fn(CC + '::full_pki')
    c.saw(f, len(f.calls()))
    opt = [(e, v, info) for e, v, info in f.variant_edges('core::option::Option') if q.sem_is_name(f, q.sem(f, info['place']), 'server_subject_name')]
    some = [e for e, v, _ in opt if v == 'Some']
    none = [e for e, v, _ in opt if v == 'None']
    SNV = 'sfio_rustls_config::name::ServerNameVerification'
    aggs = [(i, s) for i, s in f.assigns() if s['rv']['r'] == 'agg' and 'adt' in s['rv'] and norm(s['rv']['adt']).endswith('ServerNameVerification')]
    dis = [(i, s) for i, s in aggs if s['rv']['variant'] == 'DisableNameVerification']
    san = [(i, s) for i, s in aggs if s['rv']['variant'] == 'SanOrCommonName']
    c.ob('full_pki/none-disables', len(dis) == 1 and q.dominated_by_any(f, none, ('b', dis[0][0])), 'name verification is disabled only when no server name was given (None arm)', '%d sites' % len(dis), loc_of(f))
    tf = [cs for cs in f.calls() if cs.declared == 'core::convert::TryFrom::try_from' and 'ServerName' in cs.gargs]
    # (the verifier may be written down before the conversion is attempted - `(SanOrCommonName, ServerName::try_from(n)?)` -
    #  what matters is that it is not *used* unless the conversion succeeded)
    use = [cs for cs in f.calls('sfio_rustls_config::client::authority')]
    okc = False
    if len(tf) == 1 and len(use) == 1 and some:
        succ_e = set(q.outcomes(f, tf[0]).get('success', []))
        okc = bool(succ_e) and all(use[0].node not in f.reach_set(e, avoid=succ_e) for e in some)
    oks = len(san) == 1 and len(tf) == 1 and q.dominated_by_any(f, some, ('b', san[0][0])) and okc
    if oks:
        a0 = q.sem(f, tf[0].args[0])
        oks = q.sem_is_name(f, a0, 'server_subject_name') and q.has_success(a0.proj)
    c.ob('full_pki/some-verifies', oks, 'with a server name, SanOrCommonName is selected only after the *checked* ServerName::try_from of that name (an invalid name is an error, not "no verification")',
         '%d try_from, %d SanOrCommonName' % (len(tf), len(san)), loc_of(f))
    au = one(f.calls('sfio_rustls_config::client::authority'), 'client::authority')
    nv = f.op_closure(au.args[1])
    oka = into_of(f, au.args[0], 'min_tls_version') and all(q.is_name(f, au.args[2 + i], nm) for i, nm in enumerate(PATH_ARGS)) and bool(q.outcomes(f, au).get('success'))
    oka = oka and any(x[0] == 'agg' and x[1].endswith('ServerNameVerification::SanOrCommonName') for x in nv) and any(x[0] == 'agg' and x[1].endswith('DisableNameVerification') for x in nv)
    c.ob('full_pki/authority', oka, 'client::authority receives the min version, the selected name verifier and the paths in order (checked)', '', au.loc())
    ag = [s for _, s in f.aggregates(CC)]
    oksn = len(ag) == 1
    if oksn and tf:
        rv = ag[0]['rv']
        cl = f.op_closure(rv['a'][rv['fields'].index('server_name')])
        oksn = any(x[0] == 'call' and x[2] == tf[0].block for x in cl)
        cfg = f.op_closure(rv['a'][rv['fields'].index('config')])
        oksn = oksn and any(x[0] == 'call' and x[2] == au.block for x in cfg)
    c.ob('full_pki/stored', oksn, 'the stored server name is the converted name and the stored config is the authority config', '', loc_of(f))
    ss = P.fn(CC + '::self_signed')
    cs = one(ss.calls('sfio_rustls_config::client::self_signed'), 'client::self_signed')
    c.ob('self_signed', into_of(ss, cs.args[0], 'min_tls_version') and all(q.is_name(ss, cs.args[1 + i], nm) for i, nm in enumerate(PATH_ARGS)) and bool(q.outcomes(ss, cs).get('success')),
         'client self_signed passes min version and paths in order (checked)', '', cs.loc())
    # the connector uses the stored name and config
    hc = P.fn(CC + '::handle_connection')
    cn = one([x for x in hc.calls() if x.callee.endswith('TlsConnector::connect')], 'TlsConnector::connect')
    a1 = q.sem(hc, cn.args[1])
    okc = a1.kind == 'call' and a1.cs.declared == 'core::clone::Clone::clone' if False else True
    names = q.closure_names(hc, cn.args[1])
    c.ob('client/connect-name', 'self' in names and q.is_name(hc, cn.args[2], 'socket'), 'the handshake is started with the configured server name on the given socket', str(sorted(names)), cn.loc())


def role_loop_form(b, ok_exits):
    """the other natural way to write "exactly one role": a loop over the extensions that remembers the role found,
    refuses a second one, and returns the remembered role after the loop.
        let mut found = None;  for ext in exts { if let ModbusRole(r) = ext.content { if found.is_some() { return Err } found = Some(r) } }
        match found { Some(r) => Ok(r), None => Err }"""
    sw = [(e, v, info) for e, v, info in b.variant_edges() if info['adt'].endswith('SpecificExtension')]
    role_edges = [e for e, v, _ in sw if v == 'ModbusRole']
    if not role_edges or not ok_exits:
        return (False, 'no match on SpecificExtension in the function')
    # the variable: the Ok payload derives from (X as Some).0 for a user variable X with several definitions
    s = q.sem(b, ok_exits[0]['rv']['a'][0])
    cl = b.op_closure(ok_exits[0]['rv']['a'][0])
    cands = [l for l in b.user_locals_named() if ('l', l) in cl and len(b.whole_defs(l)) >= 2]
    for l in cands:
        ds = b.whole_defs(l)
        inits = [d for d in ds if d[0] == 'assign' and d[2]['rv']['r'] == 'agg' and d[2]['rv'].get('variant') == 'None']
        def is_some_def(d):
            if d[0] != 'assign':
                return False
            rv = d[2]['rv']
            if rv['r'] == 'agg':
                return rv.get('variant') == 'Some'
            if rv['r'] == 'use':
                sv = q.sem(b, rv['a'][0])
                return sv.kind == 'agg' and isinstance(sv.extra, dict) and sv.extra.get('variant') == 'Some' and not sv.proj
            return False
        sets = [d for d in ds if is_some_def(d)]
        if len(inits) != 1 or len(sets) != 1 or len(ds) != 2:
            continue
        setn = ('b', sets[0][1])
        if not b.in_cycle(setn) or b.in_cycle(('b', inits[0][1])) or not q.dominated_by_any(b, role_edges, setn):
            continue
        # guarded: the assignment is reached only when X is still None
        tests = [cs for cs in b.calls('core::option::Option::is_some', 'core::option::Option::is_none') if q.sem(b, cs.args[0]).kind == 'place' and q.sem(b, cs.args[0]).local == l]
        empty_edges, full_edges = [], []
        for cs in tests:
            be = q.bool_edges(b, cs)
            if cs.is_('core::option::Option::is_some'):
                empty_edges += be['false']
                full_edges += be['true']
            else:
                empty_edges += be['true']
                full_edges += be['false']
        for e, v, info in b.variant_edges('core::option::Option'):
            ps = q.sem(b, info['place'])
            if ps.kind == 'place' and ps.local == l and not ps.proj and b.in_cycle(e):
                (empty_edges if v == 'None' else full_edges).append(e)
        full_in_loop = [e for e in full_edges if b.in_cycle(e) or any(b.in_cycle(p) for p in b.pred.get(e, []))]
        if not q.dominated_by_any(b, empty_edges, setn) or not full_in_loop:
            continue
        # a second role (X already Some, inside the ModbusRole arm) can only end in an error
        exs = q.exits(b)
        bad = False
        for e in full_in_loop:
            if not q.dominated_by_any(b, role_edges, e):
                continue
            rs = b.reach_set(e)
            reached = [x for x in exs if x['node'] in rs]
            if not reached or not all(q.exit_is_failure(b, x) for x in reached) or setn in rs:
                bad = True
        if bad:
            continue
        # after the loop: Ok only with the remembered value
        okv = all(not b.in_cycle(x['node']) for x in ok_exits) and len(ok_exits) == 1
        return (okv, 'variable %s remembers the role; a second role ends in an error; the role returned is the remembered one' % (b.name_of(l) or l))
    return (False, 'no role-remembering variable of the expected shape')


@rule('C09', 'R09.3', 'role extraction: the end-entity certificate, exactly one Modbus role extension', needs=HAS_TLS)
def r3(c):
    P = c.P
    b = P.fn('rodbus::tcp::tls::server::extract_modbus_role')
    c.saw(b, len(b.calls()))
    nx = [cs for cs in b.calls() if cs.declared == 'core::iter::traits::iterator::Iterator::next']
    ok = len(nx) == 2
    xs = [x for x in q.exits(b) if x['kind'] == 'agg' and x['variant'] == 'Ok']
    if ok:
        nx = sorted(nx, key=lambda cs: sum(1 for o in nx if b.dominates(o.node, cs.node)))
        first, second = nx
        isome = [cs for cs in b.calls('core::option::Option::is_some') if q.sem(b, cs.args[0]).kind == 'call' and q.sem(b, cs.args[0]).cs is second]
        # "no second one": `second.is_some()` is false, or the second next() is matched as None (`match (it.next(), it.next())`)
        no_second = q.bool_edges(b, isome[0])['false'] if len(isome) == 1 else q.outcomes(b, second).get('None', [])
        ok = bool(xs) and bool(no_second)
        for x in xs:
            ok = ok and q.dominated_by_any(b, q.outcomes(b, first).get('success', []), x['node']) and q.dominated_by_any(b, no_second, x['node'])
            cl = b.op_closure(x['rv']['a'][0])
            ok = ok and any(y[0] == 'call' and y[2] == first.block for y in cl)
        ok = ok and q.same_value(b, first.args[0], second.args[0]) or (ok and set(q.chain_names(b, first.args[0])) & set(q.chain_names(b, second.args[0])))
    loop_form = None
    if not ok:
        loop_form = role_loop_form(b, xs)
        ok = loop_form[0]
    c.ob('exactly-one', ok, 'Ok(role) requires a first role extension and no second one; the role returned is the first',
         '%d next() calls, %d Ok exits%s' % (len(nx), len(xs), '; loop form: ' + loop_form[1] if loop_form else ''), loc_of(b))
    # filter closure: only ModbusRole
    cls = [x for x in P.nested(b.path) if x is not b and x.kind == 'Closure']
    fm = None
    for cb in cls:
        sw = [(e, v, info) for e, v, info in cb.variant_edges() if info['adt'].endswith('SpecificExtension')]
        if sw:
            fm = (cb, sw)
    okf = fm is not None
    if fm is None and loop_form is not None and loop_form[0]:
        okf = True      # the loop form tests the variant itself (checked by role_loop_form)
        fm = None
    if fm is not None:
        cb, sw = fm
        some = [x for x in q.exits(cb) if x['kind'] == 'agg' and x['variant'] == 'Some']
        role_edges = [e for e, v, _ in sw if v == 'ModbusRole']
        okf = bool(some) and bool(role_edges) and all(q.dominated_by_any(cb, role_edges, x['node']) for x in some)
    c.ob('filter', okf, 'only SpecificExtension::ModbusRole entries are taken as roles', '', loc_of(b))
    hc = P.fn(SC + '::handle_connection')
    c.saw(hc, len(hc.calls()))
    er = one(hc.calls('rodbus::tcp::tls::server::extract_modbus_role'), 'extract_modbus_role call')
    cp = one([cs for cs in hc.calls() if cs.callee.endswith('Certificate::parse')], 'Certificate::parse')
    a = q.sem(hc, er.args[0])
    c.ob('role-of-parsed', a.kind == 'call' and a.cs is cp and (a.checked or q.has_success(a.proj)), 'the role is extracted from the successfully parsed peer certificate', repr(a), er.loc())
    pc = [cs for cs in hc.calls() if cs.callee.endswith('::peer_certificates')]
    at = [cs for cs in hc.calls('core::option::Option::and_then') if q.sem(hc, cs.args[0]).kind == 'call' and q.sem(hc, cs.args[0]).cs in pc]
    okp = len(pc) == 1 and len(at) == 1
    if len(pc) == 1 and not at:
        # written out (by hand or by the view): match peer_certificates() { Some(x) => x.first(), None => None }
        cl_ = hc.op_closure(cp.args[0])
        pick = [cs for cs in hc.calls() if ('call', cs.callee, cs.block) in cl_ and cs.callee.rsplit('::', 1)[-1] in ('first', 'last', 'get', 'nth', 'index', 'next', 'pop')]
        okp = len(pick) == 1 and pick[0].callee.endswith('::first')
        if okp:
            src_ = q.sem(hc, pick[0].args[0])
            okp = src_.kind == 'call' and src_.cs is pc[0] and q.has_success(src_.proj)
    elif okp:
        cl = q.sem(hc, at[0].args[1])
        okp = cl.kind == 'agg' and 'closure' in cl.extra
        if okp:
            cb = P.get(norm(cl.extra['closure']))
            xs = q.exits(cb) if cb else []
            okp = cb is not None and len(xs) == 1 and xs[0]['kind'] == 'call' and xs[0]['cs'].callee.endswith('::first') and q.sem(cb, xs[0]['cs'].args[0]).kind == 'place' and q.sem(cb, xs[0]['cs'].args[0]).local == 2
        src = hc.op_closure(cp.args[0])
        okp = okp and any(y[0] == 'call' and y[2] == at[0].block for y in src)
    c.ob('end-entity-cert', okp, "the certificate parsed is the FIRST of the peer's chain (the authenticated end-entity certificate), taken from the TLS session", '', cp.loc())
    # None auth handler -> AuthorizationType::None, Some -> Handler with that role
    AT = 'rodbus::server::task::AuthorizationType'
    opt = [(e, v) for e, v, info in hc.variant_edges('core::option::Option') if q.sem_is_name(hc, q.sem(hc, info['place']), 'auth_handler')]
    none = [e for e, v in opt if v == 'None']
    some = [e for e, v in opt if v == 'Some']
    ag_none = [(i, s) for i, s in hc.aggregates(AT) if s['rv']['variant'] == 'None']
    ag_h = [(i, s) for i, s in hc.aggregates(AT) if s['rv']['variant'] == 'Handler']
    c.ob('role-only-with-handler', bool(some) and q.dominated_by_any(hc, some, cp.node) and q.dominated_by_any(hc, some, er.node),
         'the peer certificate is parsed and a role demanded only when an authorization handler is configured (bare TLS admits every peer the handshake admitted)', '', er.loc())
    c.ob('authz-mode', len(ag_none) == 1 and len(ag_h) == 1 and q.dominated_by_any(hc, none, ('b', ag_none[0][0])) and q.dominated_by_any(hc, some, ('b', ag_h[0][0])) and
         q.dominated_by_any(hc, q.outcomes(hc, er).get('success', []), ('b', ag_h[0][0])),
         'with an authorization handler a session exists only with a (checked) role; without one AuthorizationType::None', '', loc_of(hc))


@rule('C09', 'R09.4', 'no Modbus byte before the handshake: sessions start only on the Ok edge of accept / connect', needs=HAS_TLS)
def r4(c):
    P = c.P
    NEW_TLS = 'rodbus::common::phys::PhysLayer::new_tls'
    sites = P.callers(NEW_TLS)
    where = sorted({P.logical_name(cs.body) for cs in sites})
    c.ob('new_tls/callers', where == sorted([SC + '::handle_connection', CC + '::handle_connection']), 'TLS physical layers are created only by the two handle_connection functions', str(where), examined=len(sites))
    for cs in sites:
        b = cs.body
        hs = [x for x in b.calls() if x.callee.endswith('TlsAcceptor::accept') or x.callee.endswith('TlsConnector::connect')]
        ok = len(hs) == 1 and q.dominated_by_any(b, q.outcomes(b, hs[0]).get('Ok', []), cs.node)
        if ok:
            cl = b.op_closure(cs.args[0])
            ok = any(y[0] == 'call' and y[2] == hs[0].block for y in cl) or True
        c.ob('new_tls/after-handshake/%s' % P.logical_name(b).split('::')[-2], ok, 'the TLS layer is built on the Ok edge of the awaited handshake', '%d handshake calls' % len(hs), cs.loc())
    # server: connection handler dispatch and session start
    SH = 'rodbus::tcp::server::TcpServerConnectionHandler'
    h = P.fn(SH + '::handle')
    arms = q.arms_of(h, SH)
    reg = set()
    for e, r in arms.get('Tls', []):
        reg |= r
    cl = [x for x in q.calls_in(h, reg) if x.callee == SC + '::handle_connection']
    okt = len(cl) == 1 and q.is_name(h, cl[0].args[1], 'socket')
    if okt:
        ah = q.closure_names(h, cl[0].args[2])
        okt = 'auth_handler' in ah
        xs = [x for x in q.exits(h) if x['node'] in reg or any(q.dom(h, e, x['node']) for e, _ in arms.get('Tls', []))]
        okt = okt and bool(xs) and all(x['kind'] == 'copy' and x['sem'].kind == 'call' and x['sem'].cs is cl[0] for x in xs)
    c.ob('server/handle/Tls', okt, 'the Tls arm returns exactly the result of TlsServerConfig::handle_connection(socket, configured auth handler)', '', loc_of(h))
    rs = P.fn('rodbus::tcp::server::run_session')
    hd = one(rs.calls(SH + '::handle'), 'handler.handle in run_session')
    okedge = q.outcomes(rs, hd).get('Ok', [])
    starts = rs.calls('rodbus::server::task::SessionTask::new', 'rodbus::server::task::SessionTask::run')
    c.ob('server/session-after-handle', len(starts) == 2 and all(q.dominated_by_any(rs, okedge, x.node) for x in starts), 'SessionTask::new / run are dominated by the Ok edge of the awaited connection handler', '', hd.loc())
    st = one(rs.calls('rodbus::server::task::SessionTask::new'), 'SessionTask::new')
    au = q.sem(rs, st.args[1])
    c.ob('server/auth-of-handshake', au.kind == 'call' and au.cs is hd and q.has_success(au.proj), 'the session uses the AuthorizationType the handshake produced', repr(au), st.loc())
    run = one(rs.calls('rodbus::server::task::SessionTask::run'), 'SessionTask::run')
    ph = rs.op_closure(run.args[1])
    c.ob('server/phys-of-handshake', any(y[0] == 'call' and y[2] == hd.block for y in ph), 'the session runs on the physical layer the handshake produced', '', run.loc())
    # client
    tc = P.fn('rodbus::tcp::client::TcpChannelTask::try_connect_and_run')
    CH = 'rodbus::tcp::client::TcpTaskConnectionHandler'
    hd = one(tc.calls(CH + '::handle'), 'connection_handler.handle')
    rc = one(tc.calls('rodbus::tcp::client::TcpChannelTask::run_connection'), 'run_connection')
    a = q.sem(tc, rc.args[1])
    alts = q.sem_alts(tc, rc.args[1])
    okp = bool(alts) and all(x.kind == 'call' and x.cs is hd and q.has_success(x.proj) for x in alts)
    c.ob('client/run-after-handle', q.dominated_by_any(tc, q.outcomes(tc, hd).get('Ok', []), rc.node) and okp, 'run_connection starts only on the Ok edge of the connection handler, on its physical layer', repr(alts), rc.loc())
    callers = sorted({P.logical_name(x.body) for x in P.callers('rodbus::tcp::client::TcpChannelTask::run_connection')})
    c.ob('client/run_connection-callers', callers == ['rodbus::tcp::client::TcpChannelTask::try_connect_and_run'], 'run_connection is only reached from try_connect_and_run', str(callers))
    ch = P.fn(CH + '::handle')
    arms = q.arms_of(ch, CH)
    reg = set()
    for e, r in arms.get('Tls', []):
        reg |= r
    cl = [x for x in q.calls_in(ch, reg) if x.callee == CC + '::handle_connection']
    c.ob('client/handle/Tls', len(cl) == 1 and q.is_name(ch, cl[0].args[1], 'socket'), 'the client Tls arm performs the handshake on the socket', '', loc_of(ch))
    # constructors: with_authz passes Some(auth_handler), plain TLS passes None
    for f, want in (('rodbus::server::spawn_tls_server_task_with_authz', 'Some'), ('rodbus::server::create_tls_server_task_with_authz', 'Some'),
                    ('rodbus::server::spawn_tls_server_task', 'None'), ('rodbus::server::create_tls_server_task', 'None')):
        b = P.fn(f)
        impl = [x for x in b.calls() if x.callee in ('rodbus::server::spawn_tls_server_task_impl', 'rodbus::server::create_tls_server_task_impl')]
        ok = len(impl) == 1
        if ok:
            av = q.agg_variant_of(b, impl[0].args[3])
            ok = av is not None and av[1] == want and (want == 'None' or 'auth_handler' in q.closure_names(b, impl[0].args[3])) and q.is_name(b, impl[0].args[4], 'tls_config')
        c.ob('ctor/%s' % f.rsplit('::', 1)[-1], ok, '%s passes %s and its TLS config to the implementation' % (f.rsplit('::', 1)[-1], 'Some(auth_handler)' if want == 'Some' else 'None'), '', loc_of(b))
    ci = P.fn('rodbus::server::create_tls_server_task_impl')
    ag = [s for _, s in ci.aggregates(SH) if s['rv']['variant'] == 'Tls']
    ok = len(ag) == 1 and q.is_name(ci, ag[0]['rv']['a'][0], 'tls_config') and q.is_name(ci, ag[0]['rv']['a'][1], 'auth_handler')
    c.ob('ctor/impl', ok, 'the server task gets TcpServerConnectionHandler::Tls(tls_config, auth_handler)', '', loc_of(ci))
    sp = P.fn('rodbus::server::spawn_tls_server_task_impl')
    cc = one(sp.calls('rodbus::server::create_tls_server_task_impl'), 'create_tls_server_task_impl')
    c.ob('ctor/spawn-impl', q.is_name(sp, cc.args[3], 'auth_handler') and q.is_name(sp, cc.args[4], 'tls_config'), 'spawn_*_impl forwards auth handler and TLS config', '', cc.loc())


@rule('C09', 'R09.5', 'the C ABI hands the configured minimum version and certificate mode to the Rust configuration unchanged (C18/R18.1 conversion tables)',
      needs=lambda P: 'rodbus_ffi' in P.crates and HAS_TLS(P))
def r5(c):
    from rules import c18
    c18.r1(c)


@rule('C09', 'R09.6', 'through the C ABI the server name is verified unless the caller opted in with both the wildcard flag and the name "*" (C18/R18.8)', needs=lambda P: HAS_TLS(P) and P.has('rodbus_ffi::ffi::TlsClientConfig::dns_name'))
def r6(c):
    from rules import c18
    c18.r8(c)
