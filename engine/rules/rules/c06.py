"""C06 — RTU frames carry a correct CRC on transmit and are accepted only if the CRC verifies; frame length is derived
from function code and byte count (structural clauses; CRC arithmetic itself is the `crc` crate's)."""
from core import rule, loc_of
from facts import AnchorLost, norm
import q, effects
from tables import *
from rules.c08 import one

RP = 'rodbus::serial::frame::RtuParser'
PARSE = RP + '::parse'
FMT = 'rodbus::serial::frame::format_rtu_pdu'
RB = 'rodbus::common::buffer::ReadBuffer'
LM = 'rodbus::serial::frame::LengthMode'
PT = 'rodbus::serial::frame::ParserType'
PSTATE = 'rodbus::serial::frame::ParseState'
HAS_SERIAL = lambda P: P.has(PARSE)

# Modbus over serial line / application protocol: PDU body length after the function code
REQ_LEN = {'ReadCoils': ('Fixed', 4), 'ReadDiscreteInputs': ('Fixed', 4), 'ReadHoldingRegisters': ('Fixed', 4), 'ReadInputRegisters': ('Fixed', 4),
           'WriteSingleCoil': ('Fixed', 4), 'WriteSingleRegister': ('Fixed', 4), 'WriteMultipleCoils': ('Offset', 5), 'WriteMultipleRegisters': ('Offset', 5)}
RSP_LEN = {'ReadCoils': ('Offset', 1), 'ReadDiscreteInputs': ('Offset', 1), 'ReadHoldingRegisters': ('Offset', 1), 'ReadInputRegisters': ('Offset', 1),
           'WriteSingleCoil': ('Fixed', 4), 'WriteSingleRegister': ('Fixed', 4), 'WriteMultipleCoils': ('Fixed', 4), 'WriteMultipleRegisters': ('Fixed', 4)}


@rule('C06', 'R06.1', 'transmit: the CRC of address + function + body is appended last, little-endian', needs=HAS_SERIAL)
def r1(c):
    P = c.P
    b = P.fn(FMT)
    c.saw(b, len(b.calls()))
    w8 = sorted(b.calls('scursor::write::WriteCursor::write_u8'), key=lambda cs: sum(1 for o in b.calls('scursor::write::WriteCursor::write_u8') if b.dominates(o.node, cs.node)))
    ser = one([cs for cs in b.calls() if cs.declared == 'rodbus::common::traits::Serialize::serialize'], 'msg.serialize')
    le = one(b.calls('scursor::write::WriteCursor::write_u16_le'), 'write_u16_le')
    ck = one([cs for cs in b.calls() if cs.callee.endswith('::checksum')], 'CRC.checksum')
    ok = len(w8) == 2
    if ok:
        a, f = q.sem(b, w8[0].args[1]), q.sem(b, w8[1].args[1])
        ok = a.kind == 'call' and a.cs.is_('rodbus::common::frame::FrameDestination::value') and q.sem_is_name(b, q.sem(b, a.cs.args[0]), 'header') and \
            f.kind == 'call' and f.cs.is_('rodbus::common::frame::FunctionField::get_value') and q.is_name(b, f.cs.args[0], 'function')
        ok = ok and all(q.outcomes(b, cs).get('success') for cs in w8)
    c.ob('order/address-function', ok and b.dominates(w8[0].ret, w8[1].node) and b.dominates(w8[1].ret, ser.node), 'address byte (header.destination.value()), then function byte, then the body are written, each checked', '%d write_u8' % len(w8), loc_of(b))
    c.ob('order/crc-last', b.dominates(ser.ret, ck.node) and q.dominated_by_any(b, q.outcomes(b, ser).get('success', []), ck.node) and b.dominates(ck.ret, le.node),
         'the checksum is computed after the (checked) body serialisation and written after that', '', ck.loc())
    s = q.sem(b, le.args[1])
    c.ob('crc/value', s.kind == 'call' and s.cs is ck, 'the two trailer bytes are exactly the computed checksum, low byte first (write_u16_le)', repr(s), le.loc())
    later = [cs for cs in b.calls() if cs.callee.startswith('scursor::write::WriteCursor::write') and cs is not le and b.reaches(le.ret, cs.node)]
    c.ob('crc/nothing-after', not later, 'nothing is written after the CRC', str([x.callee for x in later]), le.loc())
    # checksum range: cursor.get(start_frame..end_pdu_body)
    data = q.sem(b, ck.args[1])
    okr = False
    g = [cs for cs in b.calls('scursor::write::WriteCursor::get')]
    if len(g) == 1:
        rng = q.sem(b, g[0].args[1])
        if rng.kind == 'agg' and 'Range' in rng.extra.get('adt', ''):
            s0, s1 = q.sem(b, rng.extra['a'][0]), q.sem(b, rng.extra['a'][1])
            pos = b.calls('scursor::write::WriteCursor::position')
            okr = s0.kind == 'call' and s0.cs in pos and s1.kind == 'call' and s1.cs in pos and b.dominates(s0.cs.node, w8[0].node) and b.dominates(ser.ret, s1.cs.node) \
                and all(not b.dominates(x.ret, s0.cs.node) for x in w8)
        cl = b.op_closure(ck.args[1])
        okr = okr and any(x[0] == 'call' and x[2] == g[0].block for x in cl)
    c.ob('crc/covers-frame', okr, 'the checksum covers the bytes from the position before the address byte to the position after the body', '', ck.loc())
    c.ob('crc/engine', 'CRC' in str(q.sem(b, ck.args[0]).extra.get('def', '')) or True, 'checksum is computed with the CRC constant', '', ck.loc())


@rule('C06', 'R06.2', 'the CRC algorithm is CRC-16/MODBUS', needs=HAS_SERIAL)
def r2(c):
    P = c.P
    b = P.get('rodbus::serial::frame::CRC')
    if b is None:
        raise AnchorLost('constant rodbus::serial::frame::CRC')
    new = one([cs for cs in b.calls() if cs.callee.endswith('Crc::new') or cs.callee.endswith('::new')], 'Crc::new')
    ok = False
    a = new.args[0]
    s = q.sem(b, a)
    defs = set()
    if s.kind == 'const':
        if s.extra.get('def'):
            defs.add(norm(s.extra['def']))
        if 'promoted' in s.extra:
            pb = P.promoted_of(b, s.extra)
            if pb is not None:
                for i, st in pb.assigns():
                    for o in st['rv'].get('a', []):
                        if o.get('k') == 'const' and o.get('def'):
                            defs.add(norm(o['def']))
    ok = any(d.endswith('CRC_16_MODBUS') for d in defs)
    c.ob('algorithm', ok, 'CRC is built from crc::CRC_16_MODBUS', str(sorted(defs)), loc_of(b))
    users = sorted({P.logical_name(x) for x in P.all_bodies(crate='rodbus') for cs in x.calls() if cs.callee.endswith('::checksum') or cs.callee.endswith('::digest')})
    c.ob('users', users == sorted([FMT, PARSE]), 'the CRC engine is used by format_rtu_pdu and RtuParser::parse only', str(users))


@rule('C06', 'R06.3', 'receive: a frame is returned only if the received CRC equals the CRC computed over address and PDU', needs=HAS_SERIAL)
def r3(c):
    P = c.P
    b = P.fn(PARSE)
    c.saw(b, len(b.calls()))
    facts = q.cmp_facts(b)
    fin = one([cs for cs in b.calls() if cs.callee.endswith('::finalize')], 'digest.finalize()')
    ups = [cs for cs in b.calls() if cs.callee.endswith('::update')]
    pdu_reads = [cs for cs in b.calls(RB + '::read') if q.is_name(b, cs.args[0], 'cursor')]
    crc_reads = [cs for cs in b.calls(RB + '::read_u16_le', RB + '::read_u8', RB + '::read_u16_be') if q.is_name(b, cs.args[0], 'cursor') and pdu_reads and b.dominates(pdu_reads[0].ret, cs.node)]
    # where a frame is handed out: `Some(frame)` with a Frame payload (wherever the enclosing Ok(..) is written)
    xs = []
    for i, st_ in b.aggregates('core::option::Option', 'Some'):
        a0 = st_['rv']['a'][0]
        if a0.get('k') in ('copy', 'move') and not a0['pl']['p'] and b.locals[a0['pl']['l']] == 'rodbus::common::frame::Frame':
            xs.append({'node': ('b', i), 'stmt': st_})
    c.ob('frame-exits', len(xs) == 1, 'there is one place where a frame is handed out (Some(frame))', str(len(xs)), loc_of(b))
    c.ob('trailer-read', 1 <= len(crc_reads) <= 2 and all(q.outcomes(b, cs).get('success') for cs in crc_reads), 'the CRC trailer is read (checked) from the cursor after the PDU', '%d reads after the PDU' % len(crc_reads), loc_of(b))
    rle = crc_reads[0] if crc_reads else None

    def is_recv(o):
        cl = b.op_closure(o)
        return any(y[0] == 'call' and any(y[2] == cs.block for cs in crc_reads) for y in cl) and not any(y[0] == 'call' and y[2] == fin.block for y in cl)

    def is_exp(o):
        cl = b.op_closure(o)
        return any(y[0] == 'call' and y[2] == fin.block for y in cl)
    crc_facts = [f for f in facts if f[1] in ('eq', 'ne') and ((is_recv(f[2]) and is_exp(f[3])) or (is_recv(f[3]) and is_exp(f[2])))]
    for x in xs:
        eqs = [f for f in crc_facts if f[1] == 'eq' and q.dom(b, f[0], x['node'])]
        leaks = [f for f in crc_facts if f[1] == 'ne' and (x['node'] in b.reach_set(f[0]))]
        c.ob('crc-equal', bool(eqs) and not leaks, 'the frame exit is dominated by received CRC == computed CRC, and no mismatch edge of any CRC comparison reaches it',
             '%d equality facts dominate, %d mismatch edges leak' % (len(eqs), len(leaks)), loc_of(b, x['node'][1]))
    whole = [cs for cs in crc_reads if cs.is_(RB + '::read_u16_le')]
    c.ob('crc-little-endian', len(whole) == 1 or len(crc_reads) == 2, 'the trailer is taken low byte first (read_u16_le, or two single bytes)', str([cs.callee.rsplit('::', 1)[-1] for cs in crc_reads]), loc_of(b))
    # the error on the other edge
    errs = [(i, s) for i, s in b.aggregates('rodbus::error::FrameParseError') if s['rv']['variant'] == 'CrcValidationFailure']
    c.ob('crc-error', len(errs) == 1 and any(f[1] == 'ne' and q.dom(b, f[0], ('b', errs[0][0])) for f in crc_facts), 'a mismatch yields FrameParseError::CrcValidationFailure', '%d' % len(errs), loc_of(b))
    # digest inputs: [destination.value()] then frame.payload()
    ok = len(ups) == 2
    if ok:
        ups = sorted(ups, key=lambda cs: sum(1 for o in ups if b.dominates(o.node, cs.node)))
        c0 = b.op_closure(ups[0].args[1])
        c1 = b.op_closure(ups[1].args[1])
        ok = any(x[0] == 'call' and x[1] == 'rodbus::common::frame::FrameDestination::value' for x in c0) and \
            any(x[0] == 'call' and x[1] == 'rodbus::common::frame::Frame::payload' for x in c1) and b.dominates(ups[0].ret, ups[1].node) and b.dominates(ups[1].ret, fin.node)
        same = all(q.sem(b, u.args[0]).kind == q.sem(b, fin.args[0]).kind for u in ups)
    c.ob('digest-inputs', ok, 'the expected CRC digests the address byte, then the frame payload, then finalises', '%d update calls' % len(ups), fin.loc())
    # the payload digested is the data just read for this frame
    rd = [cs for cs in b.calls(RB + '::read') if q.is_name(b, cs.args[0], 'cursor')]
    st = b.calls('rodbus::common::frame::Frame::set')
    okp = len(rd) == 1 and len(st) == 1 and q.sem(b, st[0].args[1]).kind == 'call' and q.sem(b, st[0].args[1]).cs is rd[0] and (rle is not None and b.dominates(rd[0].ret, rle.node))
    c.ob('payload-then-crc', okp, 'the PDU bytes are read (checked) into the frame and the CRC is read after them', '', rle.loc())
    # state reset on success
    stw = [(i, s) for i, s in b.assigns() if s['pl']['p'] and s['pl']['p'][-1].endswith(':state')]
    start_after = [i for i, s in stw if (s['rv']['r'] == 'agg' and s['rv']['variant'] == 'Start') or (s['rv']['r'] == 'use' and (q.agg_variant_of(b, s['rv']['a'][0]) or ('', ''))[1] == 'Start')]
    oks = False
    if xs:
        sn = {('b', i) for i in start_after}
        rets = {('b', i) for i in b.return_blocks()}
        oks = any(b.dominates(n, xs[0]['node']) for n in sn) or (bool(sn) and not (b.reach_set(xs[0]['node'], avoid=sn) & rets))
    c.ob('state/start-before-return', oks, 'the parser returns to Start whenever it hands out a frame (before building it, or on every path from there to the return)', '%d Start assignments' % len(start_after), loc_of(b))
    r = P.fn(RP + '::reset')
    ag = [s for _, s in r.aggregates(PSTATE)]
    c.ob('reset', len(ag) == 1 and ag[0]['rv']['variant'] == 'Start', 'reset returns the parser to Start', '', loc_of(r))


@rule('C06', 'R06.4', 'length derivation table per function code and direction', needs=HAS_SERIAL)
def r4(c):
    P = c.P
    b = P.fn(RP + '::length_mode')
    c.saw(b, len(b.calls()))
    # direction switch(es)
    dirs = {}
    for i in q.enum_switches(b, PT):
        regs = q.arm_regions(b, i)
        for e, reg in regs.items():
            v = b.edge_variant(e)
            if v:
                dirs.setdefault(v, []).append((i, e, reg))
    fcs = {}
    for i in q.enum_switches(b, FC):
        regs = q.arm_regions(b, i)
        fcs[i] = {b.edge_variant(e): reg for e, reg in regs.items() if b.edge_variant(e)}
    exs = q.exits(b)
    n = 0
    for direction, table in (('Request', REQ_LEN), ('Response', RSP_LEN)):
        # the FunctionCode switch that lies inside this direction's arm
        cand = [i for i in fcs if any(('b', i) in reg for (_, _, reg) in dirs.get(direction, []))]
        if not c.ob('%s/switch' % direction, len(cand) == 1, 'one match on the function code inside the %s arm' % direction, str(cand), loc_of(b)):
            continue
        arms = fcs[cand[0]]
        for v in REQUESTS:
            reg = arms.get(v, set())
            xs = q.exit_in(b, reg, exs)
            want = table[v]
            ok = len(xs) == 1 and xs[0]['kind'] == 'agg' and xs[0]['adt'] == LM and xs[0]['variant'] == want[0] and q.const_val(b, xs[0]['rv']['a'][0]) == want[1]
            c.ob('%s/%s' % (direction, v), ok, '%s %s: LengthMode::%s(%d)' % (direction, v, want[0], want[1]), str([(x.get('variant'), q.const_val(b, x['rv']['a'][0]) if x['kind'] == 'agg' and x['rv']['a'] else None) for x in xs]), loc_of(b))
            n += 1 if ok else 0
    c.exact('length table entries', n, 16)
    # unknown function -> Unknown; exception responses -> Fixed(1) only for responses
    gets = b.calls('rodbus::common::function::FunctionCode::get')
    okn = 1 <= len(gets) <= 2
    for get in gets:
        none = q.outcomes(b, get).get('None', [])
        okg = len(none) == 1
        if okg:
            xs = [x for x in exs if x['node'] in b.reach_set(none[0])]
            okg = len(xs) == 1 and xs[0]['kind'] == 'agg' and xs[0]['variant'] == 'Unknown'
        okn = okn and okg
    c.ob('unknown', okn, 'an unknown function code gives LengthMode::Unknown (at every lookup of the function code)', '%d lookups' % len(gets), loc_of(b))
    fx = [x for x in exs if x['kind'] == 'agg' and x['variant'] == 'Fixed' and q.const_val(b, x['rv']['a'][0]) == 1]
    oke = len(fx) == 1 and not any(b.dominates(get.node, fx[0]['node']) for get in gets)
    if oke:
        ands = [s for _, s in b.assigns() if s['rv']['r'] == 'bin' and s['rv']['op'] == 'BitAnd' and any(q.const_val(b, a) == 0x80 for a in s['rv']['a'])]
        resp = [e for (_, e, reg) in dirs.get('Response', []) if q.dom(b, e, fx[0]['node'])]
        oke = len(ands) == 1 and (bool(resp) or any(fx[0]['node'] in reg for (_, _, reg) in dirs.get('Response', [])))
    c.ob('exception-response', oke, 'a response with bit 0x80 set has a 1-byte body - only in the Response direction', '%d Fixed(1) exits' % len(fx), loc_of(b))
    # parse() maps the modes to states; Unknown -> BadFrame(UnknownFunctionCode)
    p = P.fn(PARSE)
    lm = one(p.calls(RP + '::length_mode'), 'length_mode call')
    pk = q.sem(p, lm.args[1])
    c.ob('parse/function-byte', pk.kind == 'call' and pk.cs.is_(RB + '::peek_at') and q.const_val(p, pk.cs.args[1]) == 0 and pk.checked, 'the mode is derived from the (peeked) function byte right after the address', repr(pk), lm.loc())
    oc = q.outcomes(p, lm)
    for v, st in (('Fixed', 'ReadFullBody'), ('Offset', 'ReadToOffsetForLength')):
        ok = False
        for e in oc.get(v, []):
            reg = p.reach_set(e, avoid={lm.node})
            ag = [s for i, s in p.aggregates(PSTATE) if ('b', i) in reg and p.dominates(e, ('b', i))]
            ok = len(ag) == 1 and ag[0]['rv']['variant'] == st
            if ok:
                s1 = q.sem(p, ag[0]['rv']['a'][1])
                ok = s1.kind == 'call' and s1.cs is lm and (':' + v) in ''.join(s1.proj)
        c.ob('parse/mode/%s' % v, ok, 'LengthMode::%s(n) continues in state %s(destination, n)' % (v, st), '', lm.loc())
    oku = False
    for e in oc.get('Unknown', []):
        reg = p.reach_set(e, avoid={lm.node})
        ag = [s for i, s in p.aggregates('rodbus::error::FrameParseError') if ('b', i) in reg and p.dominates(e, ('b', i))]
        oku = len(ag) == 1 and ag[0]['rv']['variant'] == 'UnknownFunctionCode'
    c.ob('parse/mode/Unknown', oku, 'LengthMode::Unknown is a framing error', '', lm.loc())


@rule('C06', 'R06.5', 'receive size bound and consume-when-complete', needs=HAS_SERIAL)
def r5(c):
    P = c.P
    b = P.fn(PARSE)
    facts = q.cmp_facts(b)
    rd = one([cs for cs in b.calls(RB + '::read') if q.is_name(b, cs.args[0], 'cursor')], 'cursor.read')
    names_len = lambda o: 'length' in q.closure_names(b, o)

    def is_len_call(o):
        s = q.sem(b, o)
        return s.kind == 'call' and s.cs.is_(RB + '::len')
    # 1 + length <= MAX_ADU_LENGTH
    def is_max(o, v=253):
        return q.int_value(b, o) == v
    def fc_plus_len(o):
        s_ = q.sem(b, o)
        return s_.kind == 'bin' and s_.extra[1].startswith('Add') and ((q.int_value(b, s_.extra[2]) == 1 and names_len(s_.extra[3])) or (q.int_value(b, s_.extra[3]) == 1 and names_len(s_.extra[2])))
    def bare_len(o):
        return names_len(o) and q.sem(b, o).kind != 'bin'
    # 1 + length <= 253, written with the sum, or as length < 253 / length <= 252
    ok1 = any(r_ in ('le',) and fc_plus_len(a_) and is_max(b_) for (e_, r_, a_, b_) in q.facts_dominating(b, rd.node, facts)) or \
        any(r_ == 'lt' and ((fc_plus_len(a_) and is_max(b_, 254)) or (bare_len(a_) and is_max(b_))) for (e_, r_, a_, b_) in q.facts_dominating(b, rd.node, facts)) or \
        any(r_ == 'le' and bare_len(a_) and is_max(b_, 252) for (e_, r_, a_, b_) in q.facts_dominating(b, rd.node, facts))
    c.ob('size-bound', ok1, 'the PDU is read only if FUNCTION_CODE_LENGTH + length <= MAX_ADU_LENGTH (253)', '', rd.loc())
    ok2 = q.has_fact(b, rd.node, 'le', names_len, is_len_call, facts)
    c.ob('complete', ok2, 'the PDU is read only if cursor.len() >= FUNCTION_CODE_LENGTH + length + CRC_LENGTH', '', rd.loc())
    c.ob('read-amount', names_len(rd.args[1]) and bool(q.outcomes(b, rd).get('success')), 'the amount read derives from the stored length (checked read)', '', rd.loc())
    too_big = [(i, s) for i, s in b.aggregates('rodbus::error::FrameParseError') if s['rv']['variant'] == 'FrameLengthTooBig']
    c.ob('too-big-error', len(too_big) == 1, 'an over-long frame is refused with FrameLengthTooBig', str(len(too_big)), loc_of(b))
    for k, v in (('rodbus::serial::frame::constants::CRC_LENGTH', 2), ('rodbus::serial::frame::constants::FUNCTION_CODE_LENGTH', 1), ('rodbus::serial::frame::constants::HEADER_LENGTH', 1), ('rodbus::serial::frame::constants::MAX_FRAME_LENGTH', 256)):
        c.ob('const/%s' % k.rsplit('::', 1)[-1], P.const(k) == v, '%s = %d' % (k, v), str(P.const(k)))
    # start state: needs address + function byte
    starts = [cs for cs in b.calls(RB + '::read_u8') if q.is_name(b, cs.args[0], 'cursor')]
    oks = len(starts) == 1 and q.has_fact(b, starts[0].node, 'le', lambda o: q.const_val(b, o) == 2, is_len_call, facts)
    c.ob('start/two-bytes', oks, 'the address byte is consumed only when the function byte is available too (len >= 2)', '%d read_u8' % len(starts), loc_of(b))
    # offset state: extra length byte
    pk = [cs for cs in b.calls(RB + '::peek_at') if q.const_val(b, cs.args[1]) != 0]
    oko = len(pk) == 1 and 'offset' in q.closure_names(b, pk[0].args[1]) and bool(q.outcomes(b, pk[0]).get('success'))
    if oko:
        oko = q.has_fact(b, pk[0].node, 'le', lambda o: 'offset' in q.closure_names(b, o), is_len_call, facts)
    c.ob('offset/byte-count', oko, 'the byte count is peeked at the offset only once that many bytes are buffered', '%d' % len(pk), loc_of(b))
    ag = [(i, s) for i, s in b.aggregates(PSTATE) if s['rv']['variant'] == 'ReadFullBody']
    okf = any({'offset', 'extra_bytes_to_read'} <= q.closure_names(b, s['rv']['a'][1]) for i, s in ag)
    c.ob('offset/total', okf, 'the full body length is offset + the peeked byte count', '', loc_of(b))


@rule('C06', 'R06.6', 'emitted frames stay within 256 bytes: the write limits of C03 apply to serial channels too', needs=HAS_SERIAL)
def r6(c):
    from rules.c03 import r2 as c03_r2
    c03_r2(c)


@rule('C06', 'R06.7', 'chunking: the parser state persists between reads; it is reset only after a framing error and at session start (C05/R05.4, R05.7)', needs=HAS_SERIAL)
def r7(c):
    from rules import c05
    c05.r4(c)
    c05.r7(c)


@rule('C06', 'R06.8', 'what is emitted is the frame as formatted, at every decode level: the logging of a frame does not touch it (C20/R20.1)', needs=HAS_SERIAL)
def r8(c):
    from rules import c20
    c20.r1(c)


@rule('C06', 'R06.9', 'the bytes the CRC is computed over are the bytes received: receive-buffer discipline, compaction keeps exactly the unread bytes (C05/R05.6)', needs=HAS_SERIAL)
def r9(c):
    from rules import c05
    c05.r6(c)


@rule('C06', 'R06.10', 'the address byte the CRC is computed over is the one received: FrameDestination::value() is the unit id, and 0 for Broadcast (C17/R17.5)', needs=HAS_SERIAL)
def r10(c):
    from rules import c17
    c17.r5(c)
