"""C03 — the client transmits exactly the encoding of a request, or nothing (structural clauses)."""
from core import rule, loc_of
from facts import AnchorLost, norm
from facts import norm as facts_norm
import q, effects
from tables import *
from rules.c08 import one, WIRE_WRITE

EXEC = 'rodbus::client::task::ClientLoop::execute_request'
FORMAT_REQUEST = 'rodbus::common::frame::FrameWriter::format_request'
FORMAT_GENERIC = 'rodbus::common::frame::FrameWriter::format_generic'
RD = 'rodbus::client::message::RequestDetails'
TRY_FROM = 'rodbus::types::AddressRange::try_from'
WM = 'rodbus::client::requests::write_multiple::WriteMultiple'
WRAP = 'rodbus::client::channel::wrap'

REQ_TYPES = {
    'ReadCoils': 'rodbus::client::requests::read_bits::ReadBits', 'ReadDiscreteInputs': 'rodbus::client::requests::read_bits::ReadBits',
    'ReadHoldingRegisters': 'rodbus::client::requests::read_registers::ReadRegisters', 'ReadInputRegisters': 'rodbus::client::requests::read_registers::ReadRegisters',
    'WriteSingleCoil': 'rodbus::client::requests::write_single::SingleWrite', 'WriteSingleRegister': 'rodbus::client::requests::write_single::SingleWrite',
    'WriteMultipleCoils': 'rodbus::client::requests::write_multiple::MultipleWriteRequest', 'WriteMultipleRegisters': 'rodbus::client::requests::write_multiple::MultipleWriteRequest',
}
API_METHOD = {
    'ReadCoils': 'read_coils', 'ReadDiscreteInputs': 'read_discrete_inputs', 'ReadHoldingRegisters': 'read_holding_registers',
    'ReadInputRegisters': 'read_input_registers', 'WriteSingleCoil': 'write_single_coil', 'WriteSingleRegister': 'write_single_register',
    'WriteMultipleCoils': 'write_multiple_coils', 'WriteMultipleRegisters': 'write_multiple_registers',
}
FLAVOURS = ['rodbus::client::channel::Channel', 'rodbus::client::channel::CallbackSession', 'rodbus::client::ffi_channel::FfiChannel']


def byte_count_value(b, o, pname, kind):
    """the operand is the number of data bytes for `pname` items: ceil(n / 8) for bits, 2 * n for registers"""
    def is_n(x):
        return q.is_name(b, x, pname)
    def div8(sm):
        return sm.kind == 'bin' and sm.extra[1] == 'Div' and is_n(sm.extra[2]) and q.int_value(b, sm.extra[3]) == 8
    def div8_plus1(sm):
        if not (sm.kind == 'bin' and sm.extra[1].startswith('Add')):
            return False
        a0, a1 = sm.extra[2], sm.extra[3]
        return (div8(q.sem(b, a0)) and q.int_value(b, a1) == 1) or (div8(q.sem(b, a1)) and q.int_value(b, a0) == 1)
    sm = q.sem(b, o)
    if kind == 'registers':
        ok = sm.kind == 'bin' and sm.extra[1].startswith('Mul') and sorted([q.int_value(b, sm.extra[2]) == 2, q.int_value(b, sm.extra[3]) == 2]) == [False, True] and (is_n(sm.extra[2]) or is_n(sm.extra[3]))
        return ok, repr(sm)
    if sm.kind == 'call' and (sm.cs.callee or '').endswith('::div_ceil') and is_n(sm.cs.args[0]) and q.int_value(b, sm.cs.args[1]) == 8:
        return True, 'div_ceil'
    if sm.kind == 'bin' and sm.extra[1] == 'Div' and q.int_value(b, sm.extra[3]) == 8:
        num = q.sem(b, sm.extra[2])
        if num.kind == 'bin' and num.extra[1].startswith('Add') and ((is_n(num.extra[2]) and q.int_value(b, num.extra[3]) == 7) or (is_n(num.extra[3]) and q.int_value(b, num.extra[2]) == 7)):
            return True, '(n + 7) / 8'
    if sm.kind == 'place' and sm.extra == 'multi' and not sm.proj:
        # n / 8 where n is a multiple of 8, n / 8 + 1 where it is not
        mult_true, mult_false = [], []
        for cs in b.calls():
            if (cs.callee or '').endswith('::is_multiple_of') and is_n(cs.args[0]) and q.int_value(b, cs.args[1]) == 8:
                be = q.bool_edges(b, cs)
                mult_true += be['true']
                mult_false += be['false']
        for (e, rel, a_, b_) in q.cmp_facts(b):
            for x_, y_ in ((a_, b_), (b_, a_)):
                sx = q.sem(b, x_)
                if sx.kind == 'bin' and sx.extra[1] == 'Rem' and is_n(sx.extra[2]) and q.int_value(b, sx.extra[3]) == 8 and q.int_value(b, y_) == 0:
                    if rel == 'eq':
                        mult_true.append(e)
                    elif rel == 'ne':
                        mult_false.append(e)
        defs = b.whole_defs(sm.local)
        ok = len(defs) == 2
        seen = set()
        for d in defs:
            if d[0] != 'assign' or d[2]['rv']['r'] != 'use':
                return False, 'unexpected definition'
            v = q.sem(b, d[2]['rv']['a'][0])
            if div8(v) and q.dominated_by_any(b, mult_true, ('b', d[1])):
                seen.add('exact')
            elif div8_plus1(v) and q.dominated_by_any(b, mult_false, ('b', d[1])):
                seen.add('round-up')
            else:
                ok = False
        return ok and seen == {'exact', 'round-up'}, 'match on multiple-of-8: %s' % sorted(seen)
    return False, repr(sm)


@rule('C03', 'R03.1', 'read limits: the limit-carrying range newtypes can only be produced by the limit checks')
def r1(c):
    P = c.P
    for cn, val in (('rodbus::constants::limits::MAX_READ_COILS_COUNT', 2000), ('rodbus::constants::limits::MAX_READ_REGISTERS_COUNT', 125),
                    ('rodbus::constants::limits::MAX_WRITE_COILS_COUNT', 1968), ('rodbus::constants::limits::MAX_WRITE_REGISTERS_COUNT', 123)):
        c.ob('const/%s' % cn.rsplit('::', 1)[-1], P.const(cn) == val, '%s = %d (the protocol value, whatever expression it is written as)' % (cn.rsplit('::', 1)[-1], val), str(P.const(cn)))
    for ty, fn_ in (('rodbus::types::ReadBitsRange', 'rodbus::types::AddressRange::of_read_bits'), ('rodbus::types::ReadRegistersRange', 'rodbus::types::AddressRange::of_read_registers')):
        cons = P.constructors(ty)
        where = sorted({P.logical_name(b) for b, _, _ in cons})
        c.ob('constructors/%s' % ty.rsplit('::', 1)[-1], where == [fn_], '%s is constructed only in %s' % (ty, fn_), str(where), examined=len(cons))
        a = P.adt(ty)
        priv = all(f['vis'] != 'Public' for v in a['variants'] for f in v['fields'])
        c.ob('private-field/%s' % ty.rsplit('::', 1)[-1], priv, 'the wrapped range is not a public field', str([(f['name'], f['vis']) for v in a['variants'] for f in v['fields']]))
    # (`new` is the only place the request struct is built -- see below -- so any other constructor such as `channel` goes through it,
    #  whatever it accepts itself)
    for f, ty in (('rodbus::client::requests::read_bits::ReadBits::new', 'rodbus::types::ReadBitsRange'),
                  ('rodbus::client::requests::read_registers::ReadRegisters::new', 'rodbus::types::ReadRegistersRange')):
        b = P.outer(f)
        c.ob('signature/%s' % '::'.join(f.split('::')[-2:]), b.sig_in and norm(b.sig_in[0]) == ty, '%s accepts only a %s' % (f, ty.rsplit('::', 1)[-1]), str(b.sig_in), loc_of(b))
    # the read request types can only be built through those constructors
    for ty, ctor in (('rodbus::client::requests::read_bits::ReadBits', 'rodbus::client::requests::read_bits::ReadBits::new'), ('rodbus::client::requests::read_registers::ReadRegisters', 'rodbus::client::requests::read_registers::ReadRegisters::new')):
        where = sorted({P.logical_name(b) for b, _, _ in P.constructors(ty)})
        c.ob('constructors/%s' % ty.rsplit('::', 1)[-1], where == [ctor], '%s{..} is built only in its `new`' % ty, str(where))
    # serialisation of a read request is the serialisation of that range
    for ty in ('read_bits::ReadBits', 'read_registers::ReadRegisters'):
        b = P.fn('rodbus::client::requests::%s::serialize' % ty)
        xs = q.exits(b)
        ok = len(xs) == 1 and xs[0]['kind'] == 'call' and xs[0]['cs'].callee == '<rodbus::types::AddressRange as rodbus::common::traits::Serialize>::serialize'
        if ok:
            s = q.sem(b, xs[0]['cs'].args[0])
            ok = s.kind == 'call' and s.cs.callee.endswith('Range::get') and q.is_name(b, s.cs.args[0], 'self')
        c.ob('serialize/%s' % ty.split('::')[1], ok, '%s::serialize writes exactly self.request.get()' % ty, '', loc_of(b))
    for g in ('rodbus::types::ReadBitsRange::get', 'rodbus::types::ReadRegistersRange::get'):
        b = P.fn(g)
        xs = q.exits(b)
        ok = len(xs) == 1 and xs[0]['kind'] == 'copy' and q.sem_is_name(b, xs[0]['sem'], 'self') and any('inner' in p for p in xs[0]['sem'].proj)
        c.ob('get/%s' % g.split('::')[-2], ok, '%s returns the wrapped range' % g, '', loc_of(b))


@rule('C03', 'R03.2', 'write limits: more than 1968 coils / 123 registers never serialise')
def r2(c):
    P = c.P
    for ty, cn in (('bool', 'rodbus::constants::limits::MAX_WRITE_COILS_COUNT'), ('u16', 'rodbus::constants::limits::MAX_WRITE_REGISTERS_COUNT')):
        path = '<rodbus::client::requests::write_multiple::WriteMultiple<%s> as rodbus::common::traits::Serialize>::serialize' % ty
        b = P.fn(path)
        c.saw(b, len(b.calls()))
        wit, edges = q.limit_witnesses(P, b, cn, LIMITS[cn])
        xs = [x for x in q.ok_exits(b) if not (x['kind'] == 'call' and x['cs'].is_(q.FROM_RESIDUAL))]
        ok = bool(xs) and all(any(q.dominated_by_any(b, e, x['node']) for _, e in wit) or q.dominated_by_any(b, edges, x['node']) for x in xs)
        # every cursor write is also behind the limit (nothing is put into the buffer for an over-limit request)
        writes = [cs for cs in b.calls() if not q.is_machinery(cs) and ('state' in effects.get(P).of_call(cs) or (cs.declared or '').endswith('Serialize::serialize'))]
        okw = all(any(q.dominated_by_any(b, e, cs.node) for _, e in wit) or q.dominated_by_any(b, edges, cs.node) for cs in writes)
        c.ob('serialize/WriteMultiple<%s>' % ty, ok and okw and bool(writes), 'WriteMultiple<%s>::serialize succeeds (and writes) only if count <= %s (%d)' % (ty, cn.rsplit('::', 1)[-1], LIMITS[cn]),
             '%d limit edges, %d witnesses, %d exits, %d writing calls' % (len(edges), len(wit), len(xs), len(writes)), loc_of(b), kind='limit')
        # the error on the other edge is a request error, not a frame
        s = one([cs for cs in b.calls() if cs.callee == '<rodbus::types::AddressRange as rodbus::common::traits::Serialize>::serialize'], 'range serialisation')
        rs = q.through_checks(P, b, s.args[0])
        c.ob('serialize/WriteMultiple<%s>/range' % ty, q.sem_is_name(b, rs, 'self') and any('range' in p for p in rs.proj) and q.outcomes(b, s).get('success'),
             'the address range written is self.range (checked)', '', s.loc())
    # the request types route serialisation to that impl
    mw = P.fn('rodbus::client::requests::write_multiple::MultipleWriteRequest::serialize')
    xs = q.exits(mw)
    ok = len(xs) == 1 and xs[0]['kind'] == 'call' and xs[0]['cs'].declared == 'rodbus::common::traits::Serialize::serialize'
    if ok:
        s = q.sem(mw, xs[0]['cs'].args[0])
        ok = q.sem_is_name(mw, s, 'self') and any('request' in p for p in s.proj)
    c.ob('MultipleWriteRequest/serialize', ok, 'MultipleWriteRequest::serialize is WriteMultiple::serialize of self.request', '', loc_of(mw))
    # control
    fx = c.FX
    bad = fx.fn('posctl::parsing::accept_unlimited')
    good = fx.fn('posctl::parsing::accept_limited_flipped')
    def limited(b):
        edges = [e for (e, rel, a, bb) in q.cmp_facts(b) if rel in ('le', 'lt') and q.const_def(b, bb) == 'posctl::parsing::LIMIT' and 'count' in q.chain_names(b, a)]
        return all(q.dominated_by_any(b, edges, x['node']) for x in q.ok_exits(b) if x['kind'] == 'agg')
    c.control('missing limit comparison is seen', not limited(bad))
    c.control('flipped / negated comparison is accepted', limited(good))


@rule('C03', 'R03.3', 'range validation at construction of a multiple write')
def r3(c):
    P = c.P
    FROM = 'rodbus::client::requests::write_multiple::WriteMultiple::from'
    b = P.fn(FROM)
    c.saw(b, len(b.calls()))
    cons = P.constructors(WM)
    where = sorted({P.logical_name(x) for x, _, _ in cons})
    c.ob('constructors', where == [FROM], 'WriteMultiple{..} is built only by WriteMultiple::from', str(where), examined=len(cons))
    tf = one(b.calls(TRY_FROM), 'AddressRange::try_from in from')
    u = [cs for cs in b.calls() if cs.declared == 'core::convert::TryFrom::try_from' and 'u16' in cs.gargs and 'usize' in cs.gargs]
    u = one(u, 'u16::try_from(len)')
    ln = q.sem(b, u.args[0])
    okl = ln.kind == 'call' and ln.cs.callee == 'alloc::vec::Vec::len' and q.is_name(b, ln.cs.args[0], 'values')
    c.ob('count-from-len', okl, 'the count is u16::try_from(values.len())', repr(ln), u.loc())
    s1 = q.sem(b, tf.args[1])
    c.ob('count-flow', s1.kind == 'call' and s1.cs is u and q.has_success(s1.proj), 'try_from receives exactly that count', repr(s1), tf.loc())
    c.ob('start-flow', q.is_name(b, tf.args[0], 'start'), 'try_from receives the start parameter', '', tf.loc())
    ag = [s for _, s in b.aggregates(WM)]
    ok = len(ag) == 1
    if ok:
        rv = ag[0]['rv']
        r = q.sem(b, rv['a'][rv['fields'].index('range')])
        ok = r.kind == 'call' and r.cs is tf and r.checked and q.is_name(b, rv['a'][rv['fields'].index('values')], 'values')
    c.ob('stored', ok, 'the stored range is the checked try_from result and the stored values are the given vector', '', loc_of(b))
    a = P.adt(WM)
    c.ob('private-fields', all(f['vis'] != 'Public' for v in a['variants'] for f in v['fields']), 'range and values are not public fields', '')


@rule('C03', 'R03.4', 'or nothing: one write per transaction, only of the successfully formatted request')
def r4(c):
    P = c.P
    b = P.fn(EXEC)
    c.saw(b, len(b.calls()))
    ws = b.calls(WIRE_WRITE)
    w = one(ws, 'PhysLayer::write in execute_request')
    fr = one(b.calls(FORMAT_REQUEST), 'format_request in execute_request')
    c.ob('write/acyclic', not b.in_cycle(w.node), 'the transmission is not in a loop', '', w.loc())
    c.ob('write/after-format', q.dominated_by_any(b, q.outcomes(b, fr).get('success', []), w.node), 'the write is dominated by the success edge of the checked format_request', '', w.loc())
    s = q.sem(b, w.args[1])
    c.ob('write/data', s.kind == 'call' and s.cs is fr and s.checked, 'the bytes written are exactly the formatted request', repr(s), w.loc())
    callers = sorted({P.logical_name(cs.body) for cs in P.callers(FORMAT_REQUEST)})
    c.ob('format_request/callers', callers == [EXEC], 'format_request is called only by execute_request', str(callers))
    other = [cs for cs in b.calls() if not q.is_machinery(cs) and 'wire' in effects.get(P).of_call(cs) and cs is not w and not cs.is_('rodbus::common::frame::FramedReader::next_frame')]
    c.ob('no-other-wire-output', not other, 'execute_request has no other output path', str([x.callee for x in other]), loc_of(b))
    # arguments of format_request
    hd = q.sem(b, fr.args[1])
    okh = hd.kind == 'call' and hd.cs.is_('rodbus::common::frame::FrameHeader::new_tcp_header')
    if okh:
        u = q.sem(b, hd.cs.args[0])
        okh = q.sem_is_name(b, u, 'request') and any(p.endswith(':id') for p in u.proj) and q.is_name(b, hd.cs.args[1], 'tx_id')
    c.ob('format_request/header', okh, 'the header carries request.id and the transaction id parameter', repr(hd), fr.loc())
    f = q.sem(b, fr.args[2])
    okf = f.kind == 'call' and f.cs.is_('rodbus::client::message::RequestDetails::function') and q.sem_is_name(b, q.sem(b, f.cs.args[0]), 'request')
    bd = q.sem(b, fr.args[3])
    okb = q.sem_is_name(b, bd, 'request') and any('details' in p for p in bd.proj)
    c.ob('format_request/function-and-body', okf and okb, "function = request.details.function(), body = &request.details", '%r / %r' % (f, bd), fr.loc())
    g = P.fn(FORMAT_REQUEST)
    fg = one(g.calls(FORMAT_GENERIC), 'format_generic in format_request')
    av = q.sem(g, fg.args[2])
    ok = av.kind == 'agg' and av.extra.get('variant') == 'Valid' and q.is_name(g, av.extra['a'][0], 'function') and q.is_name(g, fg.args[1], 'header') and q.is_name(g, fg.args[3], 'body')
    c.ob('format_request/generic', ok and q.outcomes(g, fg).get('success'), 'format_request = checked format_generic(header, Valid(function), body)', repr(av), fg.loc())


@rule('C03', 'R03.5', 'frame size constants and the byte-count guards')
def r5(c):
    P = c.P
    for k, v in (('rodbus::tcp::frame::constants::MAX_FRAME_LENGTH', 260), ('rodbus::common::frame::constants::MAX_ADU_LENGTH', 253), ('rodbus::tcp::frame::constants::HEADER_LENGTH', 7),
                 ('rodbus::tcp::frame::constants::MAX_LENGTH_FIELD', 254)):
        c.ob('const/%s' % '::'.join(k.split('::')[-3:]), P.const(k) == v, '%s = %d' % (k, v), str(P.const(k)))
    if 'rodbus::serial::frame::constants::MAX_FRAME_LENGTH' in P.consts:
        c.ob('const/serial::MAX_FRAME_LENGTH', P.const('rodbus::serial::frame::constants::MAX_FRAME_LENGTH') == 256, 'serial MAX_FRAME_LENGTH = 256', str(P.const('rodbus::serial::frame::constants::MAX_FRAME_LENGTH')))
    fw = P.adt('rodbus::common::frame::FrameWriter')
    bt = [f['ty'] for v in fw['variants'] for f in v['fields'] if f['name'] == 'buffer']
    want = P.const('rodbus::common::frame::constants::MAX_FRAME_LENGTH')
    c.ob('buffer', bt == ['[u8; %d]' % want] and want == 260, 'FrameWriter.buffer is [u8; MAX_FRAME_LENGTH] = [u8; 260]', str(bt))
    for f in ('rodbus::common::serialize::calc_bytes_for_bits', 'rodbus::common::serialize::calc_bytes_for_registers'):
        b = P.fn(f)
        tf = [cs for cs in b.calls() if cs.declared == 'core::convert::TryFrom::try_from' and 'u8' in cs.gargs]
        xs = [x for x in q.exits(b) if not q.exit_is_failure(b, x)]
        ok = len(tf) == 1 and bool(xs)
        for x in xs:
            v = q.exit_sem(b, x)
            if v.kind == 'agg' and isinstance(v.extra, dict) and v.extra.get('variant') == 'Ok' and v.extra.get('a'):
                p_ = q.sem(b, v.extra['a'][0])
                ok = ok and p_.kind == 'call' and p_.cs is tf[0] and q.has_success(p_.proj)      # Ok(the converted value)
            else:
                ok = ok and v.kind == 'call' and v.cs is tf[0] and not v.proj                      # the conversion's own result
        c.ob('byte-count/%s' % f.rsplit('::', 1)[-1], ok, '%s returns through u8::try_from (no silent truncation of the byte count)' % f, '', loc_of(b))
        if len(tf) == 1:
            arg0 = b.sig_in and [n_ for n_, pl in b.names.items() if not pl['p'] and pl['l'] == 1]
            pname = arg0[0] if arg0 else 'num_bits'
            okv, how = byte_count_value(b, tf[0].args[0], pname, 'bits' if f.endswith('_bits') else 'registers')
            c.ob('byte-count/%s/value' % f.rsplit('::', 1)[-1], okv, 'the count converted is %s' % ('ceil(n / 8): n / 8 for a multiple of 8, n / 8 + 1 otherwise (or n.div_ceil(8), (n + 7) / 8)' if f.endswith('_bits') else '2 x n'), how, loc_of(b))
    for ty, fn_ in (('bool', 'calc_bytes_for_bits'), ('u16', 'calc_bytes_for_registers')):
        b = P.fn('<&[%s] as rodbus::common::traits::Serialize>::serialize' % ty)
        cb = one(b.calls('rodbus::common::serialize::' + fn_), fn_)
        ln = q.sem(b, cb.args[0])
        w8 = b.calls('scursor::write::WriteCursor::write_u8')
        first = [cs for cs in w8 if q.sem(b, cs.args[1]).kind == 'call' and q.sem(b, cs.args[1]).cs is cb]
        c.ob('byte-count/&[%s]' % ty, len(first) == 1 and q.outcomes(b, cb).get('success') and all(b.dominates(first[0].node, o.node) for o in w8),
             'the byte count written first is the checked %s(self.len())' % fn_, repr(ln), loc_of(b))


@rule('C03', 'R03.6', 'request tables: function code, serialiser and API method per request kind, in all three API flavours')
def r6(c):
    P = c.P
    f = P.fn(RD + '::function')
    arms = q.arms_of(f, RD)
    exs = q.exits(f)
    n = 0
    for v in REQUESTS:
        reg = set()
        for e, r in arms.get(v, []):
            reg |= r
        xs = q.exit_in(f, reg, exs)
        ok = len(xs) == 1 and xs[0]['kind'] == 'agg' and xs[0]['adt'] == FC and xs[0]['variant'] == v
        c.ob('function/%s' % v, ok, 'RequestDetails::%s transmits FunctionCode::%s' % (v, v), '', loc_of(f))
        n += 1 if ok else 0
    c.exact('function arms', n, 8)
    s = P.fn('<rodbus::client::message::RequestDetails as rodbus::common::traits::Serialize>::serialize')
    arms = q.arms_of(s, RD)
    m = 0
    for v in REQUESTS:
        reg = set()
        for e, r in arms.get(v, []):
            reg |= r
        cl = [cs for cs in q.calls_in(s, reg)]
        ok = len(cl) == 1 and cl[0].callee == REQ_TYPES[v] + '::serialize'
        if ok:
            a0 = q.sem(s, cl[0].args[0])
            ok = q.sem_is_name(s, a0, 'self') and (':' + v) in ''.join(a0.proj) and q.is_name(s, cl[0].args[1], 'cursor')
        c.ob('serialize/%s' % v, ok, 'RequestDetails::%s serialises its own payload with %s::serialize' % (v, REQ_TYPES[v].rsplit('::', 1)[-1]), str([x.callee for x in cl]), loc_of(s))
        m += 1 if ok else 0
    c.exact('serialize arms', m, 8)
    # SingleWrite::serialize -> T::serialize(self.request)
    sw = P.fn('rodbus::client::requests::write_single::SingleWrite::serialize')
    xs = q.exits(sw)
    ok = len(xs) == 1 and xs[0]['kind'] == 'call' and xs[0]['cs'].declared == 'rodbus::client::requests::write_single::SingleWriteOperation::serialize'
    c.ob('SingleWrite/serialize', ok and any('request' in p for p in q.sem(sw, xs[0]['cs'].args[0]).proj), 'SingleWrite::serialize writes self.request', '', loc_of(sw))
    # API method -> variant
    cnt = 0
    flavours = [fl for fl in FLAVOURS if P.has(fl + '::read_coils')]
    for fl in flavours:
        for v in REQUESTS:
            path = '%s::%s' % (fl, API_METHOD[v])
            bodies = P.nested(path)
            if not bodies:
                raise AnchorLost('API method %s' % path)
            built = []
            ctors = []
            for b in bodies:
                c.saw(b, len(b.calls()))
                for i, st in b.aggregates(RD):
                    built.append(st['rv']['variant'])
                for cs in b.calls():
                    for a in cs.args:
                        if a['k'] == 'const' and a.get('fn') and norm(a['fn']).startswith(RD + '::'):
                            ctors.append(norm(a['fn']).rsplit('::', 1)[-1])
            ok = sorted(built + ctors) == [v]
            c.ob('api/%s/%s' % (fl.rsplit('::', 1)[-1], API_METHOD[v]), ok, '%s::%s queues exactly RequestDetails::%s' % (fl.rsplit('::', 1)[-1], API_METHOD[v], v), 'built %s ctor-args %s' % (built, ctors), loc_of(bodies[0]))
            cnt += 1 if ok else 0
    c.exact('API methods mapped', cnt, 8 * len(flavours))
    c.ob('flavours', len(flavours) >= 2, 'the Channel and CallbackSession flavours exist (FfiChannel with feature ffi)', str(flavours))
    # the helpers that receive the constructor apply it to the limited range
    for fl, helper, ctor in [x for x in (('rodbus::client::channel::CallbackSession', 'read_bits', 'rodbus::client::requests::read_bits::ReadBits::new'), ('rodbus::client::channel::CallbackSession', 'read_registers', 'rodbus::client::requests::read_registers::ReadRegisters::new'),
                             ('rodbus::client::ffi_channel::FfiChannel', 'read_bits', 'rodbus::client::requests::read_bits::ReadBits::new'), ('rodbus::client::ffi_channel::FfiChannel', 'read_registers', 'rodbus::client::requests::read_registers::ReadRegisters::new')) if P.has(x[0] + '::' + x[1])]:
        b = P.fn('%s::%s' % (fl, helper))
        nw = one(b.calls(ctor), ctor)
        rs = q.sem(b, nw.args[0])
        lim = 'of_read_bits' if 'bits' in helper else 'of_read_registers'
        okr = rs.kind == 'call' and rs.cs.callee.endswith(lim) and q.is_name(b, rs.cs.args[0], 'range') and (rs.checked or q.has_success(rs.proj))
        ind = [cs for cs in b.calls() if (cs.declared or '').startswith('core::ops::function::Fn') and q.is_name(b, cs.args[0], 'wrap_req')]
        okw = len(ind) == 1 and nw.block in {x[2] for x in b.op_closure(ind[0].args[1]) if x[0] == 'call'}
        c.ob('helper/%s/%s' % (fl.rsplit('::', 1)[-1], helper), okr and okw, 'the helper wraps the range that passed %s with the given constructor' % lim, repr(rs), nw.loc())
    # wrap(): unit id and timeout from the request parameters
    w = P.fn(WRAP)
    nr = one(w.calls('rodbus::client::message::Request::new'), 'Request::new in wrap')
    a0, a1 = q.sem(w, nr.args[0]), q.sem(w, nr.args[1])
    ok = q.sem_is_name(w, a0, 'param') and a0.proj and a0.proj[-1].endswith(':id') and q.sem_is_name(w, a1, 'param') and a1.proj and a1.proj[-1].endswith(':response_timeout') and q.is_name(w, nr.args[2], 'details')
    c.ob('wrap', ok, 'wrap() builds Request::new(param.id, param.response_timeout, details)', '%r %r' % (a0, a1), nr.loc())
    rn = P.fn('rodbus::client::message::Request::new')
    ag = [st for _, st in rn.aggregates('rodbus::client::message::Request')]
    ok = len(ag) == 1 and all(q.is_name(rn, ag[0]['rv']['a'][ag[0]['rv']['fields'].index(nm)], nm) for nm in ('id', 'timeout', 'details'))
    c.ob('Request::new', ok, 'Request::new stores id, timeout, details in the same-named fields', '', loc_of(rn))
    # MBAP length field derives from the two cursor positions around the PDU
    fm = P.fn('rodbus::tcp::frame::format_mbap')
    pos = fm.calls('scursor::write::WriteCursor::position')
    w16 = fm.calls('scursor::write::WriteCursor::write_u16_be')
    # the length write: the u16 write whose value derives from cursor positions (the other two write the tx id and protocol id 0)
    lenw = [cs for cs in w16 if any(x[0] == 'call' and x[1] == 'scursor::write::WriteCursor::position' for x in fm.op_closure(cs.args[1]))]
    ok = len(lenw) == 1
    if ok:
        cl = fm.op_closure(lenw[0].args[1])
        srcs = {x[2] for x in cl if x[0] == 'call' and x[1] == 'scursor::write::WriteCursor::position'}
        ok = len(srcs) == 2
        sk = fm.calls('scursor::write::WriteCursor::seek_to')
        sk = sorted(sk, key=lambda cs_: sum(1 for o_ in sk if fm.dominates(o_.node, cs_.node)))
        # the first seek goes back to a position recorded before the placeholder was written
        sv = q.sem(fm, sk[0].args[1]) if sk else None
        ok = ok and len(sk) == 2 and fm.dominates(sk[0].node, lenw[0].node) and sv is not None and sv.kind == 'call' and sv.cs.is_('scursor::write::WriteCursor::position') and \
            fm.dominates(sv.cs.node, sk[0].node) and fm.dominates(lenw[0].node, sk[1].node)
    c.ob('mbap/length', ok, 'the MBAP length field derives from the cursor positions at the start and end of the PDU and is written at the reserved position', '%d candidate writes' % len(lenw), loc_of(fm))


def bit_packing_fold(c, b, nm, wr, fold):
    """the other way the same packing is commonly written: each 8-element chunk is folded into its byte,
    `chunk.iter().enumerate().filter(|(_, bit)| **bit).fold(0, |acc, (pos, _)| acc | (1 << pos))`.
    The accumulator is fresh per byte by construction (fold's initial value), the position restarts with enumerate."""
    P = c.P
    c.ob('%s/flush-site' % nm, True, 'one write_u8 inside the loop writes the byte a fold over the chunk produced', 'fold form', wr.loc())
    c.ob('%s/acc-cleared' % nm, q.const_val(b, fold.args[1]) == 0, 'the fold starts from 0 for every byte (no bits leak into the next byte)', '', fold.loc())
    c.ob('%s/flush-checked' % nm, bool(q.outcomes(b, wr).get('success')), 'a failing write ends the serialisation', '', wr.loc())
    # the iterator folded: enumerate() of the chunk's iter(), optionally filtered by the bit itself
    src = q.sem(b, fold.args[0], transparent=False)
    flt = None
    if src.kind == 'call' and src.cs.declared == 'core::iter::traits::iterator::Iterator::filter':
        flt = src.cs
        src = q.sem(b, flt.args[0], transparent=False)
    oke = src.kind == 'call' and src.cs.declared == 'core::iter::traits::iterator::Iterator::enumerate'
    it = q.sem(b, src.cs.args[0], transparent=False) if oke else None
    oke = oke and it.kind == 'call' and it.cs.callee.endswith('::iter')
    chunk = q.sem(b, it.cs.args[0]) if oke else None
    ch = [cs for cs in b.calls() if cs.callee.endswith('::chunks')]
    okc = oke and len(ch) == 1 and q.const_val(b, ch[0].args[1]) == 8 and chunk.kind == 'call' and chunk.cs.declared == 'core::iter::traits::iterator::Iterator::next' and \
        any(y[0] == 'call' and y[2] == ch[0].block for y in b.op_closure(chunk.cs.args[0]))
    c.ob('%s/chunks-of-8' % nm, okc, 'the fold runs over enumerate() of one chunk of chunks(8): positions 0..7 restart for every byte', repr(src), fold.loc())
    # the fold closure: |acc, (pos, bit)| acc | (1 << pos)   [with the filter: only set bits reach it]
    fc = q.sem(b, fold.args[2])
    okb = fc.kind == 'agg' and 'closure' in fc.extra
    detail = ''
    own_test = False
    if okb:
        cb = P.get(facts_norm(fc.extra['closure']))
        xs = q.exits(cb) if cb is not None else []
        # without a filter() in front, the closure itself may leave the accumulator alone for a false bit:
        # |acc, (pos, bit)| if *bit { acc | (1 << pos) } else { acc }
        keep = [x for x in xs if x['kind'] == 'copy' and x['sem'].kind == 'place' and x['sem'].local == 2 and not x['sem'].proj]
        own_test = False
        if cb is not None and flt is None and len(xs) == 2 and len(keep) == 1:
            setx = [x for x in xs if x is not keep[0]][0]
            bit_true = []
            for i_ in cb.switches():
                info_ = cb.switch_info(i_)
                if info_['kind'] == 'bool' and info_['cond'][0] == 'place' and info_['cond'][1] == 3 and [p for p in info_['cond'][2] if p != 'deref'] == ['field:1:']:
                    t_ = cb.blocks[i_]['term']
                    bit_true += [e for e in [('e', i_, str(v_)) for v_, _ in t_['vals']] + [('e', i_, 'otherwise')] if cb.edge_bool(e) is True]
            own_test = bool(bit_true) and q.dominated_by_any(cb, bit_true, setx['node']) and not q.dominated_by_any(cb, bit_true, keep[0]['node'])
            if own_test:
                xs = [setx]
        okb = cb is not None and len(xs) == 1 and not cb.cycles()
        if okb:
            x = xs[0]
            v = q.sem(cb, x['op']) if x['kind'] == 'copy' else (q.Sem('bin', extra=('bin', x['rv']['op'], x['rv']['a'][0], x['rv']['a'][1], (), x['node'][1])) if x['kind'] == 'other' and x['rv']['r'] == 'bin' else None)
            okb = v is not None and v.kind == 'bin' and v.extra[1] == 'BitOr'
            if okb:
                ops = [v.extra[2], v.extra[3]]
                accs = [o for o in ops if q.sem(cb, o).kind == 'place' and q.sem(cb, o).local == 2 and not q.sem(cb, o).proj]
                shs = [q.sem(cb, o) for o in ops if q.sem(cb, o).kind == 'bin' and q.sem(cb, o).extra[1] in ('Shl', 'ShlUnchecked')]
                okb = len(accs) == 1 and len(shs) == 1 and q.const_val(cb, shs[0].extra[2]) == 1
                if okb:
                    amt = q.sem(cb, shs[0].extra[3])
                    if amt.kind == 'cast':
                        amt = amt.extra[0]
                    okb = amt.kind == 'place' and amt.local == 3 and tuple(amt.proj) == ('field:0:',)
                    detail = 'shift amount %r' % amt
    c.ob('%s/bit-set' % nm, okb, 'the fold closure returns `acc | (1 << position)` with the enumerate index as position (LSB first)', detail, fold.loc())
    # only set bits contribute: the filter closure returns the bit itself
    okf = flt is not None
    if flt is None and okb and own_test:
        okf = True          # the fold closure tests the bit itself
    elif okf:
        pc = q.sem(b, flt.args[1])
        okf = pc.kind == 'agg' and 'closure' in pc.extra
        if okf:
            pb = P.get(facts_norm(pc.extra['closure']))
            xs = q.exits(pb) if pb is not None else []
            okf = pb is not None and len(xs) == 1 and xs[0]['kind'] == 'copy' and xs[0]['sem'].kind == 'place' and xs[0]['sem'].local == 2 and \
                [p for p in xs[0]['sem'].proj if p != 'deref'] == ['field:1:']
    c.ob('%s/only-set-bits' % nm, okf, 'the fold sees exactly the positions whose bit is true (filter on the bit itself)', '', fold.loc())


def user_local_of(b, o):
    """the user variable an operand is a plain copy / move of (through compiler temporaries), or None"""
    if o is None or o.get('k') not in ('copy', 'move'):
        return None
    pl = o['pl']
    guard = 0
    while guard < 8:
        guard += 1
        if pl['p']:
            return None
        l = pl['l']
        if l in b.user_locals_named():
            return l
        ds = b.whole_defs(l)
        if len(ds) != 1 or ds[0][0] != 'assign' or ds[0][2]['rv']['r'] not in ('use', 'cast') or ds[0][2]['rv']['a'][0].get('k') not in ('copy', 'move'):
            return None
        pl = ds[0][2]['rv']['a'][0]['pl']
    return None


def packing_vars(b):
    """(flush write, accumulator local, position local) of a bit-packing loop, identified by what they do - the byte written
    inside the loop, the variable OR-ed with a shifted 1, the shift amount - not by their names"""
    w8 = b.calls('scursor::write::WriteCursor::write_u8')
    looped = [cs for cs in w8 if b.in_cycle(cs.node)]
    if len(looped) != 1:
        return looped, None, None
    acc = user_local_of(b, looped[0].args[1])
    pos = None
    if acc is not None:
        for i, st in b.assigns():
            if st['rv']['r'] == 'bin' and st['rv']['op'] == 'BitOr' and st['pl']['l'] == acc and not st['pl']['p']:
                for a_ in st['rv']['a']:
                    sm = q.sem(b, a_)
                    if sm.kind == 'bin' and sm.extra[1] in ('Shl', 'ShlUnchecked'):
                        pos = user_local_of(b, sm.extra[3])
    return looped, acc, pos


def bit_packing_rule(c, path, acc=None, pos_var=None, chunk8=False):
    """structural half of LSB-first packing: one accumulator byte per 8 bits, cleared for every byte, bit i set by
    `1 << position` with the position restarting for every byte"""
    P = c.P
    b = P.fn(path)
    c.saw(b, len(b.calls()))
    nm = path.split(' as ')[0].lstrip('<')
    looped, acc_l, pos_l = packing_vars(b)
    if chunk8 and len(looped) == 1:
        fv = q.sem(b, looped[0].args[1])
        if fv.kind == 'call' and fv.cs.declared == 'core::iter::traits::iterator::Iterator::fold' and not fv.proj:
            return bit_packing_fold(c, b, nm, looped[0], fv.cs)
    c.ob('%s/flush-site' % nm, len(looped) == 1 and acc_l is not None, 'one write_u8 inside the loop flushes a byte-sized accumulator variable', '%d looped writes' % len(looped), loc_of(b))
    if len(looped) != 1 or acc_l is None:
        return
    acc = b.name_of(acc_l).split('#')[0]
    ok, why = q.reinitialised_each_iteration(b, looped[0].node, acc, 0)
    c.ob('%s/acc-cleared' % nm, ok, 'the accumulator is reset to 0 on every path between two flushes (no bits leak into the next byte)', why, looped[0].loc())
    c.ob('%s/flush-checked' % nm, bool(q.outcomes(b, looped[0]).get('success')), 'a failing write ends the serialisation', '', looped[0].loc())
    # bit set: acc |= 1 << pos
    ors = [(i, s) for i, s in b.assigns() if s['rv']['r'] == 'bin' and s['rv']['op'] == 'BitOr' and s['pl']['l'] == acc_l]
    okb = len(ors) == 1
    detail = '%d BitOr into %s' % (len(ors), acc)
    if okb:
        i, s = ors[0]
        sh = None
        for a in s['rv']['a']:
            sm = q.sem(b, a)
            if sm.kind == 'bin' and sm.extra[1] in ('Shl', 'ShlUnchecked'):
                sh = sm
        okb = sh is not None and q.const_val(b, sh.extra[2]) == 1 and pos_l is not None
        detail += ', shift amount variable %s' % (b.name_of(pos_l) if pos_l is not None else None)
    c.ob('%s/bit-set' % nm, okb, 'a set bit is merged as `1 << position` (LSB first), the position being a variable of the loop', detail, loc_of(b))
    if pos_l is not None and not chunk8:
        ok2, why2 = q.reinitialised_each_iteration(b, looped[0].node, b.name_of(pos_l).split('#')[0], 0)
        c.ob('%s/position-restarts' % nm, ok2, 'the bit position restarts at 0 for every byte', why2, looped[0].loc())
    if chunk8:
        ch = [cs for cs in b.calls() if cs.callee.endswith('::chunks')]
        okc = len(ch) == 1 and q.const_val(b, ch[0].args[1]) == 8
        if okc and pos_l is not None:
            # the position is the enumerate() index over one chunk
            okc = any(y[0] == 'call' and y[1] == 'core::iter::traits::iterator::Iterator::enumerate' for y in b.closure_of(pos_l))
        c.ob('%s/chunks-of-8' % nm, okc, 'bits are taken 8 at a time; the position is the index inside the chunk', '', loc_of(b))


@rule('C03', 'R03.7', 'coil packing in write-multiple-coils requests: one cleared accumulator per byte, bit i at 1 << i')
def r7(c):
    bit_packing_rule(c, '<&[bool] as rodbus::common::traits::Serialize>::serialize', chunk8=True)
    P = c.P
    b = P.fn('<&[u16] as rodbus::common::traits::Serialize>::serialize')
    w = [cs for cs in b.calls('scursor::write::WriteCursor::write_u16_be') if b.in_cycle(cs.node)]
    ok = len(w) == 1 and bool(q.outcomes(b, w[0]).get('success'))
    if ok:
        cl = b.op_closure(w[0].args[1])
        ok = any(x[0] == 'call' and x[1].endswith('::next') for x in cl)
    c.ob('registers/loop', ok, 'each register value of the slice is written big-endian, checked, once per iteration', '%d looped writes' % len(w), loc_of(b))


@rule('C03', 'R03.8', 'C ABI flavour: the client operations build their ranges through the same validating constructors and forward to the same-named Rust call (C18/R18.4)',
      needs=lambda P: 'rodbus_ffi' in P.crates)
def r8(c):
    from rules import c18
    c18.r4(c)


@rule('C03', 'R03.9', 'a frame handed to the physical layer is written completely: every transport arm of PhysLayer::write uses write_all (a short write would put a prefix of the frame on the wire and report success)')
def r9(c):
    P = c.P
    w = P.fn('rodbus::common::phys::PhysLayer::write')
    c.saw(w, len(w.calls()))
    AW = 'tokio::io::util::async_write_ext::AsyncWriteExt::'
    wr = [cs for cs in w.calls() if (cs.declared or '').startswith(AW) or (cs.declared or '').startswith('tokio::io::async_write::AsyncWrite::')]
    partial = [cs for cs in wr if cs.declared.rsplit('::', 1)[-1] not in ('write_all', 'flush', 'shutdown', 'write_all_buf')]
    full = [cs for cs in wr if cs.declared.rsplit('::', 1)[-1] in ('write_all', 'write_all_buf')]
    c.ob('write_all', not partial and len(full) >= 1 and all(q.is_name(w, cs.args[1], 'data') for cs in full), 'PhysLayer::write hands the whole `data` slice to write_all on every arm (no partial write)', 'partial: %s' % [x.declared.rsplit('::', 1)[-1] for x in partial], loc_of(w), examined=len(wr))
    arms = q.arms_of(w, 'rodbus::common::phys::PhysLayerImpl')
    miss = []
    for v, lst in arms.items():
        reg = set()
        for e, r in lst:
            reg |= r
        if not any(cs.node in reg for cs in full):
            miss.append(v)
    c.ob('every-arm', bool(arms) and not miss, 'every transport variant writes', 'arms without a write_all: %s' % miss, loc_of(w))
