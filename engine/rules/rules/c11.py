"""C11 — replies are matched to requests by transaction id; no cross-talk (structural clauses)."""
from core import rule, loc_of
from facts import AnchorLost, norm
import q, effects
from tables import *
from rules.c08 import one, WIRE_WRITE

CL = 'rodbus::client::task::ClientLoop'
EXEC = CL + '::execute_request'
RUN_ONE = CL + '::run_one_request'
TXNEXT = 'rodbus::common::frame::TxId::next'
NEXT_FRAME = 'rodbus::common::frame::FramedReader::next_frame'
HR = 'rodbus::client::message::Request::handle_response'


@rule('C11', 'R11.1', 'one fresh transaction id per request taken from the queue')
def r1(c):
    P = c.P
    sites = P.callers(TXNEXT)
    where = sorted({P.logical_name(cs.body) for cs in sites})
    c.ob('callers', where == [RUN_ONE] and len(sites) == 1, 'TxId::next is called at exactly one site, in run_one_request', str(where), examined=len(sites))
    b = P.fn(RUN_ONE)
    c.saw(b, len(b.calls()))
    nx = one(b.calls(TXNEXT), 'TxId::next')
    c.ob('once', not b.in_cycle(nx.node), 'the id is drawn once per request (not in a loop)', '', nx.loc())
    r = q.sem(b, nx.args[0])
    c.ob('counter', q.sem_is_name(b, r, 'self') and any('tx_id' in p for p in r.proj), 'the counter is the loop\'s own tx_id field', repr(r), nx.loc())
    ex = b.calls(EXEC)
    c.ob('execute-sites', len(ex) >= 1, 'execute_request is called from run_one_request', str(len(ex)), loc_of(b))
    for k, cs in enumerate(ex):
        s = q.sem(b, cs.args[3])
        c.ob('id-flow#%d' % (k + 1), s.kind == 'call' and s.cs is nx and not s.proj, 'execute_request receives exactly the id just drawn', repr(s), cs.loc())
        c.ob('request-flow#%d' % (k + 1), q.is_name(b, cs.args[2], 'request') and q.is_name(b, cs.args[1], 'io'), 'and the request / transport it was given', '', cs.loc())
        c.ob('dominates#%d' % (k + 1), b.dominates(nx.ret, cs.node), 'the id is drawn before the transaction starts', '', cs.loc())
    callers = sorted({P.logical_name(cs.body) for cs in P.callers(EXEC)})
    c.ob('execute-callers', callers == [RUN_ONE], 'execute_request is called only from run_one_request', str(callers))


@rule('C11', 'R11.2', 'the receive loop: only a frame with the expected id (or an RTU frame) reaches handle_response')
def r2(c):
    P = c.P
    b = P.fn(EXEC)
    c.saw(b, len(b.calls()))
    facts = q.cmp_facts(b)
    hr = one(b.calls(HR), 'handle_response')
    nf = one(b.calls(NEXT_FRAME), 'next_frame')
    nh = one(b.calls('rodbus::common::frame::FrameHeader::new_tcp_header'), 'new_tcp_header')
    c.ob('stamp', q.is_name(b, nh.args[1], 'tx_id'), 'the request is stamped with the tx_id parameter', '', nh.loc())
    # the frame handed to handle_response is the checked result of next_frame
    pl = q.sem(b, hr.args[1])
    okf = pl.kind == 'call' and pl.cs.is_('rodbus::common::frame::Frame::payload')
    if okf:
        fr = q.sem(b, pl.cs.args[0])
        okf = fr.kind == 'call' and fr.cs is nf and fr.checked
    c.ob('frame-origin', okf, 'the payload handled is that of the frame next_frame returned (checked)', repr(pl), hr.loc())
    # tx id match
    def is_recv(o):
        s = q.sem(b, o)
        return s.kind == 'call' and s.cs is nf and any('tx_id' in p for p in s.proj) and q.has_success(s.proj)
    opt = [(e, v) for e, v, info in b.variant_edges('core::option::Option') if q.sem(b, info['place']).kind == 'call' and q.sem(b, info['place']).cs is nf and any('tx_id' in p for p in q.sem(b, info['place']).proj)]
    none = [e for e, v in opt if v == 'None']
    some = [e for e, v in opt if v == 'Some']
    eq = q.has_fact(b, hr.node, 'eq', is_recv, lambda o: q.is_name(b, o, 'tx_id'), facts)
    via_none = any(b.reaches(e, hr.node) for e in none)
    # every path to handle_response passes either the None (RTU) edge or the equality edge
    ne_edges = [f[0] for f in facts if f[1] == 'ne' and ((is_recv(f[2]) and q.is_name(b, f[3], 'tx_id')) or (is_recv(f[3]) and q.is_name(b, f[2], 'tx_id')))]
    eq_edges = [f[0] for f in facts if f[1] == 'eq' and ((is_recv(f[2]) and q.is_name(b, f[3], 'tx_id')) or (is_recv(f[3]) and q.is_name(b, f[2], 'tx_id')))]
    c.ob('compare', len(ne_edges) == 1 and len(eq_edges) == 1 and len(some) == 1 and len(none) == 1, 'the received transaction id (when present) is compared for equality with the expected one', 'eq %s ne %s' % (eq_edges, ne_edges), hr.loc())
    if ne_edges:
        # from the mismatch edge, handle_response is reachable only by going through next_frame again
        reach = b.reach_set(ne_edges[0], avoid={nf.node})
        c.ob('mismatch-discarded', hr.node not in reach, 'a frame with a different id never reaches handle_response: the loop waits for another frame', '', loc_of(b, ne_edges[0][1]))
        eff = [cs for cs in b.calls() if cs.node in reach and not (q.is_tracing(cs) or q.is_fmt(cs) or q.is_machinery(cs)) and effects.get(P).of_call(cs) - {'state', 'sync'}]
        c.ob('mismatch-no-effect', not eff, 'discarding a stale frame has no other effect', str([x.callee for x in eff]), loc_of(b, ne_edges[0][1]))
        # ... and it does not end the transaction either: the request keeps waiting for its own reply (until its deadline)
        rets_ = [('b', i_) for i_ in b.return_blocks() if ('b', i_) in reach]
        c.ob('mismatch-keeps-waiting', not rets_ and nf.node in b.reach_set(ne_edges[0]), 'a frame with a different id does not fail (or complete) the outstanding request: from the mismatch edge the only way on is back to next_frame', 'returns reachable without a new frame: %d' % len(rets_), loc_of(b, ne_edges[0][1]))
    if some and eq_edges:
        # handle_response is dominated by (None edge) or (eq edge): remove both and it must become unreachable from the frame
        reach = b.reach_set(nf.ret, avoid=set(none) | set(eq_edges))
        c.ob('only-matching', hr.node not in reach, 'handle_response is reachable from a received frame only through the id-equality edge or the no-id (RTU) edge', '', hr.loc())
    hs = sorted({P.logical_name(cs.body) for cs in P.callers(HR)})
    c.ob('handle_response-callers', hs == [EXEC], 'responses are handled only inside a transaction', str(hs))


@rule('C11', 'R11.3', 'frames arriving while no request is outstanding are dropped without effect')
def r3(c):
    P = c.P
    b = P.fn(CL + '::poll')
    c.saw(b, len(b.calls()))
    nf = one(b.calls(NEXT_FRAME), 'next_frame in poll')
    ok = q.outcomes(b, nf).get('Ok', [])
    E = effects.get(P)
    good = len(ok) == 1
    if good:
        reach = b.reach_set(ok[0])
        eff = [cs for cs in b.calls() if cs.node in reach and not (q.is_tracing(cs) or q.is_fmt(cs) or q.is_machinery(cs)) and E.of_call(cs)]
        xs = [x for x in q.exits(b) if x['node'] in reach and q.dom(b, ok[0], x['node'])]
        good = not eff and bool(xs) and all(x['kind'] == 'agg' and x['variant'] == 'Ok' for x in xs)
    c.ob('idle-frame', good, 'an unsolicited frame is logged and dropped: no effect, the session continues', '', nf.loc())


@rule('C11', 'R11.4', 'no pipelining: requests are executed one at a time in the command loop')
def r4(c):
    P = c.P
    b = P.fn(CL + '::run_cmd')
    ro = one(b.calls(RUN_ONE), 'run_one_request in run_cmd')
    polled = [cs for cs in b.calls(q.POLL) if q.future_source(b, cs) is ro]
    c.ob('awaited-inline', len(polled) == 1, 'run_one_request is awaited in place by run_cmd', '', ro.loc())
    pl = P.fn(CL + '::poll')
    rc = one(pl.calls(CL + '::run_cmd'), 'run_cmd in poll')
    c.ob('poll-awaits', len([cs for cs in pl.calls(q.POLL) if q.future_source(pl, cs) is rc]) == 1, 'run_cmd is awaited in place by poll', '', rc.loc())
    sp = [cs for cs in P.callers('tokio::task::spawn::spawn', crate='rodbus') if 'rodbus::client::task' in cs.body.path]
    c.ob('no-spawn', not sp, 'the client task module never spawns', str(len(sp)))
    recv = [cs for cs in P.callers('rodbus::channel::Receiver::recv') if 'rodbus::client::task' in cs.body.path]
    where = sorted({P.logical_name(cs.body) for cs in recv})
    c.ob('queue-readers', where == sorted([CL + '::poll', CL + '::fail_next_request']), 'commands are taken from the queue only by poll and fail_next_request', str(where))
    # a request is written before any later request is dequeued: the write is in execute_request, which run_one_request awaits
    ex = P.fn(EXEC)
    c.ob('single-write', len(ex.calls(WIRE_WRITE)) == 1, 'one transmission per transaction', '', loc_of(ex))


def read_before(b, o, field_suffix):
    """follow an operand back through plain copies of single-definition locals to the statement that read a field whose
    projection ends with `field_suffix`; returns (block, stmt) or None"""
    if o is None or o.get('k') not in ('copy', 'move'):
        return None
    cur = o['pl']
    guard = 0
    while guard < 10 and not cur['p']:
        guard += 1
        ds = b.whole_defs(cur['l'])
        if len(ds) != 1 or ds[0][0] != 'assign' or ds[0][2]['rv']['r'] != 'use' or ds[0][2]['rv']['a'][0].get('k') not in ('copy', 'move'):
            return None
        src = ds[0][2]['rv']['a'][0]['pl']
        if src['p'] and src['p'][-1].endswith(field_suffix):
            return (ds[0][1], ds[0][2])
        cur = src
    return None


@rule('C11', 'R11.5', 'the id counter advances by one and wraps after 65535')
def r5(c):
    P = c.P
    b = P.fn(TXNEXT)
    c.saw(b)
    facts = q.cmp_facts(b)
    def is_val(o):
        s = q.sem(b, o)
        return q.sem_is_name(b, s, 'self') and bool(s.proj) and s.proj[-1].endswith(':value')
    def is_max(o):
        d = q.const_def(b, o)
        return (d is not None and str(d).endswith('::MAX')) or q.const_val(b, o) == 65535
    stores = [(i, s) for i, s in b.assigns() if s['pl']['p'] and s['pl']['p'][-1].endswith(':value')]
    news = b.calls('rodbus::common::frame::TxId::new')
    wr = [cs for cs in b.calls() if cs.callee and cs.callee.endswith('::wrapping_add') and 'u16' in cs.callee]
    if wr and len(stores) == 1 and not [f for f in facts if is_max(f[2]) or is_max(f[3])]:
        # arithmetic form: `let cur = self.value; self.value = cur.wrapping_add(1); TxId::new(cur)`
        i1, st = stores[0]
        v = q.sem(b, st['rv']['a'][0]) if st['rv']['r'] == 'use' else None
        okw = v is not None and v.kind == 'call' and v.cs in wr and is_val(v.cs.args[0]) and q.const_val(b, v.cs.args[1]) == 1 and not b.in_cycle(('b', i1))
        c.ob('wrap', okw, 'the counter is advanced with u16::wrapping_add(1): 65535 is followed by 0', repr(v), loc_of(b))
        c.ob('increment', okw, 'the counter is advanced by exactly 1', repr(v), loc_of(b))
        okr = len(news) == 1 and is_val(news[0].args[0])
        if okr:
            # the value handed out was read before the store: the variable holding it is bound before the store
            l = news[0].args[0]['pl']['l'] if news[0].args[0].get('k') in ('copy', 'move') else None
            rd = None
            cur = l
            guard = 0
            while cur is not None and guard < 8:
                guard += 1
                ds = b.whole_defs(cur)
                if len(ds) != 1 or ds[0][0] != 'assign':
                    break
                rv = ds[0][2]['rv']
                if rv['r'] == 'use' and rv['a'][0].get('k') in ('copy', 'move'):
                    src = rv['a'][0]['pl']
                    if src['p'] and src['p'][-1].endswith(':value'):
                        rd = (ds[0][1], ds[0][2])
                        break
                    cur = src['l'] if not src['p'] else None
                    continue
                break
            okr = rd is not None and (rd[0] != i1 and b.dominates(('b', rd[0]), ('b', i1)) or
                                      (rd[0] == i1 and b.blocks[i1]['stmts'].index(rd[1]) < b.blocks[i1]['stmts'].index(st)))
        c.ob('returns-old', okr, 'next() returns the id read before the advance: consecutive calls never return the same id', '%d TxId::new sites' % len(news), loc_of(b))
    elif len(stores) == 1 and len(news) == 1 and stores[0][1]['rv']['r'] == 'use' and q.sem(b, stores[0][1]['rv']['a'][0]).kind == 'place' and q.sem(b, stores[0][1]['rv']['a'][0]).extra == 'multi':
        # one store of a value chosen by the wrap test: `let cur = TxId::new(self.value); self.value = if cur.value == MAX { 0 } else { cur.value + 1 }; cur`
        i1, st = stores[0]
        nw = news[0]
        def is_cur(o):
            if is_val(o):
                return True
            v_ = q.sem(b, o)
            return v_.kind == 'call' and v_.cs is nw and bool(v_.proj) and v_.proj[-1].endswith(':value')
        tmp = q.sem(b, st['rv']['a'][0])
        defs = b.whole_defs(tmp.local)
        zero_d = [d for d in defs if d[0] == 'assign' and d[2]['rv']['r'] == 'use' and q.const_val(b, d[2]['rv']['a'][0]) == 0]
        inc_d = [d for d in defs if d not in zero_d]
        okz = len(zero_d) == 1 and q.has_fact(b, ('b', zero_d[0][1]), 'eq', is_cur, is_max, facts)
        c.ob('wrap', okz, 'at u16::MAX the counter restarts at 0', '%d definitions of 0' % len(zero_d), loc_of(b))
        oki = len(inc_d) == 1 and inc_d[0][0] == 'assign' and q.has_fact(b, ('b', inc_d[0][1]), 'ne', is_cur, is_max, facts)
        if oki:
            v = q.sem(b, inc_d[0][2]['rv']['a'][0]) if inc_d[0][2]['rv']['r'] == 'use' else q.Sem('other')
            oki = v.kind == 'bin' and v.extra[1].startswith('Add') and q.const_val(b, v.extra[3]) == 1 and is_cur(v.extra[2])
        c.ob('increment', oki, 'otherwise the counter is advanced by exactly 1', '%d other definitions' % len(inc_d), loc_of(b))
        xs = q.exits(b)
        nb_ = P.fn('rodbus::common::frame::TxId::new')
        ag_ = [s_ for _, s_ in nb_.aggregates('rodbus::common::frame::TxId')]
        c.ob('new', len(ag_) == 1 and q.is_name(nb_, ag_[0]['rv']['a'][0], 'value'), 'TxId::new(v) is TxId { value: v }', '', loc_of(nb_))
        # the id handed out is the value the counter had before the store: TxId::new(self.value) evaluated before it, or
        # TxId::new(cur) with `cur` read from self.value before it
        rd_ = read_before(b, nw.args[0], ':value')
        before = (is_val(nw.args[0]) and b.dominates(nw.ret, ('b', i1)) and rd_ is None) or \
            (rd_ is not None and ((rd_[0] != i1 and b.dominates(('b', rd_[0]), ('b', i1))) or (rd_[0] == i1 and b.blocks[i1]['stmts'].index(rd_[1]) < b.blocks[i1]['stmts'].index(st))))
        okr = before and not b.in_cycle(('b', i1)) and bool(xs) and all((lambda v_: v_.kind == 'call' and v_.cs is nw and not v_.proj)(q.exit_sem(b, x)) for x in xs)
        c.ob('returns-old', okr, 'next() returns the id read before the advance: consecutive calls never return the same id', '%d TxId::new sites' % len(news), loc_of(b))
    else:
        zero = [(i, s) for i, s in stores if s['rv']['r'] == 'use' and q.const_val(b, s['rv']['a'][0]) == 0]
        inc = [(i, s) for i, s in stores if (i, s) not in zero]
        okz = len(zero) == 1 and q.has_fact(b, ('b', zero[0][0]), 'eq', is_val, is_max, facts)
        c.ob('wrap', okz, 'at u16::MAX the counter restarts at 0', '%d stores of 0' % len(zero), loc_of(b))
        oki = len(inc) == 1 and q.has_fact(b, ('b', inc[0][0]), 'ne', is_val, is_max, facts)
        if oki:
            v = q.sem(b, inc[0][1]['rv']['a'][0])
            oki = v.kind == 'bin' and v.extra[1].startswith('Add') and q.const_val(b, v.extra[3]) == 1 and is_val(v.extra[2])
        c.ob('increment', oki, 'otherwise the counter is advanced by exactly 1', '%d other stores' % len(inc), loc_of(b))
        # the value returned is the value BEFORE the update on both arms
        okr = len(news) == 2
        for cs in news:
            s = q.sem(b, cs.args[0])
            in_wrap = zero and b.dominates(('b', zero[0][0]), cs.node)
            if in_wrap:
                okr = okr and is_max(cs.args[0])
            else:
                # the value handed out was read from self.value before the store (followed back through plain copies)
                rd = read_before(b, cs.args[0], ':value')
                okr = okr and bool(inc) and rd is not None and ((rd[0] != inc[0][0] and b.dominates(('b', rd[0]), ('b', inc[0][0]))) or
                                                                (rd[0] == inc[0][0] and b.blocks[rd[0]]['stmts'].index(rd[1]) < b.blocks[rd[0]]['stmts'].index(inc[0][1])))
        c.ob('returns-old', okr, 'next() returns the id before the advance (MAX on the wrapping arm): consecutive calls never return the same id', '%d TxId::new sites' % len(news), loc_of(b))
    d = P.fn('<rodbus::common::frame::TxId as core::default::Default>::default')
    n = one(d.calls('rodbus::common::frame::TxId::new'), 'TxId::new in default')
    c.ob('starts-at-zero', q.const_val(d, n.args[0]) == 0, 'a new loop starts at transaction id 0', '', loc_of(d))
    a = P.adt('rodbus::common::frame::TxId')
    c.ob('private', all(f['vis'] != 'Public' and f['ty'] == 'u16' for v in a['variants'] for f in v['fields']), 'the counter is a private u16', '')


@rule('C11', 'R11.6', 'a late or unsolicited reply is consumed whole and discarded: the reader (buffer + parser) is never reset in the middle of a session (C05/R05.7)')
def r6(c):
    from rules import c05
    c05.r7(c)


@rule('C11', 'R11.7', 'the id sequence belongs to the channel, not to a connection: the counter is only ever advanced (TxId::next), never re-assigned after construction')
def r7(c):
    P = c.P
    writers = []
    for bb in P.all_bodies(crate='rodbus'):
        if bb.kind in ('Static', 'Const') or bb.is_promoted:
            continue
        for i, s_ in bb.assigns():
            pl = s_['pl']
            if pl['p'] and pl['p'][-1].endswith(':tx_id') and len(pl['p']) >= 1 and not (s_['rv']['r'] == 'agg'):
                base = q.sem(bb, {'l': pl['l'], 'p': pl['p'][:-1]})
                if q.sem_is_name(bb, base, 'self'):
                    writers.append('%s:%s' % (P.logical_name(bb), s_.get('line')))
        for cs in bb.calls():
            if cs.dest['p'] and cs.dest['p'][-1].endswith(':tx_id') and 'ClientLoop' in (bb.self_ty or bb.path):
                writers.append('%s:%s' % (P.logical_name(bb), cs.line))
    c.ob('tx_id/no-reassignment', not writers, 'no statement assigns `self.tx_id` (a session restart keeps counting where the last session stopped: a late reply of the old connection can never match the first request of the new one)', str(writers))
    a = P.adt(CL)
    ty = {f['name']: f['ty'] for v in a['variants'] for f in v['fields']}
    c.ob('tx_id/field', ty.get('tx_id', '').endswith('TxId'), 'ClientLoop owns the TxId counter', ty.get('tx_id', ''))


@rule('C11', 'R11.8', 'submission order: the command intake hands out exactly what tokio\'s FIFO queue yields, one for one, and keeps nothing aside')
def r8(c):
    P = c.P
    R = 'rodbus::channel::Receiver'
    a = P.adt(R)
    fl = [f for v in a['variants'] for f in v['fields']]
    c.ob('intake/no-side-buffer', len(fl) == 1 and norm(fl[0]['ty']).startswith('tokio::sync::mpsc::bounded::Receiver<'), 'channel::Receiver wraps the tokio receiver and nothing else (no place where commands could wait out of order)', str([f['ty'] for f in fl]))
    r = P.fn(R + '::recv')
    c.saw(r, len(r.calls()))
    inner = r.calls('tokio::sync::mpsc::bounded::Receiver::recv')
    ok = len(inner) == 1 and not r.in_cycle(inner[0].node)
    det = '%d inner recv' % len(inner)
    if ok:
        for x in q.exits(r):
            if x['kind'] == 'call' and x['cs'].is_('core::option::Option::ok_or', 'core::option::Option::ok_or_else'):
                ok = ok and q.is_result_of(r, x['cs'].args[0], 'tokio::sync::mpsc::bounded::Receiver::recv')
            elif x['kind'] == 'agg' and x['variant'] == 'Ok':
                s = q.sem(r, x['rv']['a'][0])
                ok = ok and s.kind == 'call' and s.cs is inner[0] and ':Some' in ''.join(s.proj)
            elif x['kind'] == 'agg' and x['variant'] == 'Err':
                ok = ok and q.dominated_by_any(r, q.outcomes(r, inner[0]).get('None', []), x['node'])
            else:
                ok = False
                det += '; exit %s' % x['kind']
    c.ob('intake/one-for-one', ok, 'channel::Receiver::recv awaits the queue once and returns that very item (Err(Shutdown) only when the queue is closed)', det, loc_of(r))
