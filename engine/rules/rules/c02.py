"""C02 — application handlers see only valid, correctly decoded requests, exactly once (structural clauses)."""
from core import rule, loc_of
from facts import AnchorLost, norm
import q, effects
from tables import *
from rules.c08 import one, hf, IS_AUTH, PARSE, GET_REPLY, EXECUTE, INTO_BC, HGET, HITER, LOCK, WIRE_WRITE

FC_GET = 'rodbus::common::function::FunctionCode::get'
RUN_ONE = 'rodbus::server::task::SessionTask::run_one'
APP = [RH + m for m in HANDLER_METHOD.values()]


def app_calls(body):
    return [cs for cs in body.calls() if cs.declared in APP]


@rule('C02', 'R02.1', 'who may call the application: only Request::get_reply (and its read closures) and BroadcastRequest::execute')
def r1(c):
    P = c.P
    n = 0
    allowed = {GET_REPLY, EXECUTE}
    for m in APP:
        sites = P.callers(m, crate='rodbus')
        n += len(sites)
        for cs in sites:
            where = P.logical_name(cs.body)
            c.ob('caller/%s/%s' % (m.rsplit('::', 1)[-1], where), where in allowed,
                 'RequestHandler::%s is called only from get_reply / BroadcastRequest::execute' % m.rsplit('::', 1)[-1],
                 'called from %s' % where, cs.loc())
    c.floor('RequestHandler call sites in rodbus', n, 12)
    c.call_sites += n
    # positive control: the fixture has a deliberate extra caller
    FX = c.FX
    fx_sites = FX.callers('posctl::dispatch::Handler::effect')
    c.control('who-may-call sees fixture callers', len(fx_sites) >= 5)


@rule('C02', 'R02.2', 'the dispatch chain: get_reply and execute are reached only from handle_frame, handle_frame only from run_one')
def r2(c):
    P = c.P
    for callee, want in ((GET_REPLY, HANDLE_FRAME), (EXECUTE, HANDLE_FRAME), (HANDLE_FRAME, RUN_ONE), (PARSE, HANDLE_FRAME), (INTO_BC, HANDLE_FRAME)):
        sites = P.callers(callee)
        where = sorted({P.logical_name(cs.body) for cs in sites})
        c.ob('callers/%s' % callee.rsplit('::', 1)[-1], where == [want], '%s is called only from %s' % (callee, want), str(where),
             sites[0].loc() if sites else None, examined=len(sites))
        c.call_sites += len(sites)


@rule('C02', 'R02.3', 'parse-before-dispatch: handler calls are dominated by the function-code, parse, authorization and unit guards')
def r3(c):
    b = hf(c)
    get = one(b.calls(FC_GET), 'FunctionCode::get')
    parse = one(b.calls(PARSE), 'Request::parse')
    auth = one(b.calls(IS_AUTH), 'is_authorized')
    reply = one(b.calls(GET_REPLY), 'get_reply')
    execs = one(b.calls(EXECUTE), 'execute')
    some_fc = q.outcomes(b, get).get('Some', [])
    ok_parse = q.outcomes(b, parse).get('Ok', [])
    allow = q.outcomes(b, auth).get('Allow', [])
    deny = q.outcomes(b, auth).get('Deny', [])
    # function code handed to parse is the looked-up one; cursor is the one the function byte was read from
    s = q.sem(b, parse.args[0])
    c.ob('parse/function', s.kind == 'call' and s.cs is get, 'Request::parse receives the function returned by FunctionCode::get', repr(s), parse.loc())
    s = q.sem(b, get.args[0])
    rd = s.cs if s.kind == 'call' else None
    c.ob('get/value', rd is not None and rd.is_('scursor::read::ReadCursor::read_u8'), 'FunctionCode::get receives the byte read from the payload cursor', repr(s), get.loc())
    if rd is not None:
        c.ob('cursor/same', q.same_value(b, rd.args[0], parse.args[1]) or
             (q.chain_names(b, rd.args[0]) and set(q.chain_names(b, rd.args[0])) & set(q.chain_names(b, parse.args[1]))),
             'parse continues on the same cursor the function code was read from',
             '%s vs %s' % (q.chain_names(b, rd.args[0]), q.chain_names(b, parse.args[1])), parse.loc())
        pay = [cs for cs in b.calls('rodbus::common::frame::Frame::payload')]
        c.ob('cursor/payload', len(pay) == 1 and q.is_name(b, pay[0].args[0], 'frame'), 'the cursor is over frame.payload()', '%d payload() calls' % len(pay), loc_of(b))
    for cs, nm in ((reply, 'get_reply'), (execs, 'execute')):
        c.ob('%s/some-function' % nm, q.dominated_by_any(b, some_fc, cs.node), '%s is dominated by the Some edge of FunctionCode::get' % nm, str(some_fc), cs.loc())
        c.ob('%s/ok-parse' % nm, q.dominated_by_any(b, ok_parse, cs.node), '%s is dominated by the Ok edge of Request::parse' % nm, str(ok_parse), cs.loc())
        c.ob('%s/allowed' % nm, q.dominated_by_any(b, allow, cs.node) and not any(b.reaches(d, cs.node) for d in deny),
             '%s is dominated by the Allow edge of is_authorized and unreachable from Deny' % nm, 'allow %s deny %s' % (allow, deny), cs.loc())
    # unit addressing
    dest_sw = [(e, v, info) for (e, v, info) in b.variant_edges('rodbus::common::frame::FrameDestination')
               if q.sem_is_name(b, q.sem(b, info['place']), 'frame')]
    unit_edges = [e for e, v, _ in dest_sw if v == 'UnitId']
    bc_edges = [e for e, v, _ in dest_sw if v == 'Broadcast']
    c.ob('get_reply/unit-arm', q.dominated_by_any(b, unit_edges, reply.node) and not any(b.reaches(e, reply.node) for e in bc_edges),
         'get_reply only in the FrameDestination::UnitId arm', 'unit edges %s' % unit_edges, reply.loc())
    c.ob('execute/broadcast-arm', q.dominated_by_any(b, bc_edges, execs.node) and not any(b.reaches(e, execs.node) for e in unit_edges),
         'execute only in the FrameDestination::Broadcast arm', 'broadcast edges %s' % bc_edges, execs.loc())
    hget = one(b.calls(HGET), 'handlers.get')
    s = q.sem(b, hget.args[1])
    pj = ''.join(s.proj)
    c.ob('lookup/unit-id', q.sem_is_name(b, s, 'frame') and 'destination' in pj and ':UnitId' in pj,
         "the handler is looked up with the frame's own unit id", repr(s), hget.loc())
    some_h = q.outcomes(b, hget).get('Some', [])
    c.ob('get_reply/handler-found', q.dominated_by_any(b, some_h, reply.node), 'get_reply is dominated by the Some edge of handlers.get', str(some_h), reply.loc())
    # the handler passed to get_reply is the one looked up (through lock/unwrap/deref/as_mut)
    cl = b.op_closure(reply.args[2])
    c.ob('get_reply/handler-identity', ('call', HGET, hget.block) in cl and any(x[0] == 'call' and x[1] == LOCK for x in cl),
         'the handler given to get_reply derives from handlers.get(unit_id) through Mutex::lock', 'dependence closure has %d items' % len(cl), reply.loc())
    ibc = one(b.calls(INTO_BC), 'into_broadcast_request')
    s = q.sem(b, execs.args[0])
    c.ob('execute/request', s.kind == 'call' and s.cs is ibc and q.has_success(s.proj), 'execute runs the BroadcastRequest returned by into_broadcast_request', repr(s), execs.loc())
    some_bc = q.outcomes(b, ibc).get('Some', [])
    c.ob('execute/some', q.dominated_by_any(b, some_bc, execs.node), 'execute is dominated by the Some edge of into_broadcast_request', str(some_bc), execs.loc())
    # controls
    FX = c.FX
    fb = FX.fn('posctl::dispatch::bad_effect_before_parse')
    p = one(fb.calls('posctl::dispatch::parse'), 'fixture parse')
    e = one(fb.calls('posctl::dispatch::Handler::effect'), 'fixture effect')
    c.control('effect before checked parse is seen', not q.dominated_by_any(fb, q.outcomes(fb, p).get('success', []), e.node))
    gb = FX.fn('posctl::dispatch::good_effect_after_parse')
    p = one(gb.calls('posctl::dispatch::parse'), 'fixture parse')
    e = one(gb.calls('posctl::dispatch::Handler::effect'), 'fixture effect')
    c.control('compliant twin is silent', q.dominated_by_any(gb, q.outcomes(gb, p).get('success', []), e.node))


@rule('C02', 'R02.4', 'exactly once: one handler call per request arm, none in a loop; broadcast fan-out loops over the handler map only')
def r4(c):
    P = c.P
    b = hf(c)
    reply = one(b.calls(GET_REPLY), 'get_reply')
    execs = one(b.calls(EXECUTE), 'execute')
    c.ob('get_reply/acyclic', not b.in_cycle(reply.node), 'get_reply is not inside a loop', '', reply.loc())
    cyc = b.cycle_of(execs.node)
    okc = cyc is not None
    it = [cs for cs in b.calls(HITER)]
    nexts = [cs for cs in b.calls() if cs.declared == 'core::iter::traits::iterator::Iterator::next' and cyc and cs.node in cyc]
    ok_iter = False
    for nx in nexts:
        cl = b.op_closure(nx.args[0])
        if any(x[0] == 'call' and x[1] == HITER for x in cl):
            ok_iter = True
    c.ob('execute/loop', okc and len(it) == 1 and len(nexts) == 1 and ok_iter,
         'execute sits in exactly the loop driven by handlers.iter_mut()', 'iter_mut sites %d, next() in loop %d' % (len(it), len(nexts)), execs.loc())
    # other loops must not contain it: the only cycle containing execute is that one (SCC is unique by construction)
    fb = c.FX.fn('posctl::dispatch::bad_effect_in_loop')
    e = one(fb.calls('posctl::dispatch::Handler::effect'), 'fixture effect')
    c.control('effect in a loop is seen', fb.in_cycle(e.node))

    # get_reply: per-arm handler calls
    g = P.fn(GET_REPLY)
    c.saw(g, len(g.calls()))
    arms = q.arms_of(g, REQ)
    n = 0
    for v in REQUESTS:
        meth = RH + HANDLER_METHOD[v]
        lst = arms.get(v, [])
        if not c.ob('get_reply/arm/%s' % v, len(lst) >= 1, 'get_reply has an arm for Request::%s' % v, '', loc_of(g)):
            continue
        region = set()
        for e, reg in lst:
            region |= reg
        direct = [cs for cs in q.calls_in(g, region) if cs.declared in APP]
        closures = []
        for i, s in g.assigns():
            if ('b', i) in region and s['rv']['r'] == 'agg' and 'closure' in s['rv']:
                closures.append(norm(s['rv']['closure']))
        inner = []
        for cp in closures:
            cb = P.get(cp)
            if cb is None:
                continue
            c.saw(cb, len(cb.calls()))
            for cs in app_calls(cb):
                inner.append((cb, cs))
        if v in READS:
            ok = not direct and len(inner) == 1 and inner[0][1].declared == meth and not inner[0][0].in_cycle(inner[0][1].node)
            c.ob('get_reply/arm/%s/handler' % v, ok, 'the %s arm reads only through one closure calling %s once' % (v, HANDLER_METHOD[v]),
                 'direct %s, in closures %s' % ([x.declared for x in direct], [x[1].declared for x in inner]), loc_of(g))
            if ok:
                cb, cs = inner[0]
                # the address given to the handler is the closure's own argument
                s = q.sem(cb, cs.args[1])
                c.ob('get_reply/arm/%s/address' % v, s.kind == 'place' and s.local == 2, 'the handler is asked for exactly the address the writer passes in', repr(s), cs.loc())
        else:
            ok = not inner and len(direct) == 1 and direct[0].declared == meth and not g.in_cycle(direct[0].node)
            c.ob('get_reply/arm/%s/handler' % v, ok, 'the %s arm calls %s exactly once, outside any loop' % (v, HANDLER_METHOD[v]),
                 'direct %s, in closures %s' % ([x.declared for x in direct], [x[1].declared for x in inner]), loc_of(g))
            if ok:
                s = q.sem(g, direct[0].args[1])
                pj = ''.join(s.proj)
                c.ob('get_reply/arm/%s/payload' % v, q.sem_is_name(g, s, 'self') and (':' + v) in pj, 'the handler receives the matched request payload', repr(s), direct[0].loc())
                h = q.sem(g, direct[0].args[0])
                c.ob('get_reply/arm/%s/receiver' % v, q.is_name(g, direct[0].args[0], 'handler'), 'the receiver is the `handler` parameter', repr(h), direct[0].loc())
        if ok:
            n += 1
    c.exact('get_reply arms with exactly one handler call', n, 8)
    tot = len(app_calls(g)) + sum(len(app_calls(x)) for x in P.nested(GET_REPLY) if x is not g)
    c.ob('get_reply/total', tot == 8, 'get_reply and its closures contain exactly 8 handler call sites', 'found %d' % tot, loc_of(g))

    # the getter closure stored in BitWriter / RegisterWriter is invoked only while serialising, once per address
    for W in ('BitWriter', 'RegisterWriter'):
        ser = P.fn('<rodbus::server::response::%s<T> as rodbus::common::traits::Serialize>::serialize' % W)
        log = P.fn('<rodbus::server::response::%s<T> as rodbus::common::traits::Loggable>::log' % W)
        c.saw(ser, len(ser.calls()))
        c.saw(log, len(log.calls()))
        def getter_calls(body):
            out = []
            for cs in body.calls():
                if (cs.declared or '').startswith('core::ops::function::Fn') or cs.indirect is not None:
                    if q.is_tracing(cs):
                        continue
                    out.append(cs)
            return out
        gs = getter_calls(ser)
        okg = len(gs) == 1
        detail = '%d getter invocations' % len(gs)
        if okg:
            cyc = ser.cycle_of(gs[0].node)
            nx = [cs for cs in ser.calls() if cs.declared == 'core::iter::traits::iterator::Iterator::next' and cyc and cs.node in cyc]
            okg = cyc is not None and len(nx) == 1 and nx[0].resolved == '<rodbus::types::AddressIterator as core::iter::traits::iterator::Iterator>::next'
            detail += ', loop driven by %s' % [x.resolved for x in nx]
            # the address passed to the getter is the iterator's item
            if okg:
                s = q.sem(ser, gs[0].args[1]) if len(gs[0].args) > 1 else None
                it_ok = False
                if s is not None:
                    clo = ser.op_closure(gs[0].args[1])
                    it_ok = any(x[0] == 'call' and x[2] == nx[0].block for x in clo)
                okg = it_ok
                detail += ', argument from iterator: %s' % it_ok
        c.ob('getter/%s/serialize' % W, okg, '%s::serialize invokes the getter once per address of AddressRange::iter()' % W, detail, loc_of(ser))
        c.ob('getter/%s/log' % W, not getter_calls(log), '%s::log never invokes the getter (logging re-parses the bytes)' % W,
             '%d invocations' % len(getter_calls(log)), loc_of(log))
    # serialize is called once per reply
    for f in ('rodbus::tcp::frame::format_mbap', 'rodbus::serial::frame::format_rtu_pdu'):
        if not P.has(f):
            continue
        fb = P.fn(f)
        c.saw(fb, len(fb.calls()))
        sc = [cs for cs in fb.calls() if cs.declared == 'rodbus::common::traits::Serialize::serialize']
        c.ob('serialize-once/%s' % f.rsplit('::', 1)[-1], len(sc) == 1 and not fb.in_cycle(sc[0].node), '%s serialises the message exactly once' % f, '%d sites' % len(sc), loc_of(fb))


@rule('C02', 'R02.5', 'decoded write payloads: the range handed to the handler is the range the data was parsed against')
def r5(c):
    P = c.P
    b = P.fn(PARSE)
    c.saw(b, len(b.calls()))
    arms = q.arms_of(b, FC)
    for v, ctor, it in (('WriteMultipleCoils', 'rodbus::server::types::WriteCoils::new', 'rodbus::types::BitIterator::parse_all'),
                        ('WriteMultipleRegisters', 'rodbus::server::types::WriteRegisters::new', 'rodbus::types::RegisterIterator::parse_all')):
        region = set()
        for e, reg in arms.get(v, []):
            region |= reg
        new = [cs for cs in q.calls_in(b, region) if cs.is_(ctor)]
        pa = [cs for cs in q.calls_in(b, region) if cs.is_(it)]
        if not c.ob('arm/%s/sites' % v, len(new) == 1 and len(pa) == 1, 'the %s arm builds one %s from one %s' % (v, ctor, it), 'new %d parse_all %d' % (len(new), len(pa)), loc_of(b)):
            continue
        c.ob('arm/%s/same-range' % v, q.same_value(b, new[0].args[0], pa[0].args[0]), 'the range given to the handler is the one parse_all validated the data against',
             '%r vs %r' % (q.sem(b, new[0].args[0]), q.sem(b, pa[0].args[0])), new[0].loc())
        s = q.sem(b, new[0].args[1])
        c.ob('arm/%s/iterator' % v, s.kind == 'call' and s.cs is pa[0] and s.checked, 'the iterator given to the handler is the checked result of parse_all', repr(s), new[0].loc())
        r = q.through_checks(P, b, pa[0].args[0])
        c.ob('arm/%s/range-parsed' % v, r.kind == 'call' and r.cs.callee == '<rodbus::types::AddressRange as rodbus::common::traits::Parse>::parse' and r.checked,
             'the range is the checked result of AddressRange::parse on the request cursor (possibly through value-preserving limit checks)', repr(r), pa[0].loc())
    # write-single arms hand the parsed Indexed straight through
    for v in ('WriteSingleCoil', 'WriteSingleRegister'):
        region = set()
        for e, reg in arms.get(v, []):
            region |= reg
        aggs = [(i, s) for i, s in q.aggs_in(b, region, REQ) if s['rv']['variant'] == v]
        if not c.ob('arm/%s/agg' % v, len(aggs) == 1, 'the %s arm builds Request::%s once' % (v, v), '%d' % len(aggs), loc_of(b)):
            continue
        s = q.sem(b, aggs[0][1]['rv']['a'][0])
        c.ob('arm/%s/payload' % v, s.kind == 'call' and s.cs.callee == REQ_DECODER[v] and s.checked, 'payload is the checked result of %s' % REQ_DECODER[v], repr(s), loc_of(b, stmt=aggs[0][1]))


@rule('C02', 'R02.6', 'signature facts: reads take &self, writes &mut self; the handler is handed over as &mut dyn RequestHandler')
def r6(c):
    P = c.P
    for v in REQUESTS:
        b = P.outer(RH + HANDLER_METHOD[v])
        want_mut = v in WRITES
        st = b.sig_in[0] if b.sig_in else ''
        ok = st.startswith('&mut ') if want_mut else (st.startswith('&') and not st.startswith('&mut '))
        c.ob('self/%s' % HANDLER_METHOD[v], ok, 'RequestHandler::%s takes %s' % (HANDLER_METHOD[v], '&mut self' if want_mut else '&self'), st, loc_of(b))
    g = P.outer(GET_REPLY)
    c.ob('get_reply/handler-type', 'dyn rodbus::server::handler::RequestHandler' in g.sig_in[2] and g.sig_in[2].startswith('&mut'),
         'get_reply receives the handler itself (&mut dyn RequestHandler), not the mutex', g.sig_in[2], loc_of(g))


# ---- clauses shared with C01 / C17 (same rule bodies, reported under C02's keys) ---------------------------
from rules import c01 as _c01, c17 as _c17


@rule('C02', 'R02.7', 'within protocol limits: the quantity limits of C01/R01.4 guard every request that can reach a handler')
def r7(c):
    _c01.r4(c)


@rule('C02', 'R02.8', 'exact length and range validity (C01/R01.3, R01.5): malformed requests never parse')
def r8(c):
    _c01.r3(c)
    _c01.r5(c)


@rule('C02', 'R02.9', 'addressing: Broadcast destinations come only from the RTU parser for address 0 (C17/R17.5); TCP frames always name a unit',
      needs=lambda P: P.has('rodbus::serial::frame::RtuParser::parse'))
def r9(c):
    _c17.r5(c)


@rule('C02', 'R02.10', 'the bytes a request is decoded from are the bytes received: receive-buffer discipline (C05/R05.6)')
def r10(c):
    from rules import c05
    c05.r6(c)


@rule('C02', 'R02.11', 'where authorization is configured, the request is submitted to the callback of its own kind (C08/R08.3)')
def r11(c):
    from rules import c08
    c08.r3(c)


@rule('C02', 'R02.12', 'after a frame the framing layer rejected nothing more is decoded from that connection: a framing error ends the session (C05/R05.5)')
def r12(c):
    from rules import c05
    c05.r5(c)


@rule('C02', 'R02.13', 'the values a write handler is given are the values that were sent: bit k of the request is bit (k % 8) of data byte (k / 8), register k is data bytes 2k, 2k + 1, the address is start + k (C04/R04.8)')
def r13(c):
    from rules import c04
    c04.r8(c)


@rule('C02', 'R02.14', 'no handler call for bytes of another connection or another frame: framing state is reset for every session and never in the middle of one (C05/R05.7)')
def r14(c):
    from rules import c05
    c05.r7(c)


@rule('C02', 'R02.15', 'a broadcast write reaches the write handler of every configured unit exactly once: the fan-out loop is left only when the handlers are exhausted (C17/R17.4)')
def r15(c):
    from rules import c17
    c17.r4(c)
