"""C10 — every client request completes exactly once (ownership / typestate half; liveness under schedules is NOT decided)."""
from core import rule, loc_of
from facts import AnchorLost, norm
import q, effects
from tables import *
from rules.c08 import one
from rules.c11 import CL, EXEC, RUN_ONE
from rules.c03 import RD, REQ_TYPES, FLAVOURS, API_METHOD

RE = 'rodbus::error::RequestError'
PROMISES = {
    'rodbus::client::message::Promise': ['complete'],
    'rodbus::client::requests::read_bits::Promise': ['failure', 'success'],
    'rodbus::client::requests::read_registers::Promise': ['failure', 'success'],
}
COMPLETERS = ('tokio::sync::oneshot::Sender::send',)


def completion_calls(b):
    out = []
    for cs in b.calls():
        if cs.is_(*COMPLETERS):
            out.append(cs)
        elif (cs.declared or '').startswith('core::ops::function::FnOnce') or cs.indirect is not None:
            if not q.is_tracing(cs):
                out.append(cs)
    return out


@rule('C10', 'R10.1', 'at most once: every completion effect is behind Option::take of the promise\'s inner value')
def r1(c):
    P = c.P
    n = 0
    for p, fns in PROMISES.items():
        a = P.adt(p)
        fld = [f for v in a['variants'] for f in v['fields']]
        c.ob('%s/field' % p.split('::')[-2], len(fld) == 1 and fld[0]['name'] == 'inner' and fld[0]['ty'].startswith('core::option::Option<') and fld[0]['vis'] != 'Public',
             '%s holds its completion target in a private Option' % p, str([(f['name'], f['ty'][:40]) for f in fld]))
        touching = set()
        for b in P.all_bodies(crate='rodbus'):
            if b.auto_derived:
                continue
            for i, s in b.assigns():
                for pl in [s['pl']] + ([s['rv']['pl']] if 'pl' in s['rv'] else []) + [a_['pl'] for a_ in s['rv'].get('a', []) if a_.get('k') in ('copy', 'move')]:
                    if any(x.endswith(':inner') for x in pl['p']) and b.path.startswith(p + '::') or (b.self_ty and norm(b.self_ty).startswith(p) and any(x.endswith(':inner') for x in pl['p'])):
                        touching.add(P.logical_name(b))
        allowed = {p + '::' + f for f in fns} | {p + '::new', p + '::channel', p + '::oneshot'}
        c.ob('%s/inner-users' % p.split('::')[-2], touching <= allowed, 'only the constructors and the completing functions touch `inner`', str(sorted(touching - allowed)))
        for f in fns:
            b = P.fn(p + '::' + f)
            c.saw(b, len(b.calls()))
            tk = [cs for cs in b.calls('core::option::Option::take') if q.sem_is_name(b, q.sem(b, cs.args[0]), 'self') and any('inner' in x for x in q.sem(b, cs.args[0]).proj)]
            cc = completion_calls(b)
            ok = len(tk) == 1 and len(cc) >= 2
            some = q.outcomes(b, tk[0]).get('Some', []) if tk else []
            for cs in cc:
                n += 1
                ok = ok and q.dominated_by_any(b, some, cs.node) and not b.in_cycle(cs.node)
                # the target completed is the taken value
                cl = b.op_closure(cs.args[0])
                ok = ok and any(x[0] == 'call' and x[2] == tk[0].block for x in cl)
            # the two completion calls are on different arms (never both)
            if len(cc) == 2:
                ok = ok and not b.reaches(cc[0].ret, cc[1].node) and not b.reaches(cc[1].ret, cc[0].node)
            c.ob('%s::%s/take-then-complete' % (p.split('::')[-2], f), ok, 'completion (oneshot send or boxed callback) happens only on the Some edge of self.inner.take(), on exclusive arms',
                 '%d take, %d completion calls' % (len(tk), len(cc)), loc_of(b))
    c.floor('completion call sites', n, 10)
    # generic Promise: failure/success delegate to complete
    for f in ('failure', 'success'):
        b = P.fn('rodbus::client::message::Promise::' + f)
        cl = b.calls('rodbus::client::message::Promise::complete')
        c.ob('message::Promise::%s' % f, len(cl) == 1 and not completion_calls(b), 'Promise::%s only delegates to complete' % f, '', loc_of(b))
    # callbacks are FnOnce
    for t in ('rodbus::client::message::Callback', 'rodbus::client::requests::read_bits::BitsCallback', 'rodbus::client::requests::read_registers::RegistersCallback'):
        tr = P.traits.get(t)
        if tr is None:
            raise AnchorLost('trait %s' % t)
        c.ob('%s/FnOnce' % t.rsplit('::', 1)[-1], any('FnOnce' in s for s in tr['supers']) and not any('FnMut' in s and 'FnOnce' not in s for s in tr['supers']), '%s is an FnOnce bound (a callback can be invoked at most once by construction)' % t, str(tr['supers'])[:200])
    fx = c.FX.fn('posctl::promise::complete_without_take')
    cc = completion_calls(fx)
    c.control('completion without take is seen', len(cc) == 1 and not fx.calls('core::option::Option::take'))


@rule('C10', 'R10.2', 'backstop: dropping an uncompleted promise fails it with Shutdown')
def r2(c):
    P = c.P
    for p in PROMISES:
        d = P.fn('<%s%s as core::ops::drop::Drop>::drop' % (p, '<T>' if p.endswith('message::Promise') else ''))
        c.saw(d, len(d.calls()))
        fl = [cs for cs in d.calls(p + '::failure')]
        ok = len(fl) == 1 and q.is_name(d, fl[0].args[0], 'self') and q.agg_variant_of(d, fl[0].args[1]) == (RE, 'Shutdown')
        c.ob('drop/%s' % p.split('::')[-2], ok, 'Drop for %s calls self.failure(RequestError::Shutdown)' % p, '', loc_of(d))
        # unconditionally: every path through drop() passes the call (no early return under some condition)
        unc = ok and all(d.postdominates(fl[0].node, n) or n == fl[0].node for n in [d.entry]) and not d.in_cycle(fl[0].node)
        c.ob('drop/%s/unconditional' % p.split('::')[-2], unc, 'every path through drop() reaches that call: the backstop does not depend on any condition', '', loc_of(d))


@rule('C10', 'R10.3', 'no leak: rodbus never forgets / leaks a value (a leaked promise would never complete)')
def r3(c):
    P = c.P
    LEAKS = ('core::mem::forget', 'core::mem::manually_drop::ManuallyDrop::new', 'alloc::boxed::Box::leak', 'alloc::boxed::Box::into_raw', 'alloc::sync::Arc::into_raw', 'alloc::rc::Rc::into_raw', 'alloc::vec::Vec::leak')
    sites = P.callers(*LEAKS, crate='rodbus')
    c.ob('leak-apis', not sites, 'no call to mem::forget / ManuallyDrop::new / Box::leak / into_raw in rodbus', str([(cs.callee, cs.loc()) for cs in sites]), examined=len(list(P.all_bodies(crate='rodbus'))))
    fx = c.FX.callers(*LEAKS)
    c.control('mem::forget in the fixture is seen', len(fx) >= 1)


@rule('C10', 'R10.4', 'fail in one place: a request is failed by run_one_request (connected) or fail_next_request (not connected) only')
def r4(c):
    P = c.P
    FAIL = RD + '::fail'
    sites = P.callers(FAIL)
    where = sorted({P.logical_name(cs.body) for cs in sites})
    c.ob('callers', where == sorted([RUN_ONE, CL + '::fail_next_request']) and len(sites) == 2, 'RequestDetails::fail has exactly two call sites', str(where), examined=len(sites))
    b = P.fn(RUN_ONE)
    fl = one(b.calls(FAIL), 'fail in run_one_request')
    c.ob('run_one_request/once', not b.in_cycle(fl.node), 'one failure site, not in a loop', '', fl.loc())
    res = [(e, v) for e, v, info in b.variant_edges('core::result::Result') if q.is_result_of(b, info['place'], EXEC)]
    err_e = [e for e, v in res if v == 'Err']
    ok_e = [e for e, v in res if v == 'Ok']
    c.ob('run_one_request/on-error', q.dominated_by_any(b, err_e, fl.node) and not any(b.reaches(e, fl.node) for e in ok_e), 'it is on the Err edge of the transaction result only', '', fl.loc())
    c.ob('run_one_request/always-failed', bool(err_e) and all(b.postdominates(fl.node, e) for e in err_e),
         'every path from the Err edge to a return passes through details.fail (the request never relies on the Drop backstop while the task is alive)', '', fl.loc())
    er = q.sem(b, fl.args[1])
    c.ob('run_one_request/error-passed', q.is_error_of(b, fl.args[1], EXEC), 'the request is failed with the transaction\'s own error', repr(er), fl.loc())
    c.ob('run_one_request/same-request', q.is_name(b, fl.args[0], 'request'), 'the request failed is the one that was executed', '', fl.loc())
    # success is reported only by handle_response (C04/R04.3); run_one_request does not complete on Ok
    okc = [cs for cs in b.calls() if q.dominated_by_any(b, ok_e, cs.node) and 'completion' in effects.get(P).of_call(cs)]
    c.ob('run_one_request/ok-no-second-completion', not okc, 'on Ok nothing else completes the request (handle_response already did)', str([x.callee for x in okc]), loc_of(b))
    f = P.fn(CL + '::fail_next_request')
    fl2 = one(f.calls(FAIL), 'fail in fail_next_request')
    c.ob('fail_next_request/NoConnection', q.agg_variant_of(f, fl2.args[1]) == (RE, 'NoConnection'), 'a request received while not connected fails with NoConnection', str(q.agg_variant_of(f, fl2.args[1])), fl2.loc())
    arms = [(e, v) for e, v, info in f.variant_edges('rodbus::client::message::Command')]
    req_e = [e for e, v in arms if v == 'Request']
    c.ob('fail_next_request/request-arm', q.dominated_by_any(f, req_e, fl2.node) and not f.in_cycle(fl2.node), 'only on the Command::Request arm, once', '', fl2.loc())
    s = q.initial_value(f, q.sem(f, fl2.args[0]))
    rcv = f.calls('rodbus::channel::Receiver::recv')
    # every place that takes a Command::Request off the queue hands it on: executes it or fails it explicitly
    n_arms = 0
    for bb in P.all_bodies(crate='rodbus'):
        if 'rodbus::client::task' not in bb.path or bb.kind in ('Static', 'Const') or bb.is_promoted:
            continue
        for e, v, info in bb.variant_edges('rodbus::client::message::Command'):
            if v != 'Request' or e not in bb.reachable:
                continue
            n_arms += 1
            sinks = {cs.node for cs in bb.calls(FAIL, RUN_ONE)}
            rs = bb.reach_set(e, avoid=sinks)
            esc = [n_ for n_ in rs if n_[0] == 'b' and bb.blocks[n_[1]]['term']['t'] in ('return', 'yield')]
            c.ob('dequeued-request/%s' % P.logical_name(bb).rsplit('::', 1)[-1], bool(sinks) and not esc,
                 'a request taken off the queue is always executed (run_one_request) or failed explicitly (details.fail) before the function returns or waits again - never just dropped (the Drop backstop would report Shutdown although the task is alive)',
                 '%d paths escape' % len(esc), loc_of(bb, e[1]))
    c.floor('Command::Request arms', n_arms, 2)
    c.ob('fail_next_request/that-request', s.kind == 'call' and len(rcv) == 1 and s.cs is rcv[0] and ':Request' in ''.join(s.proj), 'the request failed is the one just dequeued (the payload of the Command::Request received)', repr(s), fl2.loc())


@rule('C10', 'R10.5', 'error kinds: NoConnection / Shutdown / ResponseTimeout / Io come from their one cause')
def r5(c):
    P = c.P
    for src, want in (('tokio::sync::mpsc::error::SendError<T>', 'Shutdown'), ('tokio::sync::oneshot::error::RecvError', 'Shutdown')):
        b = P.find_impl('core::convert::From', RE, 'from', src)
        xs = q.exits(b)
        c.ob('from/%s' % src.split('::')[-1], len(xs) == 1 and xs[0]['kind'] == 'agg' and xs[0]['adt'] == RE and xs[0]['variant'] == want, 'From<%s> for RequestError = %s' % (src, want), '', loc_of(b))
    nc = sorted({P.logical_name(x) for x, _, _ in P.constructors(RE, 'NoConnection', crate='rodbus')})
    c.ob('NoConnection/constructors', nc == [CL + '::fail_next_request'], 'NoConnection is produced only by fail_next_request', str(nc))
    sd = sorted({P.logical_name(x) for x, _, _ in P.constructors(RE, 'Shutdown', crate='rodbus')})
    allowed = {'<rodbus::error::RequestError as core::convert::From<tokio::sync::mpsc::error::SendError<T>>>::from', '<rodbus::error::RequestError as core::convert::From<tokio::sync::oneshot::error::RecvError>>::from',
               '<rodbus::client::message::Promise<T> as core::ops::drop::Drop>::drop', '<rodbus::client::requests::read_bits::Promise as core::ops::drop::Drop>::drop',
               '<rodbus::client::requests::read_registers::Promise as core::ops::drop::Drop>::drop', 'rodbus::server::task::SessionTask::run_one'}
    c.ob('Shutdown/constructors', set(sd) <= allowed, 'RequestError::Shutdown is produced only by the dead-task conversions and the promise Drop backstops (and the server session)', str(sorted(set(sd) - allowed)))
    has_ffi = P.has('rodbus::client::ffi_channel::FfiChannel::send')
    tr = P.find_impl('core::convert::From', 'rodbus::client::ffi_channel::FfiChannelError', 'from', 'tokio::sync::mpsc::error::TrySendError<T>') if has_ffi else None
    arms = q.arms_of(tr, 'tokio::sync::mpsc::error::TrySendError') if tr else {}
    exs = q.exits(tr) if tr else []
    for v, want in ((('Full', 'ChannelFull'), ('Closed', 'ChannelClosed')) if tr else ()):
        reg = set()
        for e, r in arms.get(v, []):
            reg |= r
        xs = q.exit_in(tr, reg, exs)
        c.ob('TrySendError/%s' % v, len(xs) == 1 and xs[0]['kind'] == 'agg' and xs[0]['variant'] == want, 'TrySendError::%s -> FfiChannelError::%s' % (v, want), '', loc_of(tr))
    io_ = P.find_impl('core::convert::From', RE, 'from', 'std::io::error::Error')
    xs = q.exits(io_)
    c.ob('from/io', len(xs) == 1 and xs[0]['kind'] == 'agg' and xs[0]['variant'] == 'Io', 'I/O errors are reported as RequestError::Io(kind)', '', loc_of(io_))


@rule('C10', 'R10.6', 'API shapes: one command sent and one completion awaited per call; an unsendable command is dropped (=> backstop)')
def r6(c):
    P = c.P
    n = 0
    for v in REQUESTS:
        b = P.fn('rodbus::client::channel::Channel::' + API_METHOD[v])
        c.saw(b, len(b.calls()))
        snd = b.calls('tokio::sync::mpsc::bounded::Sender::send')
        ch = b.calls('tokio::sync::oneshot::channel')
        ok = len(snd) == 1 and len(ch) == 1 and not b.in_cycle(snd[0].node) and bool(q.outcomes(b, snd[0]).get('failure'))
        # the receiver awaited is the rx of that oneshot::channel, and its result is returned through `?`
        rxp = [cs for cs in b.calls(q.POLL) if (cs.resolved or '').startswith('<tokio::sync::oneshot::Receiver')]
        ok = ok and len(rxp) == 1
        if ok:
            cl = b.op_closure(rxp[0].args[0])
            ok = any(x[0] == 'call' and x[2] == ch[0].block for x in cl) and b.dominates(snd[0].ret, rxp[0].node)
            wr = q.sem(b, snd[0].args[1])
            cw = b.op_closure(snd[0].args[1])
            ok = ok and any(x[0] == 'call' and x[2] == ch[0].block for x in cw)
        c.ob('Channel::%s' % API_METHOD[v], ok, 'sends one command carrying the tx half of a fresh oneshot and awaits its rx half; a send error returns (Shutdown)', '%d send, %d oneshot' % (len(snd), len(ch)), loc_of(b))
        n += 1 if ok else 0
    c.exact('Channel methods', n, 8)
    for f, sender in (('rodbus::client::channel::CallbackSession::send', 'tokio::sync::mpsc::bounded::Sender::send'), ('rodbus::client::ffi_channel::FfiChannel::send', 'tokio::sync::mpsc::bounded::Sender::try_send')):
        if not P.has(f):
            continue
        b = P.fn(f)
        snd = b.calls(sender)
        ok = len(snd) == 1 and q.is_name(b, snd[0].args[1], 'command') and not b.in_cycle(snd[0].node)
        # (the conversion of the send error - which drops the refused command, i.e. lets the Drop backstop complete it - is
        #  part of that: `try_send(command)?` and `.map_err(Error::from)` are the same)
        def of_send_error(cs):
            return bool(snd) and cs.declared in ('core::convert::From::from', 'core::convert::Into::into') and cs.args and q.may_be_error_of(b, cs.args[0], sender)
        other = [cs for cs in b.calls() if not q.is_machinery(cs) and cs is not snd[0] and effects.get(P).of_call(cs) and not of_send_error(cs)]
        c.ob('%s' % '::'.join(f.split('::')[-2:]), ok and not other, 'the command is handed to the queue exactly once and kept nowhere else (if the queue refuses it, it is dropped and the Drop backstop completes it)', '', loc_of(b))


@rule('C10', 'R10.7', 'no request is left pending: the response deadline is fixed once per transaction and every wait for a reply races it (C12/R12.1, R12.2)')
def r7(c):
    from rules import c12
    c12.r1(c)
    c12.r2(c)


@rule('C10', 'R10.8', 'while not connected the queue keeps being serviced: every retry wait of the TCP and serial client tasks is spent in fail_requests_for (requests fail with NoConnection, commands are honoured) (C14/R14.3)')
def r8(c):
    from rules import c14
    c14.r3(c)


@rule('C10', 'R10.9', 'the error tells what happened: inside a transaction a failed write, a failed read / framing error and a rejected reply each end the transaction with that very error')
def r9(c):
    from rules.c11 import NEXT_FRAME, HR
    P = c.P
    b = P.fn(EXEC)
    c.saw(b, len(b.calls()))
    for nm, callee in (('next_frame', NEXT_FRAME), ('write', 'rodbus::common::phys::PhysLayer::write'), ('format_request', 'rodbus::common::frame::FrameWriter::format_request'), ('handle_response', HR)):
        for k, cs in enumerate(b.calls(callee)):
            ok, how, det = q.failure_leaves(b, cs)
            c.ob('%s#%d/fails-transaction' % (nm, k + 1), ok, 'when %s fails, execute_request returns an error on every path (the failure is not swallowed while the request keeps waiting)' % nm, '%s %s' % (how, det), cs.loc())
            if ok and how == 'examined':
                oc = q.outcomes(b, cs)
                exs = [x for x in q.exits(b) if any(x['node'] in q.reach_from_outcome(b, cs, e, oc) or x['node'] == e for e in oc.get('failure', []))]
                bad = [x for x in exs if not _is_that_error(b, x, callee)]
                c.ob('%s#%d/that-error' % (nm, k + 1), bool(exs) and not bad, 'and the error returned is the one %s reported (converted by From)' % nm, str([q.exit_error(b, x) for x in bad])[:200], cs.loc())


def _is_that_error(b, x, callee):
    if x['kind'] == 'call' and x['cs'].is_(q.FROM_RESIDUAL) and x['cs'].args:
        return q.may_be_error_of(b, x['cs'].args[0], callee)
    if x['kind'] == 'agg' and x['variant'] == 'Err':
        return q.may_be_error_of(b, x['rv']['a'][0], callee)
    return False


@rule('C10', 'R10.10', 'a callback handed to the callback API is wrapped into a promise before anything can fail: from then on the Drop backstop (R10.2) owns its completion')
def r10(c):
    import inline
    P = c.P
    CS = 'rodbus::client::channel::CallbackSession'
    helpers = {CS + '::read_bits', CS + '::read_registers'}
    news = tuple(p + '::new' for p in PROMISES)
    n = 0
    for v in REQUESTS:
        f = CS + '::' + API_METHOD[v]
        b = inline.expand(P, P.fn(f), {h for h in helpers if P.has(h)})
        c.saw(b, len(b.calls()))
        pn = [cs for cs in b.calls() if cs.is_(*news)]
        mine = [cs for cs in pn if cs.args and q.is_name(b, cs.args[0], 'callback')]
        ok = len(mine) == 1 and not b.in_cycle(mine[0].node)
        det = '%d promise constructions, %d of the callback' % (len(pn), len(mine))
        if ok:
            okp, leak = q.always_passes(b, b.entry, [mine[0].node])
            ok = okp
            det += '; %d returns reachable without it' % len(leak)
        c.ob('callback-owned/%s' % API_METHOD[v], ok, 'every path through CallbackSession::%s first puts the callback into a promise (no early return can drop a bare callback)' % API_METHOD[v], det, loc_of(b))
        n += 1 if ok else 0
    c.exact('CallbackSession methods', n, 8)


@rule('C10', 'R10.11', 'a late reply cannot complete another request: consecutive requests never share a transaction id (the counter advances by one and wraps, it does not stick) and a frame with a foreign id is skipped (C11/R11.2, R11.5)')
def r11(c):
    from rules import c11
    c11.r2(c)
    c11.r5(c)
