"""C20 — protocol decoding (logging) is purely observational: a non-interference argument by effect analysis."""
from core import rule, loc_of
from facts import AnchorLost, norm
import q, effects, inline
from tables import *
from rules.c08 import one
from rules.c11 import CL, EXEC, RUN_ONE

DEC = 'rodbus::decode::'
PREDICATES = [DEC + 'AppDecodeLevel::' + m for m in ('enabled', 'header', 'data_headers', 'data_values')] + \
             [DEC + 'FrameDecodeLevel::' + m for m in ('enabled', 'header_enabled', 'payload_enabled')] + \
             [DEC + 'PhysDecodeLevel::' + m for m in ('enabled', 'length_enabled', 'data_enabled')]
DL = 'rodbus::decode::DecodeLevel'
LOGGING_TRAITS = ('core::fmt::Display', 'core::fmt::Debug', 'rodbus::common::traits::Loggable')


def decode_switches(P, b):
    """[(switch block, predicate call | None, [enabled edges], [disabled edges])] for branches on a decode predicate,
    including `decode != DecodeLevel::nothing()`"""
    out = []
    for cs in b.calls(*PREDICATES):
        be = q.bool_edges(b, cs)
        if be['true'] or be['false']:
            out.append((cs, be['true'], be['false']))
    for cs in b.calls():
        if cs.declared in ('core::cmp::PartialEq::ne', 'core::cmp::PartialEq::eq') and len(cs.args) == 2:
            srcs = [q.sem(b, a) for a in cs.args]
            if any(s.kind == 'call' and s.cs.is_(DL + '::nothing') for s in srcs):
                be = q.bool_edges(b, cs)
                if cs.declared.endswith('::ne'):
                    out.append((cs, be['true'], be['false']))
                else:
                    out.append((cs, be['false'], be['true']))
    return out


def controlled_region(b, on_edges, off_edges):
    """nodes reachable from the enabled edges but not from the disabled ones (the part only decoding executes)"""
    on = set()
    for e in on_edges:
        on |= b.reach_set(e) | {e}
    off = set()
    for e in off_edges:
        off |= b.reach_set(e) | {e}
    return on - off


@rule('C20', 'R20.1', 'what a decode level switches on is only logging: the controlled region has no wire/app/completion/sync effect, no state write and no return')
def r1(c):
    P = c.P
    E = effects.get(P)
    n = 0
    per_fn = {}
    for b in P.all_bodies(crate='rodbus'):
        if b.kind in ('Static', 'Const') or b.is_promoted:
            continue
        tr = norm(b.trait)
        if tr in LOGGING_TRAITS:
            continue      # the logging code itself (checked by R20.4)
        if P.logical_name(b).startswith(DEC):
            continue
        for cs, on, off in decode_switches(P, b):
            n += 1
            fn_ = P.logical_name(b)
            per_fn[fn_] = per_fn.get(fn_, 0) + 1
            tag = '%s#%d' % (fn_, per_fn[fn_])
            if fn_ == RUN_ONE and not cs.is_(*PREDICATES):
                continue      # the two-path transaction, checked exactly by R20.2
            # a branch of a select! must not be armed / disarmed by a decode level (`fut, if level.enabled() => ..`)
            reg = controlled_region(b, on, off)
            # (tokio::select! keeps its branch preconditions in a bit mask `disabled`, initialised by a call inside the expansion)
            masks = {cs_.dest['l'] for cs_ in b.calls() if cs_.exp and str(cs_.mac).startswith('tokio:') and 'select' in str(cs_.mac) and (cs_.callee or '').endswith('::default') and not cs_.dest['p']}
            either = reg | controlled_region(b, off, on)
            sel_guard = [i for i, s_ in b.assigns() if ('b', i) in either and s_['pl']['l'] in masks]
            c.ob('select-guard/%s' % tag, not sel_guard, 'no tokio::select! branch is enabled or disabled by a decode level: what the task listens to does not depend on logging', '%d updates of a select! branch mask under this switch' % len(sel_guard), cs.loc(), kind='decode-region')
            bad = []
            for x in b.calls():
                if x.node not in reg:
                    continue
                if q.is_tracing(x) or q.is_fmt(x) or q.is_machinery(x):
                    continue
                eff = E.of_call(x)
                if eff:
                    bad.append('%s %s' % (x.callee, sorted(eff)))
            writes = [s for i, s in b.assigns() if ('b', i) in reg and 'deref' in s['pl']['p'] and not s.get('exp')]
            # ... nor changes a variable of the surrounding code (one that is also defined outside the region)
            for i, s in b.assigns():
                if ('b', i) not in reg or s.get('exp') or 'deref' in s['pl']['p']:
                    continue
                l = s['pl']['l']
                if l not in b.user_locals_named() and not (l <= b.argc and l != 0):
                    continue
                outside = [d for d in b.defs().get(l, []) if ('b', d[1]) not in reg and (d[0] == 'call' or not d[2]['pl']['p'])]
                if outside or (l <= b.argc and l != 0):
                    writes.append(s)
            rets = [i for i in b.return_blocks() if ('b', i) in reg]
            # `?` inside the region would also be an extra exit
            # the enabled side must fall back onto the disabled side's continuation on every path (no early exit hidden in it)
            joins = True
            for oe in off:
                off_reach = b.reach_set(oe)
                for e in on:
                    on_reach = b.reach_set(e)
                    cands = [nd for nd in off_reach if nd in on_reach and nd[0] == 'b' and b.postdominates(nd, oe)]
                    if not cands:
                        continue          # the disabled side leaves the function without a common continuation
                    first = [nd for nd in cands if all(b.postdominates(m, nd) for m in cands)]
                    if first:
                        joins = joins and b.postdominates(first[0], e)
            if not joins:
                rets = rets + [-1]
            c.ob('region/%s' % tag, not bad and not writes and not rets, 'the code executed only when %s is enabled has no effect besides logging' % (cs.callee or 'decode != nothing').rsplit('::', 2)[-2:],
                 'effects %s, state writes %d, early exits %d' % (bad[:3], len(writes), len(rets)), cs.loc(), kind='decode-region')
            # and the disabled side skips nothing the enabled side does not also reach afterwards
            skipped = controlled_region(b, off, on)
            sk_bad = [x.callee for x in b.calls() if x.node in skipped and not (q.is_tracing(x) or q.is_fmt(x) or q.is_machinery(x)) and E.of_call(x)]
            sk_ret = [i for i in b.return_blocks() if ('b', i) in skipped]
            c.ob('skip/%s' % tag, not sk_bad and not sk_ret, 'nothing effectful happens only when the level is disabled', 'effects %s returns %d' % (sk_bad[:3], len(sk_ret)), cs.loc())
    c.floor('decode-controlled branches examined', n, 14)
    fb = c.FX.fn('posctl::decode::bad_effect_under_decode')
    en = one(fb.calls('posctl::decode::Level::enabled'), 'fixture predicate')
    be = q.bool_edges(fb, en)
    reg = controlled_region(fb, be['true'], be['false'])
    writes = [s for i, s in fb.assigns() if ('b', i) in reg and 'deref' in s['pl']['p']]
    c.control('a state write under a decode predicate is seen', bool(writes))


@rule('C20', 'R20.2', 'the two transaction paths (with / without a tracing span) run the same transaction')
def r2(c):
    P = c.P
    b = P.fn(RUN_ONE)
    ex = b.calls(EXEC)
    c.ob('two-paths', len(ex) == 2, 'run_one_request calls execute_request on both sides of the decode test', str(len(ex)), loc_of(b))
    if len(ex) != 2:
        return
    same = all(q.same_value(b, ex[0].args[i], ex[1].args[i]) or (set(q.chain_names(b, ex[0].args[i])) & set(q.chain_names(b, ex[1].args[i]))) for i in range(4))
    c.ob('same-arguments', same, 'both calls receive the same self, io, request and tx_id', '', ex[0].loc())
    sw = [x for x in decode_switches(P, b) if not x[0].is_(*PREDICATES)]
    ok = len(sw) == 1
    if ok:
        cs, on, off = sw[0]
        reg_on = controlled_region(b, on, off)
        reg_off = controlled_region(b, off, on)
        on_calls = [x for x in b.calls() if x.node in reg_on and not (q.is_tracing(x) or q.is_fmt(x) or q.is_machinery(x))]
        off_calls = [x for x in b.calls() if x.node in reg_off and not (q.is_tracing(x) or q.is_fmt(x) or q.is_machinery(x))]
        extra = [x.callee for x in on_calls if not x.is_(EXEC) and not x.callee.startswith('tracing::') and not x.callee.startswith('<tracing::') and not x.callee.startswith('tracing_core::') and not x.callee.endswith('Instrument::instrument') and effects.get(P).of_call(x)]
        ok = len([x for x in on_calls if x.is_(EXEC)]) == 1 and len([x for x in off_calls if x.is_(EXEC)]) == 1 and not extra and len([x for x in off_calls if not x.is_(EXEC) and effects.get(P).of_call(x)]) == 0
        c.ob('span-only', ok, 'the decode side adds only the tracing span (Instrument::instrument); nothing else differs', 'extra effectful calls: %s' % extra, cs.loc())
        a = q.sem(b, cs.args[0]) if cs.args else None
    else:
        c.ob('span-only', False, 'one decode test selects between the two paths', '%d tests' % len(sw), loc_of(b))
    # both results flow into the same `result` handling
    polled = [p for p in b.calls(q.POLL)]
    c.ob('joined', len([x for x in q.exits(b)]) >= 1, 'both paths join before the result is handled', '', loc_of(b))


@rule('C20', 'R20.3', 'the decode level is only a stored setting: it is written by the setting / command paths and constructors only')
def r3(c):
    P = c.P
    writers = set()
    for b in P.all_bodies(crate='rodbus'):
        if b.auto_derived:
            continue
        for i, s in b.assigns():
            pl = s['pl']
            if pl['p'] and pl['p'][-1].startswith('field:') and pl['p'][-1].split(':', 2)[2] == 'decode' and 'deref' in pl['p']:
                writers.add(P.logical_name(b))
    allowed = {'rodbus::server::task::SessionTask::apply_command', 'rodbus::server::task::SessionTask::run_one', 'rodbus::server::task::SessionTask::process_commands',
               CL + '::change_setting', 'rodbus::tcp::server::ServerTask::apply_command'}
    c.ob('writers', bool(writers) and writers <= allowed and CL + '::change_setting' in writers and 'rodbus::tcp::server::ServerTask::apply_command' in writers,
         'self.decode is assigned only by the command / setting handlers of the session, the client loop and the server task', str(sorted(writers)))
    ARMS = {'rodbus::server::task::ServerCommand': 'ChangeDecoding', 'rodbus::client::message::Setting': 'DecodeLevel'}
    n_set = 0
    for f in sorted(writers & allowed):
        b = P.fn(f)
        st = [(i, s) for i, s in b.assigns() if 'deref' in s['pl']['p'] and s['pl']['p'][-1].endswith(':decode')]
        for i, s in st:
            n_set += 1
            ok = False
            for adt, variant in ARMS.items():
                arms = q.arms_of(b, adt)
                edges = [e for e, _ in arms.get(variant, [])]
                reg = set()
                for e, r in arms.get(variant, []):
                    reg |= r
                if edges and (('b', i) in reg or q.dominated_by_any(b, edges, ('b', i))):
                    v = q.sem(b, s['rv']['a'][0]) if s['rv']['r'] == 'use' else None
                    okv = v is not None and (':' + variant) in ''.join(v.proj)
                    other = [s2 for i2, s2 in b.assigns() if ('b', i2) in reg and 'deref' in s2['pl']['p'] and not s2['pl']['p'][-1].endswith(':decode') and not s2.get('exp')]
                    ok = okv and not other
            c.ob('setter/%s' % f.split('::', 2)[-1], ok, 'the level is stored only on the ChangeDecoding / DecodeLevel arm, it is that command\'s payload, and the arm changes nothing else', '', loc_of(b, i, stmt=s))
    c.floor('stores to self.decode', n_set, 3)
    # changing the level does not end or restart anything: the setting arm of run_cmd returns Ok unless disabled
    rc = P.fn(CL + '::run_cmd')
    c.ob('client/no-interrupt', len(rc.calls(CL + '::change_setting')) == 1, 'a level change is applied between transactions (run_cmd handles one command at a time)', '', loc_of(rc))
    # the level travels by value into the places that log
    for f in (EXEC, HANDLE_FRAME):
        b = P.fn(f)
        uses = [cs for cs in b.calls() if any(q.sem_is_name(b, q.sem(b, a), 'self') and any('decode' in p for p in q.sem(b, a).proj) for a in cs.args)]
        c.ob('reads/%s' % f.rsplit('::', 1)[-1], len(uses) >= 3, '%s reads self.decode at each use (a change takes effect at the next use, never mid-call)' % f.rsplit('::', 1)[-1], '%d uses' % len(uses), loc_of(b))


@rule('C20', 'R20.4', 'the logging code itself is effect-free and never calls back into the application')
def r4(c):
    P = c.P
    E = effects.get(P)
    n = 0
    for b in P.all_bodies(crate='rodbus'):
        if b.kind != 'AssocFn' or b.auto_derived:
            continue
        tr = norm(b.trait)
        if tr not in LOGGING_TRAITS:
            continue
        n += 1
        eff = E.of(b.path) - {'state'}
        c.ob('quiet/%s' % b.path, not eff, '%s: no wire / app / completion / sync effect and no indirect (closure) call' % b.path, 'effects %s' % sorted(eff), loc_of(b))
    c.floor('logging impls', n, 25)
    for W in ('BitWriter', 'RegisterWriter'):
        log = P.fn('<rodbus::server::response::%s<T> as rodbus::common::traits::Loggable>::log' % W)
        ind = [cs for cs in log.calls() if (cs.declared or '').startswith('core::ops::function::Fn') or cs.indirect is not None]
        gf = [s for i, s in log.assigns() if any('getter' in p for p in (s['rv'].get('pl', {}).get('p', []) if 'pl' in s['rv'] else []))]
        c.ob('no-getter/%s' % W, not ind and not gf, '%s::log re-parses the serialised bytes and never touches the handler getter' % W, '%d indirect calls, %d getter accesses' % (len(ind), len(gf)), loc_of(log))
    # the predicates are pure
    for p in PREDICATES:
        if not P.has(p):
            continue
        b = P.fn(p)
        c.ob('pure/%s' % '::'.join(p.split('::')[-2:]), not E.of(p) and b.sig_in[0].startswith('&') and not b.sig_in[0].startswith('&mut'), 'decode predicate is a pure function of &self', str(sorted(E.of(p))), loc_of(b))


@rule('C20', 'R20.5', 'a level change processed while a frame is half received does not disturb it: the reader is cancel-safe (C05/R05.4, R05.7)')
def r5(c):
    from rules import c05
    c05.r4(c)
    c05.r7(c)
    P = c.P
    # on the server the only thing raced with the frame reader is the command queue; applying ChangeDecoding returns Ok
    from rules import c15
    ro = inline.expand(P, P.fn('rodbus::server::task::SessionTask::run_one'), {c15.APPLY})
    arms = c15.command_arms(c, ro)
    xs = c15.exits_from(ro, arms.get('ChangeDecoding', []))
    c.ob('server/command-continues', bool(xs) and all(cl == 'success' for _, cl in xs), 'after a level change was applied run_one returns Ok: the session loop goes on with the same reader',
         '%d arms, exits %s' % (len(arms.get('ChangeDecoding', [])), [(x['kind'], cl) for x, cl in xs]), loc_of(ro))


@rule('C20', 'R20.6', 'a run-time level change reaches the sessions without ending any of them: it is forwarded best-effort by the server task (C15/R15.3)')
def r6(c):
    from rules import c15
    c15.r3(c)


@rule('C20', 'R20.7', 'a level change queued between requests does not touch the consecutive-timeout count: the counter discipline of run_one_request (C12/R12.3)')
def r7(c):
    from rules import c12
    c12.r3(c)


@rule('C20', 'R20.8', 'decoding cannot crash the task: no undischarged panic-capable operation in code that runs only at some decode level (C07/R07.1 restricted to the decode regions and the logging impls)')
def r8(c):
    import panics
    from rules import c07
    P = c.P
    regions = {}
    for b in P.all_bodies(crate='rodbus'):
        if b.kind in ('Static', 'Const') or b.is_promoted:
            continue
        for cs, on, off in decode_switches(P, b):
            regions.setdefault(b.path, set()).update(controlled_region(b, on, off))
    n = nreg = 0
    for s in panics.sites(P, 'rodbus'):
        inreg = ('b', s.block) in regions.get(s.body.path, ())
        inlog = norm(s.body.trait) in LOGGING_TRAITS
        if not (inreg or inlog):
            continue
        n += 1
        nreg += 1 if inreg else 0
        if panics.auto_discharge(s) or c07.TABLE.get(s.key):
            continue
        c.ob('decode-site/%s' % s.key, False, 'a panic-capable operation executed only when decoding is enabled is guarded or has a recorded invariant', 'undischarged %s `%s`' % (s.kind, s.sig), s.loc(), kind='undischarged')
    c.ob('decode-sites', True, 'panic-capable sites inside decode-controlled code examined', '%d (%d in decode regions, %d in logging impls)' % (n, nreg, n - nreg), examined=n)
    c.floor('decode regions', sum(1 for v in regions.values() if v), 10)


@rule('C20', 'R20.9', 'a level change handled while the RTU server waits to re-open its port does not restart the wait: one timer per wait, created outside the command loop (C14/R14.3)', needs=lambda P: P.has('rodbus::server::task::SessionTask::sleep_for'))
def r9(c):
    from rules import c14
    c14.sleep_for_timer(c)


@rule('C20', 'R20.10', 'a level change sent to a channel that is not connected is just a setting: it neither ends the task nor the wait it arrives in (C13/R13.5: wait_for_enabled gives up only on Shutdown; every wait keeps servicing the queue)')
def r10(c):
    from rules import c13
    c13.r5(c)
