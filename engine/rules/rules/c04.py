"""C04 — the client accepts only the genuine matching reply and returns exactly its data (structural clauses)."""
from core import rule, loc_of
from facts import AnchorLost, norm
import q, effects, inline
from tables import *
from rules.c08 import one
from rules.c03 import RD, REQ_TYPES

HR = 'rodbus::client::message::Request::handle_response'
GEF = 'rodbus::client::message::Request::get_error_for'
RE = 'rodbus::error::RequestError'
EXPECT_EMPTY = 'scursor::read::ReadCursor::expect_empty'
PROMISES = ['rodbus::client::message::Promise', 'rodbus::client::requests::read_bits::Promise', 'rodbus::client::requests::read_registers::Promise']


@rule('C04', 'R04.1', 'function-code check: the request-specific handler runs only when the reply function equals the request function')
def r1(c):
    P = c.P
    b = P.fn(HR)
    c.saw(b, len(b.calls()))
    dh = one(b.calls(RD + '::handle_response'), 'delegation to RequestDetails::handle_response')
    fn_ = one(b.calls(RD + '::function'), 'details.function()')
    rd = one(b.calls('scursor::read::ReadCursor::read_u8'), 'read of the function byte')
    gv = [cs for cs in b.calls('rodbus::common::function::FunctionCode::get_value') if q.sem(b, cs.args[0]).kind == 'call' and q.sem(b, cs.args[0]).cs is fn_]
    facts = q.cmp_facts(b)

    def is_recv(o):
        s = q.sem(b, o)
        return s.kind == 'call' and s.cs is rd and q.has_success(s.proj)

    def is_expected(o):
        s = q.sem(b, o)
        return s.kind == 'call' and s.cs in gv
    ok = q.has_fact(b, dh.node, 'eq', is_recv, is_expected, facts)
    c.ob('guard', ok, 'the delegation is dominated by received function == expected_function.get_value()', '%d comparison facts' % len(facts), dh.loc())
    c.ob('read-checked', q.dominated_by_any(b, q.outcomes(b, rd).get('Ok', []), dh.node), 'the function byte was read successfully', '', rd.loc())
    c.ob('expected-of-self', q.sem_is_name(b, q.sem(b, fn_.args[0]), 'self'), 'the expected function is that of the outstanding request', '', fn_.loc())
    s = q.sem(b, dh.args[2])
    c.ob('delegation/function', s.kind == 'call' and s.cs is fn_, 'the handler is told the expected function', repr(s), dh.loc())
    cur_new = [cs for cs in b.calls('scursor::read::ReadCursor::new')]
    cv = q.initial_value(b, q.sem(b, dh.args[1]))
    c.ob('delegation/cursor', len(cur_new) == 1 and cv.kind == 'call' and cv.cs is cur_new[0] and not cv.proj and b.dominates(rd.ret, dh.node), 'the handler continues on the same cursor (after the function byte)', '', dh.loc())
    cur = [cs for cs in b.calls('scursor::read::ReadCursor::new')]
    c.ob('cursor/payload', len(cur) == 1 and q.is_name(b, cur[0].args[0], 'payload'), 'the cursor is over the reply payload', '', loc_of(b))
    # the mismatch edge returns get_error_for's value and nothing else
    ge = one(b.calls(GEF), 'get_error_for')
    okm = q.has_fact(b, ge.node, 'ne', is_recv, is_expected, facts)
    c.ob('mismatch->error', okm, 'get_error_for is reached only on a function mismatch', '', ge.loc())
    xs = [x for x in q.exits(b) if x['kind'] == 'agg' and x['variant'] == 'Ok']
    c.ob('no-direct-ok', not xs, 'handle_response itself never returns Ok: success only through the request-specific handler', '%d direct Ok exits' % len(xs), loc_of(b))
    callers = sorted({P.logical_name(cs.body) for cs in P.callers(HR)})
    c.ob('callers', callers == ['rodbus::client::task::ClientLoop::execute_request'], 'handle_response is called only by execute_request', str(callers))


@rule('C04', 'R04.2', 'exception decoding: RequestError::Exception only for function|0x80 with exactly one following byte')
def r2(c):
    P = c.P
    b = P.fn(GEF)
    c.saw(b, len(b.calls()))
    cons = P.constructors(RE, 'Exception', crate='rodbus')
    where = sorted({P.logical_name(x) for x, _, _ in cons})
    allowed = {GEF, '<rodbus::error::RequestError as core::convert::From<rodbus::exception::ExceptionCode>>::from'}
    # get_error_for builds it itself, or through that conversion (`exception.into()`)
    conv_sites = [cs for cs in b.calls() if cs.declared in ('core::convert::Into::into', 'core::convert::From::from') and 'ExceptionCode' in (cs.gargs or '') and 'RequestError' in (cs.gargs or '')]
    conv_callers = sorted({P.logical_name(cs.body) for bb in P.all_bodies(crate='rodbus') for cs in bb.calls() if cs.declared in ('core::convert::Into::into', 'core::convert::From::from')
                           and 'exception::ExceptionCode' in (cs.gargs or '') and 'error::RequestError' in (cs.gargs or '') and '/#' not in (cs.gargs or '')})
    c.ob('constructors', set(where) <= allowed and (GEF in where or bool(conv_sites)) and set(conv_callers) <= {GEF}, 'RequestError::Exception is built only in get_error_for (directly or through the From<ExceptionCode> conversion, which nobody else uses)', str(where) + str(conv_callers), examined=len(cons))
    facts = q.cmp_facts(b)
    ae = [cs for cs in b.calls('rodbus::common::function::FunctionCode::as_error') if q.is_name(b, cs.args[0], 'expected_function')]
    rd = one(b.calls('scursor::read::ReadCursor::read_u8'), 'read of the exception byte')
    ie = one(b.calls('scursor::read::ReadCursor::is_empty'), 'cursor.is_empty()')
    sites = [(('b', i), st['rv']['a'][0], loc_of(b, i, stmt=st)) for x, i, st in cons if P.logical_name(x) == GEF] + [(cs.node, cs.args[0], cs.loc()) for cs in conv_sites]
    for node, code_op, where_ in sites:
        i = node[1]
        ok1 = q.has_fact(b, node, 'eq', lambda o: q.is_name(b, o, 'function'), lambda o: q.sem(b, o).kind == 'call' and q.sem(b, o).cs in ae, facts)
        ok2 = q.dominated_by_any(b, q.outcomes(b, rd).get('Ok', []), node)
        ok3 = q.dominated_by_any(b, q.bool_edges(b, ie)['true'], node)
        c.ob('exception/function', ok1, 'Exception requires function == expected.as_error()', '', where_)
        c.ob('exception/byte-read', ok2, 'Exception requires the exception byte to be present', '', where_)
        c.ob('exception/exact-length', ok3, 'Exception requires nothing after the exception byte', '', where_)
        s = q.sem(b, code_op)
        okc = s.kind == 'call' and s.cs.declared in ('core::convert::From::from', 'core::convert::Into::into') and 'ExceptionCode' in s.cs.gargs and \
            q.sem(b, s.cs.args[0]).kind == 'call' and q.sem(b, s.cs.args[0]).cs is rd
        c.ob('exception/code', okc, 'the code reported is ExceptionCode::from(that byte)', repr(s), where_)
    c.ob('exception/site', len(sites) >= 1, 'get_error_for has a place where the exception is produced', '%d' % len(sites), loc_of(b))
    ae_fn = P.fn('rodbus::common::function::FunctionCode::as_error')
    ors = [s for _, s in ae_fn.assigns() if s['rv']['r'] == 'bin' and s['rv']['op'] == 'BitOr' and any(q.const_val(ae_fn, a) == 0x80 for a in s['rv']['a'])]
    c.ob('as_error', len(ors) == 1, 'FunctionCode::as_error is get_value() | 0x80', '%d' % len(ors), loc_of(ae_fn))
    # every other exit is a non-exception error
    xs = q.exits(b)
    other = [x for x in xs if not (x['kind'] == 'agg' and x.get('adt') == RE and x['variant'] == 'Exception')]
    oko = all((x['kind'] == 'agg' and x.get('adt') == RE and x['variant'] == 'BadResponse') or (x['kind'] == 'call' and x['cs'].declared in ('core::convert::Into::into', 'core::convert::From::from')) for x in other)
    c.ob('other-exits', oko and len(other) >= 3, 'all other outcomes are BadResponse(..) or a converted read error', str([(x['kind'], x.get('variant')) for x in other]), loc_of(b))
    # u8 -> ExceptionCode table
    fu = P.find_impl('core::convert::From', EXC, 'from', 'u8')
    _, arms = one(q.int_arms(fu, lambda s: q.sem_is_name(fu, s, 'value')), 'integer match in ExceptionCode::from(u8)')
    n = 0
    for val, name in EXCEPTIONS.items():
        xs2 = q.exit_in(fu, arms.get(str(val), set()))
        ok = len(xs2) == 1 and xs2[0]['kind'] == 'agg' and xs2[0]['adt'] == EXC and xs2[0]['variant'] == name
        c.ob('from-u8/%d' % val, ok, 'exception byte %d decodes to %s' % (val, name), '', loc_of(fu))
        n += 1 if ok else 0
    xs2 = q.exit_in(fu, arms.get('otherwise', set()))
    oku = len(xs2) == 1 and xs2[0]['kind'] == 'agg' and xs2[0]['variant'] == 'Unknown' and q.is_name(fu, xs2[0]['rv']['a'][0], 'value')
    c.ob('from-u8/unknown', oku and sorted(int(k) for k in arms if k != 'otherwise') == sorted(EXCEPTIONS), 'any other byte decodes to Unknown(byte)', str(sorted(arms)), loc_of(fu))
    c.exact('exception bytes decoded', n, 9)


@rule('C04', 'R04.3', 'success is reported only with the value the checked parser produced')
def r3(c):
    P = c.P
    owners = {
        'rodbus::client::requests::read_bits::ReadBits::handle_response': ('rodbus::client::requests::read_bits::Promise::success', 'rodbus::client::requests::read_bits::ReadBits::parse_bits_response'),
        'rodbus::client::requests::read_registers::ReadRegisters::handle_response': ('rodbus::client::requests::read_registers::Promise::success', 'rodbus::client::requests::read_registers::ReadRegisters::parse_registers_response'),
        'rodbus::client::requests::write_single::SingleWrite::handle_response': ('rodbus::client::message::Promise::success', 'rodbus::client::requests::write_single::SingleWrite::parse_all'),
        'rodbus::client::requests::write_multiple::MultipleWriteRequest::handle_response': ('rodbus::client::message::Promise::success', 'rodbus::client::requests::write_multiple::MultipleWriteRequest::parse_all'),
    }
    succ = {v[0] for v in owners.values()}
    sites = P.callers(*succ, crate='rodbus')
    where = sorted({P.logical_name(cs.body) for cs in sites})
    c.ob('callers', where == sorted(owners), 'Promise::success is called only by the four handle_response functions', str(where), examined=len(sites))
    READ_PARSERS = {'rodbus::client::requests::read_bits::ReadBits::parse_bits_response': 'rodbus::types::BitIterator::parse_all',
                    'rodbus::client::requests::read_registers::ReadRegisters::parse_registers_response': 'rodbus::types::RegisterIterator::parse_all'}
    for f, (sc, parser) in owners.items():
        b = P.fn(f)
        if parser in READ_PARSERS:
            # the two read parsers are thin private wrappers of parse_all: handle_response is looked at with them expanded
            b = inline.expand(P, b, {parser})
            parser = READ_PARSERS[parser]
        c.saw(b, len(b.calls()))
        s = one(b.calls(sc), 'success in ' + f)
        p = one(b.calls(parser), 'parser in ' + f)
        nm = f.split('::')[-2]
        c.ob('%s/after-parse' % nm, q.dominated_by_any(b, q.outcomes(b, p).get('success', []), s.node), 'success is dominated by the success edge of the checked parser', '', s.loc())
        v = q.sem(b, s.args[1])
        c.ob('%s/value' % nm, v.kind == 'call' and v.cs is p and v.checked, "the value reported is the parser's result", repr(v), s.loc())
        c.ob('%s/once' % nm, not b.in_cycle(s.node), 'success is reported once', '', s.loc())
        xs = [x for x in q.exits(b) if x['kind'] == 'agg' and x['variant'] == 'Ok']
        c.ob('%s/ok-after-success' % nm, bool(xs) and all(b.dominates(s.ret, x['node']) for x in xs), 'Ok is returned only after success was reported', '', loc_of(b))


@rule('C04', 'R04.4', 'reply parsers: exact length against the *requested* range; writes must echo the request')
def r4(c):
    P = c.P
    for f, it in (('rodbus::client::requests::read_bits::ReadBits::parse_bits_response', 'rodbus::types::BitIterator::parse_all'),
                  ('rodbus::client::requests::read_registers::ReadRegisters::parse_registers_response', 'rodbus::types::RegisterIterator::parse_all')):
        hb = inline.expand(P, P.fn('::'.join(f.split('::')[:-1]) + '::handle_response'), {f})
        c.saw(hb, len(hb.calls()))
        nm = f.split('::')[-2]
        pa = one(hb.calls(it), it)
        oks = [x for x in q.exits(hb) if x['kind'] == 'agg' and x['variant'] == 'Ok']
        ok = bool(oks) and all(q.dominated_by_any(hb, q.outcomes(hb, pa).get('success', []), x['node']) for x in oks)
        c.ob('%s/parse_all' % nm, ok, 'every success exit passes through %s (checked)' % it, '%d Ok exits' % len(oks), loc_of(hb))
        c.ob('%s/range-param' % nm, q.is_name(hb, pa.args[1], 'cursor'), 'parse_all reads from the reply cursor', '', pa.loc())
        ok2, why2 = q.must_call_on_ok(P, it, (EXPECT_EMPTY,))
        c.ob('%s/exact-length' % nm, ok2, 'parse_all requires the reply to end exactly after the data', why2, pa.loc())
        # the range used to interpret the reply is the requested one
        s = q.sem(hb, pa.args[0])
        okr = s.kind == 'call' and s.cs.callee.endswith('Range::get') and q.sem_is_name(hb, q.sem(hb, s.cs.args[0]), 'self') and any('request' in p for p in q.sem(hb, s.cs.args[0]).proj)
        c.ob('%s/requested-range' % nm, okr, 'the range used to interpret the reply is self.request (the request), not reply data', repr(s), pa.loc())
    # single write
    b = P.fn('rodbus::client::requests::write_single::SingleWrite::parse_all')
    c.saw(b, len(b.calls()))
    ok, why = q.must_call_on_ok(P, b.path, (EXPECT_EMPTY,))
    c.ob('SingleWrite/exact-length', ok, 'the echo must be exactly one index/value pair', why, loc_of(b))
    pr = one([cs for cs in b.calls() if cs.declared == 'rodbus::client::requests::write_single::SingleWriteOperation::parse'], 'T::parse')
    facts = q.cmp_facts(b)
    xs = [x for x in q.exits(b) if x['kind'] == 'agg' and x['variant'] == 'Ok']
    okq = bool(xs)
    for x in xs:
        okq = okq and q.has_fact(b, x['node'], 'eq', lambda o: q.sem_is_name(b, q.sem(b, o), 'self') and q.sem(b, o).proj and q.sem(b, o).proj[-1].endswith(':request'),
                                 lambda o: q.sem(b, o).kind == 'call' and q.sem(b, o).cs is pr and q.sem(b, o).proj == ('<ok>',), facts)
        v = q.sem(b, x['rv']['a'][0])
        okq = okq and v.kind == 'call' and v.cs is pr and v.proj == ('<ok>',)
    c.ob('SingleWrite/echo', okq, 'Ok requires self.request == parsed reply, and returns the parsed reply', '', loc_of(b))
    b = P.fn('rodbus::client::requests::write_multiple::MultipleWriteRequest::parse_all')
    c.saw(b, len(b.calls()))
    ok, why = q.must_call_on_ok(P, b.path, (EXPECT_EMPTY,))
    c.ob('MultipleWrite/exact-length', ok, 'the echo must be exactly one address range', why, loc_of(b))
    pr = one(b.calls('<rodbus::types::AddressRange as rodbus::common::traits::Parse>::parse'), 'AddressRange::parse')
    facts = q.cmp_facts(b)
    xs = [x for x in q.exits(b) if x['kind'] == 'agg' and x['variant'] == 'Ok']
    okq = bool(xs)
    def echo_part(o, fld=None):
        s_ = q.sem(b, o)
        pj = [p for p in s_.proj if p != 'deref']
        return s_.kind == 'call' and s_.cs is pr and pj[:1] == ['<ok>'] and ((fld is None and len(pj) == 1) or (fld is not None and len(pj) == 2 and pj[1].endswith(':' + fld)))
    def req_part(o, fld=None):
        s_ = q.sem(b, o)
        pj = [p for p in s_.proj if p != 'deref']
        if not q.sem_is_name(b, s_, 'self') or not pj:
            return False
        return pj[-1].endswith(':range') if fld is None else (len(pj) >= 2 and pj[-2].endswith(':range') and pj[-1].endswith(':' + fld))
    for x in xs:
        whole = q.has_fact(b, x['node'], 'eq', echo_part, req_part, facts)
        # ... or field by field (`echo.start != start || echo.count != count` rejects)
        fields = all(q.has_fact(b, x['node'], 'eq', lambda o, f=f: echo_part(o, f), lambda o, f=f: req_part(o, f), facts) for f in ('start', 'count'))
        okq = okq and (whole or fields)
        v = q.sem(b, x['rv']['a'][0])
        okq = okq and v.kind == 'call' and v.cs is pr and v.proj == ('<ok>',)
    c.ob('MultipleWrite/echo', okq, 'Ok requires the echoed range to equal self.request.range', '', loc_of(b))
    for ty in ('bool', 'u16'):
        p = P.fn('<rodbus::types::Indexed<%s> as rodbus::client::requests::write_single::SingleWriteOperation>::parse' % ty)
        reads = p.calls('scursor::read::ReadCursor::read_u16_be')
        new = one(p.calls('rodbus::types::Indexed::new'), 'Indexed::new')
        ok = len(reads) == 2 and p.dominates(reads[0].ret, reads[1].node) and q.sem(p, new.args[0]).kind == 'call' and q.sem(p, new.args[0]).cs is reads[0]
        if ty == 'bool':
            okc, _ = q.must_call_on_ok(P, p.path, ('rodbus::types::coil_from_u16',))
            ok = ok and okc
        c.ob('SingleWriteOperation/parse/%s' % ty, ok, 'the echo is decoded as (index, value) in that order' + (' through the checked coil table' if ty == 'bool' else ''), '', loc_of(p))


@rule('C04', 'R04.5', 'response table: each request kind is completed by its own response handler; errors fail the same request')
def r5(c):
    P = c.P
    b = P.fn(RD + '::handle_response')
    arms = q.arms_of(b, RD)
    n = 0
    for v in REQUESTS:
        reg = set()
        for e, r in arms.get(v, []):
            reg |= r
        cl = q.calls_in(b, reg)
        ok = len(cl) == 1 and cl[0].callee == REQ_TYPES[v] + '::handle_response'
        if ok:
            a0 = q.sem(b, cl[0].args[0])
            ok = q.sem_is_name(b, a0, 'self') and (':' + v) in ''.join(a0.proj) and q.is_name(b, cl[0].args[1], 'cursor') and q.is_name(b, cl[0].args[2], 'function')
        c.ob('handle_response/%s' % v, ok, 'RequestDetails::%s is completed by %s::handle_response on its own payload' % (v, REQ_TYPES[v].rsplit('::', 1)[-1]), str([x.callee for x in cl]), loc_of(b))
        n += 1 if ok else 0
    c.exact('handle_response arms', n, 8)
    f = P.fn(RD + '::fail')
    arms = q.arms_of(f, RD)
    m = 0
    for v in REQUESTS:
        reg = set()
        for e, r in arms.get(v, []):
            reg |= r
        cl = q.calls_in(f, reg)
        ok = len(cl) == 1 and cl[0].callee == REQ_TYPES[v] + '::failure' and q.is_name(f, cl[0].args[1], 'err')
        c.ob('fail/%s' % v, ok, 'RequestDetails::%s fails through %s::failure with the given error' % (v, REQ_TYPES[v].rsplit('::', 1)[-1]), str([x.callee for x in cl]), loc_of(f))
        m += 1 if ok else 0
    c.exact('fail arms', m, 8)
    # execute_request hands the matched frame's payload to the outstanding request
    ex = P.fn('rodbus::client::task::ClientLoop::execute_request')
    hr = one(ex.calls(HR), 'handle_response in execute_request')
    s = q.sem(ex, hr.args[1])
    okp = s.kind == 'call' and s.cs.is_('rodbus::common::frame::Frame::payload')
    c.ob('execute_request/payload', okp and q.is_name(ex, hr.args[0], 'request'), 'the reply payload is handed to the outstanding request', repr(s), hr.loc())
    xs = [x for x in q.exits(ex) if x['kind'] == 'call' and x['cs'] is hr]
    c.ob('execute_request/result', len(xs) == 1, "the transaction's result is handle_response's result", '', hr.loc())


@rule('C04', 'R04.6', 'turning an accepted reply into the caller\'s value cannot panic: panic-site inventory of the reply parsers, iterators and promises (C07/R07.1 restricted)')
def r6(c):
    from rules import c07
    pre = ('rodbus::types::', '<rodbus::types::', 'rodbus::client::requests::', '<rodbus::client::requests::', 'rodbus::client::message::', '<rodbus::client::message::')
    c07.inventory(c, only=lambda f: f.startswith(pre), floor=8)


@rule('C04', 'R04.7', 'C ABI flavour: an exception reply reaches the C callback under its own code - the enum conversion tables (C18/R18.1)',
      needs=lambda P: 'rodbus_ffi' in P.crates)
def r7(c):
    from rules import c18
    c18.r1(c)


def _self_field(b, o, name):
    s_ = q.widened(b, o)
    return q.sem_is_name(b, s_, 'self') and bool(s_.proj) and s_.proj[-1].endswith(':' + name)


@rule('C04', 'R04.8', 'unpacking: bit k of a packed reply / request is bit (k % 8) of byte (k / 8); register k is bytes 2k (high) and 2k + 1 (low); the index reported is start + k')
def r8(c):
    P = c.P
    b = P.fn('<rodbus::types::BitIterator as core::iter::traits::iterator::Iterator>::next')
    c.saw(b, len(b.calls()))
    get = one([cs for cs in b.calls() if cs.callee.endswith('::get')], 'bytes.get in BitIterator::next')
    ix = q.widened(b, get.args[1])
    okb = ix.kind == 'bin' and ((ix.extra[1] == 'Div' and q.int_value(b, ix.extra[3]) == 8) or (ix.extra[1] == 'Shr' and q.int_value(b, ix.extra[3]) == 3)) and _self_field(b, ix.extra[2], 'pos')
    c.ob('bits/byte-index', okb, 'the byte read is bytes[pos / 8]', repr(ix) + (' %s' % (ix.extra[1:2],) if ix.kind == 'bin' else ''), get.loc())
    shl = [(i, s) for i, s in b.assigns() if s['rv']['r'] == 'bin' and s['rv']['op'] == 'Shl' and q.int_value(b, s['rv']['a'][0]) == 1]
    okm = len(shl) == 1
    if okm:
        amt = q.widened(b, shl[0][1]['rv']['a'][1])
        okm = amt.kind == 'bin' and ((amt.extra[1] == 'Rem' and q.int_value(b, amt.extra[3]) == 8) or (amt.extra[1] == 'BitAnd' and q.int_value(b, amt.extra[3]) == 7)) and _self_field(b, amt.extra[2], 'pos')
    c.ob('bits/mask', okm, 'the mask is 1 << (pos % 8)', '%d shifts of 1' % len(shl), loc_of(b))
    if okm:
        def is_mask(o):
            v_ = q.sem(b, o)
            return v_.kind == 'bin' and isinstance(v_.extra, tuple) and len(v_.extra) > 5 and v_.extra[1] == 'Shl' and v_.extra[5] == shl[0][0]
        ands = [s for i, s in b.assigns() if s['rv']['r'] == 'bin' and s['rv']['op'] == 'BitAnd' and any(is_mask(op_) or op_.get('pl', {}).get('l') == shl[0][1]['pl']['l'] for op_ in s['rv']['a'])]
        okv = len(ands) == 1
        if okv:
            other = [a for a in ands[0]['rv']['a'] if not (is_mask(a) or a.get('pl', {}).get('l') == shl[0][1]['pl']['l'])]
            sv = q.sem(b, other[0]) if other else None
            okv = sv is not None and sv.kind == 'call' and sv.cs is get and q.has_success(sv.proj)
        c.ob('bits/value', okv, 'the bit reported is (that byte & mask) != 0', '', loc_of(b))
    for nm, ty in (('bits', 'BitIterator'), ('registers', 'RegisterIterator')):
        bb = P.fn('<rodbus::types::%s as core::iter::traits::iterator::Iterator>::next' % ty)
        nw = one(bb.calls('rodbus::types::Indexed::new'), 'Indexed::new in %s::next' % ty)
        ad = q.sem(bb, nw.args[0])
        oka = ad.kind == 'bin' and ad.extra[1].startswith('Add') and sorted([_self_field(bb, ad.extra[2], 'start') * 1 + _self_field(bb, ad.extra[2], 'pos') * 2, _self_field(bb, ad.extra[3], 'start') * 1 + _self_field(bb, ad.extra[3], 'pos') * 2]) == [1, 2]
        c.ob('%s/index' % nm, oka, 'the index reported is range.start + pos', repr(ad), nw.loc())
        inc = [s for i, s in bb.assigns() if s['pl']['p'] and s['pl']['p'][-1].endswith(':pos')]
        c.ob('%s/advance' % nm, len(inc) == 1 and (lambda v: v.kind == 'bin' and v.extra[1].startswith('Add') and q.int_value(bb, v.extra[3]) == 1 and _self_field(bb, v.extra[2], 'pos'))(q.sem(bb, inc[0]['rv']['a'][0]) if inc[0]['rv']['r'] == 'use' else q.Sem('other')),
             'pos advances by one per item', '%d stores' % len(inc), loc_of(bb))
    r = P.fn('<rodbus::types::RegisterIterator as core::iter::traits::iterator::Iterator>::next')
    c.saw(r, len(r.calls()))
    g2 = one([cs for cs in r.calls() if cs.callee.endswith('::get')], 'bytes.get in RegisterIterator::next')
    rng = q.sem(r, g2.args[1])
    okr = rng.kind == 'agg' and 'Range' in str(rng.extra.get('adt', '')) and len(rng.extra['a']) == 2
    if okr:
        st = q.sem(r, rng.extra['a'][0])
        en = q.sem(r, rng.extra['a'][1])
        def twice_pos(v):
            return v.kind == 'bin' and v.extra[1].startswith('Mul') and ((q.int_value(r, v.extra[2]) == 2 and _self_field(r, v.extra[3], 'pos')) or (q.int_value(r, v.extra[3]) == 2 and _self_field(r, v.extra[2], 'pos')))
        okr = twice_pos(st) and en.kind == 'bin' and en.extra[1].startswith('Add') and q.int_value(r, en.extra[3]) == 2 and twice_pos(q.sem(r, en.extra[2]))
    c.ob('registers/bytes', okr, 'register k is read from bytes[2k .. 2k + 2]', repr(rng), g2.loc())
    ors = [s for i, s in r.assigns() if s['rv']['r'] == 'bin' and s['rv']['op'] == 'BitOr']
    okw = len(ors) == 1
    if okw:
        hi, lo = q.sem(r, ors[0]['rv']['a'][0]), q.sem(r, ors[0]['rv']['a'][1])
        if not (hi.kind == 'bin' and hi.extra[1] == 'Shl'):
            hi, lo = lo, hi
        def elem(v, k):
            v = q.widened(r, v)
            return v.kind == 'call' and v.cs is g2 and any(p.startswith('cidx:%d' % k) or p == 'index:%d' % k for p in v.proj)
        okw = hi.kind == 'bin' and hi.extra[1] == 'Shl' and q.int_value(r, hi.extra[3]) == 8 and elem(hi.extra[2], 0) and elem(lo, 1)
    c.ob('registers/big-endian', okw, 'the value is (bytes[2k] << 8) | bytes[2k + 1]', '%d BitOr' % len(ors), loc_of(r))
