"""C07 — no peer input can panic, wedge or silently kill a task (structural clauses: panic-site inventory with
discharges, loop discipline, closed-channel exits, unsafe, quiet logging paths)."""
import re
from core import rule, loc_of
from facts import AnchorLost, norm
import q, effects, panics
from panic_table import TABLE
from tables import *
from rules.c08 import one

POLL_FNS = ('tokio::sync::mpsc::bounded::Receiver::recv', 'rodbus::channel::Receiver::recv')


def guard_for(s):
    """local, checkable part of some table entries: (ok, description) or None"""
    b = s.body
    node = ('b', s.block)
    facts = q.cmp_facts(b)
    fn_ = s.fn
    RB = 'rodbus::common::buffer::ReadBuffer'
    if fn_ == RB + '::read' and 'Add(*self.begin, count)' in s.key:
        def is_len(o):
            m = q.sem(b, o)
            return m.kind == 'call' and m.cs.is_(RB + '::len')
        return q.has_fact(b, node, 'le', lambda o: q.is_name(b, o, 'count'), is_len, facts), 'count <= self.len()'
    if fn_ == RB + '::read_u8' and 'Add(*self.begin, 1)' in s.key:
        ie = [cs for cs in b.calls(RB + '::is_empty')]
        return bool(ie) and q.dominated_by_any(b, q.bool_edges(b, ie[0])['false'], node), '!self.is_empty()'
    if fn_ == 'rodbus::common::frame::Frame::set':
        def is_srclen(o):
            m = q.sem(b, o)
            return m.kind == 'call' and m.cs.callee.endswith('::len') and q.is_name(b, m.cs.args[0], 'src')
        return q.has_fact(b, node, 'le', is_srclen, lambda o: True, facts), 'src.len() <= self.pdu.len()'
    if ('Iterator>::next' in fn_) and ('Add(*self.pos, 1)' in s.key or 'range.start' in s.key) and 'WriteMultipleIterator' not in fn_:
        def is_pos(o):
            m = q.sem(b, o)
            return q.sem_is_name(b, m, 'self') and bool(m.proj) and m.proj[-1].endswith(':pos')
        def is_count(o):
            m = q.sem(b, o)
            return q.sem_is_name(b, m, 'self') and bool(m.proj) and m.proj[-1].endswith(':count')
        return q.has_fact(b, node, 'ne', is_pos, is_count, facts) or q.has_fact(b, node, 'lt', is_pos, is_count, facts), 'self.pos != self.range.count'
    return None


@rule('C07', 'R07.1', 'panic-site inventory: every arithmetic assert, unwrap/expect, index, slice copy and panicking operator is discharged')
def r1(c):
    inventory(c)
    # the inventory must see the classic cases in the fixture
    fs = panics.sites(c.FX, 'posctl')
    bad = [s for s in fs if s.fn.endswith('unguarded_increment') and not panics.auto_discharge(s)]
    good = [s for s in fs if s.fn.endswith('guarded_increment') and not s.fn.endswith('unguarded_increment') and not panics.auto_discharge(s)]
    idx = [s for s in fs if s.fn.endswith('slice_index') and s.kind == 'index']
    unw = [s for s in fs if s.fn.endswith('plain_unwrap') and s.kind == 'unwrap']
    c.control('unguarded `x + 1` on u16 is reported', len(bad) == 1)
    c.control('`x + 1` behind `x != MAX` is discharged', len(good) == 0)
    c.control('slice indexing is inventoried', len(idx) >= 1)
    c.control('unwrap is inventoried', len(unw) >= 1)


def gone_entries(P):
    """table entries of known functions that are no longer in the program: {(function, 'kind | sig'): entry}"""
    if '_gone_entries' not in P.__dict__:
        import inline
        known = inline.load_known() or set()
        out = {}
        for key, ent in TABLE.items():
            fn, rest = key.split(' | ', 1)
            base = re.sub(r'(::\{closure#\d+\})+$', '', fn)
            if base in known and P.get(base) is None:
                out[(base, rest)] = ent
        P.__dict__['_gone_entries'] = out
    return P.__dict__['_gone_entries']


def inventory(c, only=None, floor=100):
    """the panic-site inventory, over all of rodbus or over the functions accepted by `only` (a predicate on the function path)"""
    P = c.P
    ss = panics.sites(P, 'rodbus')
    if only is not None:
        ss = [s for s in ss if only(s.fn)]
    n_auto = n_tab = 0
    classes = {}
    seen_keys = set()
    for s in ss:
        why = panics.auto_discharge(s)
        if why:
            n_auto += 1
            if n_auto <= 3:
                c.ob('auto/%s' % s.key, True, 'site cannot panic', why, s.loc())
            continue
        ent = TABLE.get(s.key)
        if not ent:
            # the recorded site may have moved with its code: a known function of the same impl / module that no longer
            # exists (inlined by hand into its caller) had a table entry for exactly this operation
            for (gfn, rest), e_ in gone_entries(P).items():
                if rest == s.key.split(' | ', 1)[1] and gfn.rsplit('::', 1)[0] == re.sub(r'(::\{closure#\d+\})+$', '', s.fn).rsplit('::', 1)[0]:
                    ent = e_
                    break
        if ent:
            g = guard_for(s)
            if g is not None:
                okg, what = g
                c.ob('guard/%s' % s.key, okg, 'the recorded invariant of this site still has its local guard: ' + what, '', s.loc())
            n_tab += 1
            seen_keys.add(s.key)
            classes[ent[0]] = classes.get(ent[0], 0) + 1
            c.ob('table/%s' % s.key, True, 'site is covered by a recorded invariant', '[%s] %s' % ent, s.loc())
        else:
            c.ob('site/%s' % s.key, False, 'every panic-capable site has a dominating guard, a width argument or a recorded invariant',
                 'undischarged %s `%s` in %s' % (s.kind, s.sig, s.fn), s.loc(), kind='undischarged')
    c.call_sites += len(ss)
    c.floor('panic-capable sites inventoried', len(ss), floor)
    c.counts['%s auto-discharged' % c.cur] = (n_auto, 0)
    c.counts['%s table-discharged' % c.cur] = (n_tab, 0)
    c.counts['%s table classes' % c.cur] = (sum(classes.values()), 0)


@rule('C07', 'R07.2', "framing pairing behind format_mbap's `expect`: TCP writers are only combined with MBAP readers and TCP headers")
def r2(c):
    P = c.P
    W_TCP, W_RTU = 'rodbus::common::frame::FrameWriter::tcp', 'rodbus::common::frame::FrameWriter::rtu'
    R_TCP = 'rodbus::common::frame::FramedReader::tcp'
    R_RTU = ('rodbus::common::frame::FramedReader::rtu_request', 'rodbus::common::frame::FramedReader::rtu_response')
    n = 0
    for b in P.all_bodies(crate='rodbus'):
        wt, wr = b.calls(W_TCP), b.calls(W_RTU)
        rt, rr = b.calls(R_TCP), b.calls(*R_RTU)
        if not (wt or wr or rt or rr):
            continue
        n += 1
        ok = (len(wt) == len(rt)) and (len(wr) == len(rr)) and not (wt and wr)
        c.ob('pairing/%s' % P.logical_name(b), ok, 'a function that builds framing builds a matching writer/reader pair', 'tcp writers %d readers %d, rtu writers %d readers %d' % (len(wt), len(rt), len(wr), len(rr)), loc_of(b))
    c.floor('writer/reader construction sites', n, 3)
    FH = 'rodbus::common::frame::FrameHeader'
    none_tx = []
    for b, i, s in P.constructors(FH, crate='rodbus'):
        rv = s['rv']
        tx = rv['a'][rv['fields'].index('tx_id')]
        v = q.agg_variant_of(b, tx)
        if v and v[1] == 'None':
            none_tx.append(P.logical_name(b))
    c.ob('tx-id-none', set(none_tx) <= {'rodbus::common::frame::FrameHeader::new_rtu_header'}, 'FrameHeader{tx_id: None} is built only by new_rtu_header', str(none_tx))
    rtu_hdr = sorted({P.logical_name(cs.body) for cs in P.callers('rodbus::common::frame::FrameHeader::new_rtu_header')})
    c.ob('rtu-header-users', set(rtu_hdr) <= {'rodbus::serial::frame::RtuParser::parse'}, 'RTU headers (no transaction id) originate only in the RTU parser', str(rtu_hdr))
    # the client stamps requests with new_tcp_header; on RTU the FormatType::Rtu writer ignores tx ids
    fm = sorted({P.logical_name(cs.body) for cs in P.callers('rodbus::tcp::frame::format_mbap')})
    c.ob('format_mbap-callers', fm == ['rodbus::common::frame::FormatType::format'], 'format_mbap is reached only through FormatType::Tcp', str(fm))


def _is_iter_next(cs):
    return (cs.declared or '') == 'core::iter::traits::iterator::Iterator::next'


@rule('C07', 'R07.3', 'no busy loop: every loop either awaits, is driven by a finite iterator, or is a recorded bounded state machine')
def r3(c):
    P = c.P
    BOUNDED = {
        'rodbus::tcp::frame::MbapParser::parse': 'two-state machine: Begin -> Header -> return; each turn either returns or consumes the header',
        'rodbus::serial::frame::RtuParser::parse': 'three-state machine: Start -> (ReadToOffsetForLength ->) ReadFullBody -> return; each turn (recursive call or loop iteration) follows a state advance',
    }

    def state_nodes(b):
        return {('b', i) for i, s in b.assigns() if s['pl']['p'] and s['pl']['p'][-1].endswith(':state')}
    n = 0
    for b in P.all_bodies(crate='rodbus'):
        if b.kind in ('Static', 'Const') or b.is_promoted:
            continue
        b._ensure()
        for cyc in b.cycles():
            n += 1
            has_yield = any(nd[0] == 'b' and b.blocks[nd[1]]['term']['t'] == 'yield' for nd in cyc)
            nexts = [cs for cs in b.calls() if cs.node in cyc and _is_iter_next(cs)]
            iter_driven = False
            for nx in nexts:
                none = q.outcomes(b, nx).get('None', [])
                if none and all(e not in cyc or not (b.reach_set(e) & cyc) for e in none):
                    iter_driven = True
                elif none and all(not any(s in cyc for s in b.reach_set(e) if s == nx.node) for e in none):
                    iter_driven = True
            mac = [cs for cs in b.calls() if cs.node in cyc and cs.exp and (cs.mac.startswith('tracing') or 'fmt' in cs.mac)]
            fn_ = P.logical_name(b)
            machine = False
            if fn_ in BOUNDED and not (has_yield or iter_driven):
                # necessary condition re-checked for a recorded state machine: no turn of the loop without a state assignment
                sn = state_nodes(b)
                machine = bool(sn) and not any(nd in b.reach_set(nd, avoid=sn) for nd in cyc if nd not in sn)
            ok = has_yield or iter_driven or machine
            how = 'awaits' if has_yield else ('iterator-driven' if iter_driven else ('recorded: ' + BOUNDED.get(fn_, '')) if machine else ('recorded state machine, but a turn of the loop without a state assignment exists' if fn_ in BOUNDED else 'none'))
            seen_l = c.__dict__.setdefault('_loopn', {})
            seen_l[fn_] = seen_l.get(fn_, 0) + 1
            c.ob('loop/%s#%d' % (fn_, seen_l[fn_]), ok, 'loop makes progress: contains an await, or ends when a finite iterator is exhausted, or is a recorded bounded state machine', how, loc_of(b, min(nd[1] for nd in cyc if nd[0] == 'b')), examined=1)
    c.floor('loops examined', n, 20)
    # direct recursion is a loop too
    for b in P.all_bodies(crate='rodbus'):
        if b.kind in ('Static', 'Const') or b.is_promoted:
            continue
        fn_ = P.logical_name(b)
        rec = [cs for cs in b.calls() if fn_ in cs.names()]
        if not rec:
            continue
        sn = state_nodes(b)
        ok = fn_ in BOUNDED and bool(sn) and all(any(b.dominates(s_, cs.node) for s_ in sn) for cs in rec)
        c.ob('recursion/%s' % fn_, ok, 'a function that calls itself is a recorded bounded state machine, and every recursive call follows a state assignment',
             ('recorded: ' + BOUNDED[fn_]) if fn_ in BOUNDED else 'not recorded', rec[0].loc(), examined=len(rec))
    fx = c.FX.fn('posctl::loops::spin_until_flag')
    cyc = fx.cycles()
    c.control('a loop without await / iterator is reported', bool(cyc) and not any(nd[0] == 'b' and fx.blocks[nd[1]]['term']['t'] == 'yield' for nd in cyc[0]) and not [cs for cs in fx.calls() if _is_iter_next(cs)])


CLOSED = {
    # callee -> path of variant labels that means "the command channel is closed / shutdown requested"
    'tokio::sync::mpsc::bounded::Receiver::recv': ['None'],
    'rodbus::channel::Receiver::recv': ['failure'],
    'rodbus::client::task::ClientLoop::fail_next_request': ['failure', 'Shutdown'],
    'rodbus::client::task::ClientLoop::poll': ['failure'],
    'rodbus::client::task::ClientLoop::wait_for_enabled': ['failure'],
    'rodbus::server::task::SessionTask::run_one': ['failure'],
    'rodbus::tcp::client::TcpChannelTask::try_connect_and_run': ['failure', 'Shutdown'],
    'rodbus::serial::client::SerialChannelTask::try_open_and_run': ['failure', 'Shutdown'],
    'rodbus::server::task::SessionTask::sleep_for': ['failure'],
}


def closed_edges(b, cs, path):
    oc = q.outcomes(b, cs)
    first = oc.get(path[0], []) or oc.get({'failure': 'Err'}.get(path[0], path[0]), [])
    if not first and path == ['None']:
        first = oc.get('failure', [])        # `recv().await.ok_or(Shutdown)?`: the closed channel is the failure arm of the `?`
    if len(path) == 1:
        return first
    out = []
    for e, v, info in b.variant_edges():
        if v != path[1]:
            continue
        s = q.sem(b, info['place'])
        if s.kind == 'call' and s.cs is cs and any(q.dom(b, f, e) for f in first):
            out.append(e)
    # no finer match on the error: every failure takes the first-level edge
    return out or first


@rule('C07', 'R07.4', 'a closed command channel / shutdown leaves every loop that waits on it (no spinning on a dead channel)')
def r4(c):
    P = c.P
    n = 0
    for b in P.all_bodies(crate='rodbus'):
        if b.kind in ('Static', 'Const') or b.is_promoted:
            continue
        b._ensure()
        for cs in b.calls():
            key = None
            for k in CLOSED:
                if cs.is_(k):
                    key = k
            if key is None or not b.in_cycle(cs.node):
                continue
            cyc = b.cycle_of(cs.node)
            edges = closed_edges(b, cs, CLOSED[key])
            n += 1
            fn_ = P.logical_name(b)
            if not edges:
                # the outcome may be examined by a helper of the crate that is handed the value as it is
                # (`self.apply_command(self.commands.recv().await)?`): look at the loop with that helper written out
                takers = {x.callee for x in b.calls() if x.callee and x.callee.startswith('rodbus::') and P.has(x.callee)
                          and any((lambda v: v.kind == 'call' and v.cs is cs and not v.proj)(q.sem(b, a)) for a in x.args)}
                if takers:
                    import inline
                    eb = inline.expand(P, b, takers)
                    twin = [x for x in eb.calls(key) if x.line == cs.line and eb.in_cycle(x.node)]
                    if len(twin) == 1:
                        e2 = closed_edges(eb, twin[0], CLOSED[key])
                        if e2:
                            rets2 = {('b', i_) for i_ in eb.return_blocks()}
                            ok = all(twin[0].node not in eb.reach_set(e) and bool(eb.reach_set(e) & rets2) for e in e2)
                            c.ob('closed/%s/%s' % (fn_, key.rsplit('::', 2)[-2] + '::' + key.rsplit('::', 1)[-1]), ok, 'from the closed/shutdown outcome of %s (examined in %s) the loop is left (the wait is not re-entered)' % (key.rsplit('::', 1)[-1], sorted(t.rsplit('::', 1)[-1] for t in takers)),
                                 'edges %s' % e2, cs.loc())
                            continue
            if not edges:
                uw = [u for u in b.calls('core::option::Option::unwrap', 'core::option::Option::expect') if q.sem(b, u.args[0]).kind == 'call' and q.sem(b, u.args[0]).cs is cs]
                if uw:
                    c.ob('closed/%s/%s' % (fn_, key.rsplit('::', 2)[-2] + '::' + key.rsplit('::', 1)[-1]), True, 'the result is unwrapped: the channel cannot close here (recorded invariant in R07.1)', 'unwrap at %s' % uw[0].loc(), cs.loc())
                    continue
                c.ob('closed/%s/%s' % (fn_, key.rsplit('::', 2)[-2] + '::' + key.rsplit('::', 1)[-1]), False, 'the closed/shutdown outcome of %s is examined inside the loop' % key, 'no switch on that outcome found', cs.loc())
                continue
            rets_ = {('b', i_) for i_ in b.return_blocks()}
            ok = all(cs.node not in b.reach_set(e) and bool(b.reach_set(e) & rets_) for e in edges)
            c.ob('closed/%s/%s' % (fn_, key.rsplit('::', 2)[-2] + '::' + key.rsplit('::', 1)[-1]), ok, 'from the closed/shutdown outcome of %s the loop is left (the wait is not re-entered)' % key.rsplit('::', 1)[-1],
                 'edges %s' % edges, cs.loc())
    c.floor('channel waits inside loops', n, 6)
    # the wrappers really turn a closed channel into that outcome
    r = P.fn('rodbus::channel::Receiver::recv')
    inner = [cs for cs in r.calls('tokio::sync::mpsc::bounded::Receiver::recv')]
    ok = len(inner) == 1 and q.failure_leaves(r, inner[0])[0]
    c.ob('wrapper/channel::Receiver::recv', ok, 'channel::Receiver::recv maps a closed mpsc (None) to Err(Shutdown)', '', loc_of(r))
    f = P.fn('rodbus::client::task::ClientLoop::fail_next_request')
    rc = one(f.calls('rodbus::channel::Receiver::recv'), 'recv in fail_next_request')
    okf, how, why = q.failure_leaves(f, rc)
    c.ob('wrapper/fail_next_request', okf, 'fail_next_request propagates a closed channel as an error (StateChange::Shutdown)', '%s: %s' % (how, why), rc.loc())
    fr = P.find_impl('core::convert::From', 'rodbus::client::task::StateChange', 'from', 'rodbus::error::Shutdown')
    xs = q.exits(fr)
    c.ob('wrapper/From<Shutdown>', len(xs) == 1 and xs[0]['kind'] == 'agg' and xs[0]['variant'] == 'Shutdown', 'From<Shutdown> for StateChange yields StateChange::Shutdown', '', loc_of(fr))
    import inline
    ro = inline.expand(P, P.fn('rodbus::server::task::SessionTask::run_one'), {'rodbus::server::task::SessionTask::apply_command'})
    rcv = one(ro.calls('tokio::sync::mpsc::bounded::Receiver::recv'), 'commands.recv in run_one')
    okn, how, why = q.failure_leaves(ro, rcv)
    c.ob('wrapper/run_one', okn, 'run_one turns a closed command channel into Err(Shutdown)', '', rcv.loc())


@rule('C07', 'R07.5', 'no unsafe code in the protocol crate')
def r5(c):
    import tomllib, os
    from extract import REPO
    P = c.P
    u = P.unsafe.get('rodbus')
    if u is None:
        raise AnchorLost('unsafe scan of crate rodbus')
    c.ob('hir-scan', not u['sites'] and u['bodies'] > 500, 'no `unsafe` block or fn in rodbus (HIR scan of every body)', '%d bodies scanned, sites %s' % (u['bodies'], u['sites'][:3]))
    with open(os.path.join(os.environ.get('VERIF_REPO_OVERRIDE', REPO), 'Cargo.toml'), 'rb') as fh:
        top = tomllib.load(fh)
    lint = top.get('workspace', {}).get('lints', {}).get('rust', {}).get('unsafe_code')
    c.ob('workspace-lint', lint == 'forbid', 'workspace lint table has unsafe_code = "forbid"', str(lint))
    with open(os.path.join(os.environ.get('VERIF_REPO_OVERRIDE', REPO), 'rodbus', 'Cargo.toml'), 'rb') as fh:
        rc = tomllib.load(fh)
    c.ob('crate-inherits', rc.get('lints', {}).get('workspace') is True, 'rodbus inherits the workspace lints', str(rc.get('lints')))
    fu = c.FX.unsafe.get('posctl')
    c.control('unsafe block in the fixture is seen', fu is not None and len(fu['sites']) >= 1)


@rule('C07', 'R07.6', 'logging / Display paths are effect-free and re-parse defensively (their panic sites are in the inventory)')
def r6(c):
    P = c.P
    E = effects.get(P)
    n = 0
    for b in P.all_bodies(crate='rodbus'):
        if b.kind != 'AssocFn' or b.auto_derived:
            continue
        tr = norm(b.trait)
        if tr not in ('core::fmt::Display', 'rodbus::common::traits::Loggable', 'core::fmt::Debug'):
            continue
        n += 1
        eff = E.of(b.path) - {'state'}
        c.ob('quiet/%s' % b.path, not eff, '%s has no wire/app/sync/completion effect' % b.path, 'effects %s' % sorted(eff), loc_of(b))
        st = b.sig_in[0] if b.sig_in else ''
        c.ob('self/%s' % b.path, st.startswith('&') and not st.startswith('&mut'), 'takes &self', st, loc_of(b))
        # log() of payload-carrying types: every early exit on a failed re-parse returns Ok(()) (never unwraps)
    c.floor('Display / Loggable / Debug impls', n, 25)
    logs = [b for b in P.all_bodies(crate='rodbus') if norm(b.trait) == 'rodbus::common::traits::Loggable' and b.kind == 'AssocFn']
    for b in logs:
        unw = [cs for cs in b.calls() if cs.is_(*panics.PANIC_CALLS)]
        c.ob('no-unwrap/%s' % b.path, not unw, 'Loggable::log never unwraps a re-parse result', str([x.callee for x in unw]), loc_of(b))


@rule('C07', 'R07.7', 'no wedge while a request is outstanding: one deadline per transaction, raced with every wait for a frame (C12/R12.1, R12.2) - a stream of unrelated frames cannot keep the task from its queue forever')
def r7(c):
    from rules import c12
    c12.r1(c)
    c12.r2(c)


@rule('C07', 'R07.8', 'fair races: every tokio::select! that races the command / shutdown channel with peer I/O starts polling at a random branch (not `biased;`), so a peer that keeps data flowing cannot starve commands')
def r8(c):
    P = c.P
    n = 0
    for b in P.all_bodies(crate='rodbus'):
        if b.kind in ('Static', 'Const') or b.is_promoted:
            continue
        for s in q.select_sites(b):
            n += 1
            cl = q.sem(b, s['poll_fn'].args[0])
            cb = P.get(norm(cl.extra['closure'])) if cl.kind == 'agg' and isinstance(cl.extra, dict) and 'closure' in cl.extra else None
            rng = [cs for cs in cb.calls() if (cs.callee or '').endswith('::thread_rng_n')] if cb is not None else []
            # (a biased select whose first branch is the command channel itself cannot starve it)
            first_is_cmd = bool(s['futures']) and s['futures'][0] is not None and s['futures'][0].is_('tokio::sync::mpsc::bounded::Receiver::recv', 'rodbus::channel::Receiver::recv')
            c.ob('select/%s' % P.logical_name(b).rsplit('::', 2)[-2] + '::' + P.logical_name(b).rsplit('::', 1)[-1], len(rng) == 1 or (not rng and first_is_cmd),
                 'the select! draws its starting branch with thread_rng_n (a `biased;` select polls the first branch first every time: a branch that is always ready starves the others)',
                 '%d branches, random start: %s' % (len(s['futures']), bool(rng)), s['poll_fn'].loc())
    c.floor('select! sites', n, 4)


@rule('C07', 'R07.9', 'the invariant behind the receive buffer\'s index arithmetic (begin <= end <= 260, recorded in R07.1) is kept by its only writers: clear() zeroes both indices, compaction rebases both, reads advance begin only after a length check (C05/R05.6)')
def r9(c):
    from rules import c05
    c05.r6(c)
