"""C16 — only peers matching the address filter are served, in every server variant and through the C ABI."""
from core import rule, loc_of
from facts import AnchorLost, norm
import q, effects
from tables import *
from rules.c08 import one

AF = 'rodbus::server::address_filter::AddressFilter'
WC = 'rodbus::server::address_filter::WildcardIPv4'
ST = 'rodbus::tcp::server::ServerTask'
MATCHES = AF + '::matches'
SRV = 'rodbus::server::'


def filter_arg_ok(b, o, name='filter'):
    """operand derives from the `filter` parameter (possibly through .into()) and from no AddressFilter constant"""
    cl = b.op_closure(o)
    names = q.closure_names(b, o)
    const_filter = [x for x in cl if x[0] == 'agg' and x[1].startswith(AF + '::')]
    return (name in names) and not const_filter, 'depends on %s, AddressFilter constants %s' % (sorted(names)[:4], [x[1] for x in const_filter])


@rule('C16', 'R16.1', 'the filter is evaluated on accept, before a session (and any TLS handshake) exists')
def r1(c):
    P = c.P
    b = P.fn(ST + '::run')
    c.saw(b, len(b.calls()))
    m = one(b.calls(MATCHES), 'filter.matches in ServerTask::run')
    h = one(b.calls(ST + '::handle'), 'self.handle')
    acc = one([cs for cs in b.calls() if cs.callee.endswith('TcpListener::accept')], 'listener.accept')
    be = q.bool_edges(b, m)
    c.ob('handle/guarded', q.dominated_by_any(b, be['true'], h.node) and not any(h.node in b.reach_set(e, avoid={acc.node}) for e in be['false']), 'a connection is handed to handle() only on the filter.matches(..) == true edge', '', h.loc())
    r = q.sem(b, m.args[0])
    c.ob('matches/own-filter', q.sem_is_name(b, r, 'self') and any(p.endswith(':filter') for p in r.proj), 'the filter evaluated is the server\'s configured filter', repr(r), m.loc())
    ip = q.sem(b, m.args[1])
    oki = ip.kind == 'call' and ip.cs.callee.endswith('SocketAddr::ip')
    if oki:
        a = q.sem(b, ip.cs.args[0])
        oki = a.kind == 'call' and a.cs is acc
    c.ob('matches/peer-address', oki, 'the address tested is the peer address returned by the same accept()', repr(ip), m.loc())
    so = q.sem(b, h.args[1])
    c.ob('handle/same-socket', so.kind == 'call' and so.cs is acc, 'the socket handed on is the one accept() returned', repr(so), h.loc())
    E = effects.get(P)
    for e in be['false']:
        rs = b.reach_set(e, avoid={acc.node})
        bad = [cs for cs in b.calls() if cs.node in rs and not (q.is_tracing(cs) or q.is_fmt(cs) or q.is_machinery(cs)) and (E.of_call(cs) - {'state'}) and not cs.callee.endswith('::recv') and not cs.callee.endswith('TcpListener::accept')]
        c.ob('rejected/no-effect', not bad, 'a non-matching peer is only logged: its socket is dropped without any other effect', str([x.callee for x in bad]), loc_of(b, e[1]))
    hc = sorted({P.logical_name(cs.body) for cs in P.callers(ST + '::handle')})
    c.ob('handle/callers', hc == [ST + '::run'], 'handle() is called only from the accept loop', str(hc))
    rs_ = sorted({P.logical_name(cs.body) for cs in P.callers('rodbus::tcp::server::run_session')})
    c.ob('run_session/callers', rs_ == [ST + '::handle'], 'sessions (and TLS handshakes) are started only by handle()', str(rs_))
    ms = sorted({P.logical_name(cs.body) for cs in P.callers(MATCHES)})
    c.ob('matches/callers', ms == [ST + '::run'], 'the filter decision is taken at exactly one place', str(ms))
    # tracker / session bookkeeping only after the filter
    hb = P.fn(ST + '::handle')
    c.ob('tracker/after-filter', len(hb.calls('rodbus::tcp::server::SessionTracker::add')) == 1, 'a session slot is allocated inside handle(), i.e. only for accepted peers', '', loc_of(hb))


@rule('C16', 'R16.2', 'every constructor forwards the caller\'s filter (Rust API and C ABI, TCP / TLS / TLS+authz)')
def r2(c):
    P = c.P
    chain = [
        (SRV + 'spawn_tcp_server_task', SRV + 'create_tcp_server_task', 3),
        (SRV + 'create_tcp_server_task', ST + '::new', 4),
    ]
    if P.has(SRV + 'create_tls_server_task_impl'):
        chain += [
            (SRV + 'spawn_tls_server_task', SRV + 'spawn_tls_server_task_impl', 5),
            (SRV + 'create_tls_server_task', SRV + 'create_tls_server_task_impl', 5),
            (SRV + 'spawn_tls_server_task_with_authz', SRV + 'spawn_tls_server_task_impl', 5),
            (SRV + 'create_tls_server_task_with_authz', SRV + 'create_tls_server_task_impl', 5),
            (SRV + 'spawn_tls_server_task_impl', SRV + 'create_tls_server_task_impl', 5),
            (SRV + 'create_tls_server_task_impl', ST + '::new', 4),
        ]
    n = 0
    for f, callee, idx in chain:
        b = P.fn(f)
        c.saw(b, len(b.calls()))
        cs_l = b.calls(callee)
        ok = len(cs_l) == 1
        why = '%d calls of %s' % (len(cs_l), callee)
        if ok:
            ok, why = filter_arg_ok(b, cs_l[0].args[idx])
        c.ob('rust/%s' % f.rsplit('::', 1)[-1], ok, '%s passes its `filter` parameter on to %s' % (f.rsplit('::', 1)[-1], callee.rsplit('::', 1)[-1]), why, cs_l[0].loc() if cs_l else loc_of(b), kind='filter-forwarded')
        n += 1 if ok else 0
    nb = P.fn(ST + '::new')
    ag = [s for _, s in nb.aggregates(ST)]
    okn = len(ag) == 1 and q.is_name(nb, ag[0]['rv']['a'][ag[0]['rv']['fields'].index('filter')], 'filter')
    c.ob('ServerTask::new', okn, 'ServerTask::new stores the filter it was given', '', loc_of(nb))
    if 'rodbus_ffi' in P.crates:
        FS = 'rodbus_ffi::server::'
        sites = [(FS + 'server_create_tcp', SRV + 'spawn_tcp_server_task', 3)]
        if P.has(FS + 'server_create_tls_impl') and P.fn(FS + 'server_create_tls_impl').calls(SRV + 'spawn_tls_server_task'):
            sites += [(FS + 'server_create_tls_impl', SRV + 'spawn_tls_server_task', 4), (FS + 'server_create_tls_impl', SRV + 'spawn_tls_server_task_with_authz', 5)]
        for f, callee, idx in sites:
            b = P.fn(f)
            c.saw(b, len(b.calls()))
            cs_l = b.calls(callee)
            ok = len(cs_l) == 1
            why = '%d calls' % len(cs_l)
            if ok:
                ok, why = filter_arg_ok(b, cs_l[0].args[idx])
            c.ob('ffi/%s->%s' % (f.rsplit('::', 1)[-1], callee.rsplit('::', 1)[-1]), ok, 'the C ABI constructor passes the caller\'s filter to %s' % callee.rsplit('::', 1)[-1], why, cs_l[0].loc() if cs_l else loc_of(b), kind='filter-forwarded')
            n += 1 if ok else 0
        for f, callee, idx in ((FS + 'server_create_tls', FS + 'server_create_tls_impl', 3), (FS + 'server_create_tls_with_authz', FS + 'server_create_tls_impl', 3)):
            if not P.has(f):
                continue
            b = P.fn(f)
            cs_l = b.calls(callee)
            ok = len(cs_l) == 1 and q.is_name(b, cs_l[0].args[idx], 'filter')
            c.ob('ffi/%s' % f.rsplit('::', 1)[-1], ok, '%s forwards its filter pointer' % f.rsplit('::', 1)[-1], '', loc_of(b))
            n += 1 if ok else 0
    c.floor('constructors forwarding the filter', n, 2 if not P.has(SRV + 'create_tls_server_task_impl') else 8)
    fb = c.FX.fn('posctl::ctor::bad_constructor')
    cs = one(fb.calls('posctl::ctor::inner'), 'fixture inner')
    okf, _ = (lambda b, o: (('filter' in q.closure_names(b, o)) and not [x for x in b.op_closure(o) if x[0] == 'agg' and x[1].startswith('posctl::ctor::Filter::')], ''))(fb, cs.args[0])
    c.control('a constant filter passed instead of the parameter is seen', not okf)


@rule('C16', 'R16.3', 'matching tables: Any / Exact / AnyOf / WildcardIpv4; wildcards never match IPv6 and compare octet i with field i')
def r3(c):
    P = c.P
    b = P.fn(MATCHES)
    c.saw(b, len(b.calls()))
    arms = q.arms_of(b, AF)
    exs = q.exits(b)
    def reg_of(v):
        reg = set()
        for e, r in arms.get(v, []):
            reg |= r
        return reg
    xs = q.exit_in(b, reg_of('Any'), exs)
    c.ob('Any', len(xs) == 1 and xs[0]['kind'] == 'const' and xs[0]['op'].get('val') == '1', 'Any matches every address', '', loc_of(b))
    cl = q.calls_in(b, reg_of('Exact'))
    oke = len(cl) == 1 and cl[0].declared in ('core::cmp::PartialEq::eq',) and any(q.is_name(b, a, 'addr') for a in cl[0].args)
    c.ob('Exact', oke, 'Exact(x) matches iff x == addr', str([x.callee for x in cl]), loc_of(b))
    cl = [x for x in q.calls_in(b, reg_of('AnyOf')) if x.callee.endswith('HashSet::contains')]
    c.ob('AnyOf', len(cl) == 1 and 'addr' in q.closure_names(b, cl[0].args[1]), 'AnyOf(set) matches iff set.contains(addr)', '', loc_of(b))
    cl = [x for x in q.calls_in(b, reg_of('WildcardIpv4')) if x.callee == WC + '::matches']
    c.ob('WildcardIpv4', len(cl) == 1 and q.is_name(b, cl[0].args[1], 'addr'), 'WildcardIpv4(wc) matches iff wc.matches(addr)', '', loc_of(b))
    c.ob('variants', sorted(v['name'] for v in P.adt(AF)['variants']) == ['Any', 'AnyOf', 'Exact', 'WildcardIpv4'], 'AddressFilter has exactly these four forms', '')
    w = P.fn(WC + '::matches')
    c.saw(w, len(w.calls()))
    arms = q.arms_of(w, 'core::net::ip_addr::IpAddr')
    reg6 = set()
    for e, r in arms.get('V6', []):
        reg6 |= r
    xs = q.exit_in(w, reg6)
    calls6 = [x for x in q.calls_in(w, reg6)]
    c.ob('wildcard/v6-false', bool(reg6) and not calls6 and all((x['kind'] == 'const' and x['op'].get('val') == '0') for x in xs) and bool(xs), 'an IPv6 peer never matches an IPv4 wildcard (constant false, no conversion)', '%d calls on the V6 arm' % len(calls6), loc_of(w))
    reg4 = set()
    for e, r in arms.get('V4', []):
        reg4 |= r
    bm = [x for x in q.calls_in(w, reg4) if x.callee.endswith('::bm')]
    oc = [x for x in q.calls_in(w, reg4) if x.callee.endswith('Ipv4Addr::octets')]
    okb = len(bm) == 4 and len(oc) == 1
    if okb:
        pairs = set()
        for x in bm:
            o = q.sem(w, x.args[0])
            f = q.sem(w, x.args[1])
            oi = None
            m = [p for p in o.proj if p.startswith('cidx:') or p.startswith('field:')]
            if o.kind == 'call' and o.cs is oc[0] and m:
                oi = int(m[-1].split(':')[1])
            fname = f.proj[-1].split(':')[-1] if f.kind == 'place' and f.proj else None
            pairs.add((oi, fname))
        okb = pairs == {(0, 'b3'), (1, 'b2'), (2, 'b1'), (3, 'b0')}
        detail = str(sorted(pairs, key=str))
    else:
        detail = '%d bm calls' % len(bm)
    c.ob('wildcard/octet-pairing', okb, 'octet i of the peer address is compared with wildcard field i (b3.b2.b1.b0)', detail, loc_of(w))
    # all four comparisons must hold: the true result is dominated by the true edge of every bm call
    if len(bm) == 4:
        okall = True
        n_true = 0
        for x in q.exits(w):
            if x['node'] not in reg4 and not any(x['node'] == cs.ret for cs in bm):
                continue
            if x['kind'] == 'const' and x['op'].get('val') == '1':
                n_true += 1
                okall = okall and all(q.dominated_by_any(w, q.bool_edges(w, y)['true'], x['node']) for y in bm)
            elif x['kind'] == 'call' and x['cs'] in bm:
                n_true += 1
                okall = okall and all(q.dominated_by_any(w, q.bool_edges(w, y)['true'], x['cs'].node) for y in bm if y is not x['cs'])
            elif x['kind'] == 'const' and x['op'].get('val') == '0':
                pass
            else:
                okall = False
        c.ob('wildcard/all-four', okall and n_true >= 1, 'the match succeeds only if all four field comparisons succeed', '%d possibly-true exits' % n_true, loc_of(w))
    bmf = P.fn(WC + '::matches::bm')
    arms = [(e, v) for e, v, info in bmf.variant_edges('core::option::Option') if q.is_name(bmf, info['place'], 'other')]
    none = [e for e, v in arms if v == 'None']
    xs = [x for x in q.exits(bmf) if x['kind'] == 'const' and x['op'].get('val') == '1']
    c.ob('wildcard/star', len(none) == 1 and bool(xs) and all(q.dom(bmf, none[0], x['node']) for x in xs), 'a `*` field (None) matches any octet; a literal field matches by equality', '', loc_of(bmf))


@rule('C16', 'R16.4', 'wildcard strings: exactly four dot-separated fields, each `*` or a u8')
def r4(c):
    P = c.P
    b = P.find_impl('core::str::traits::FromStr', WC, 'from_str')
    c.saw(b, len(b.calls()))
    gb = b.calls('rodbus::server::address_filter::get_byte')
    nx = [cs for cs in b.calls() if cs.declared == 'core::iter::traits::iterator::Iterator::next']
    sp = [cs for cs in b.calls() if cs.callee.endswith('::split')]
    ok = len(gb) == 4 and len(nx) == 5 and len(sp) == 1 and all(q.outcomes(b, g).get('success') for g in gb)
    c.ob('four-fields', ok, 'from_str makes four checked get_byte calls on four successive split items, and one more next()', 'get_byte %d, next %d' % (len(gb), len(nx)), loc_of(b))
    xs = [x for x in q.exits(b) if x['kind'] == 'agg' and x['variant'] == 'Ok']
    okx = len(xs) == 1
    if okx:
        for g in gb:
            okx = okx and q.dominated_by_any(b, q.outcomes(b, g).get('success', []), xs[0]['node'])
        last = sorted(nx, key=lambda cs: sum(1 for o in nx if b.dominates(o.node, cs.node)))[-1]
        isome = [cs for cs in b.calls('core::option::Option::is_some') if q.sem(b, cs.args[0]).kind == 'call' and q.sem(b, cs.args[0]).cs is last]
        okx = okx and len(isome) == 1 and q.dominated_by_any(b, q.bool_edges(b, isome[0])['false'], xs[0]['node'])
        ag = q.sem(b, xs[0]['rv']['a'][0])
        if okx and ag.kind == 'agg':
            f = dict(zip(ag.extra['fields'], ag.extra['a']))
            order = sorted(gb, key=lambda cs: sum(1 for o in gb if b.dominates(o.node, cs.node)))
            for nm, g in zip(('b3', 'b2', 'b1', 'b0'), order):
                s = q.sem(b, f[nm])
                okx = okx and s.kind == 'call' and s.cs is g and s.checked
    c.ob('ok-exit', okx, 'Ok only if all four fields parsed, in order b3.b2.b1.b0, and there is no fifth field', '', loc_of(b))
    g = P.fn('rodbus::server::address_filter::get_byte')
    ps = [cs for cs in g.calls() if cs.callee.endswith('::parse') or 'FromStr' in (cs.declared or '')]
    okg = len(ps) == 1 and 'u8' in ps[0].gargs
    somes = [x for x in q.exits(g) if x['kind'] == 'agg' and x['variant'] == 'Ok' and (q.agg_variant_of(g, x['rv']['a'][0]) or ('', ''))[1] == 'Some']
    okg = okg and len(somes) == 1 and q.dominated_by_any(g, q.outcomes(g, ps[0]).get('Ok', []), somes[0]['node'])
    c.ob('get_byte', okg, 'a literal field is accepted only if it parses as u8 (checked)', '%d parse calls' % len(ps), loc_of(g))


@rule('C16', 'R16.5', 'C ABI filter objects convert variant by variant; address strings are parsed as IP or wildcard',
      needs=lambda P: 'rodbus_ffi' in P.crates)
def r5(c):
    P = c.P
    FA = 'rodbus_ffi::server::AddressFilter'
    b = P.find_impl('core::convert::From', AF, 'from', '&rodbus_ffi::server::AddressFilter')
    arms = q.arms_of(b, FA)
    exs = q.exits(b)
    n = 0
    for v in ('Any', 'AnyOf', 'WildcardIpv4'):
        reg = set()
        for e, r in arms.get(v, []):
            reg |= r
        ag = [s for i, s in q.aggs_in(b, reg, AF)]
        ok = len(ag) == 1 and ag[0]['rv']['variant'] == v
        if ok and v != 'Any':
            cl = b.op_closure(ag[0]['rv']['a'][0])
            ok = ('l', 1) in cl or 'from' in q.closure_names(b, ag[0]['rv']['a'][0])
        c.ob('convert/%s' % v, ok, 'ffi AddressFilter::%s becomes AddressFilter::%s with the same payload' % (v, v), '', loc_of(b))
        n += 1 if ok else 0
    c.exact('filter conversion arms', n, 3)
    p = P.fn('rodbus_ffi::server::parse_address_filter')
    ip = [cs for cs in p.calls() if cs.callee.endswith('::parse') and 'IpAddr' in cs.gargs]
    wc = [cs for cs in p.calls() if cs.callee.endswith('::parse') and 'WildcardIPv4' in cs.gargs]
    okp = len(ip) == 1 and len(wc) == 1 and q.dominated_by_any(p, q.outcomes(p, ip[0]).get('Err', []), wc[0].node) and bool(q.outcomes(p, wc[0]).get('success'))
    c.ob('parse_address_filter', okp, 'a filter string is an IP address, else a (checked) wildcard', '', loc_of(p))
    # what the parser may produce: AnyOf{ip} or WildcardIpv4(parsed) - never the catch-all (`*.*.*.*` is an IPv4 pattern: it does not admit IPv6 peers)
    made = sorted({s_['rv']['variant'] for _, s_ in p.aggregates(FA)})
    c.ob('parse_address_filter/variants', made == ['AnyOf', 'WildcardIpv4'], 'parse_address_filter builds AnyOf / WildcardIpv4 only', str(made), loc_of(p))
    anyc = sorted({P.logical_name(bb) for bb, _, _ in P.constructors(FA, 'Any', crate='rodbus_ffi')})
    c.ob('any/constructors', anyc == ['rodbus_ffi::server::address_filter_any'], 'the catch-all filter object is created only by address_filter_any()', str(anyc))
    wcs = [(i, s_) for i, s_ in p.aggregates(FA) if s_['rv']['variant'] == 'WildcardIpv4']
    if len(wcs) == 1 and len(wc) == 1:
        v = q.sem(p, wcs[0][1]['rv']['a'][0])
        c.ob('parse_address_filter/wildcard-payload', v.kind == 'call' and v.cs is wc[0] and q.has_success(v.proj) or (v.kind == 'call' and v.cs is wc[0] and v.checked), 'the wildcard stored is the one parsed', repr(v), loc_of(p))
