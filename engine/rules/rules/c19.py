"""C19 — the C-ABI point database: per-type maps with vacant/occupied discipline; transactions and replies under one lock."""
from core import rule, loc_of
from facts import AnchorLost, norm
import q, effects
from tables import *
from rules.c08 import one, hf, GET_REPLY, EXECUTE, LOCK, HGET

HAS_FFI = lambda P: 'rodbus_ffi' in P.crates
DB = 'rodbus_ffi::database::'
TYPES = {'coil': 'coils', 'discrete_input': 'discrete_input', 'holding_register': 'holding_registers', 'input_register': 'input_registers'}
ENTRY = 'std::collections::hash::map::Entry'


@rule('C19', 'R19.1', 'map helpers: add only into a vacant slot, update only an occupied one, get fails when absent', needs=HAS_FFI)
def r1(c):
    P = c.P
    for fn_, variant in (('add_entry', 'Vacant'), ('update_entry', 'Occupied')):
        b = P.fn(DB + fn_)
        c.saw(b, len(b.calls()))
        gm = [cs for cs in b.calls() if cs.callee.endswith('HashMap::get_mut')]
        if fn_ == 'update_entry' and len(gm) == 1 and not [cs for cs in b.calls() if cs.callee.endswith('HashMap::entry')]:
            # the other way to write "only if present": `if let Some(slot) = map.get_mut(&index) { *slot = value; true } else { false }`
            # (also as `.map(|slot| ..).unwrap_or(false)`, which the view writes out)
            g = gm[0]
            c.ob('%s/entry-of-index' % fn_, q.is_name(b, g.args[0], 'map') and 'index' in q.closure_names(b, g.args[1]), '%s looks up map.get_mut(&index)' % fn_, '', g.loc())
            oc = q.outcomes(b, g)
            some, none = oc.get('Some', []), oc.get('None', [])
            def through_slot(pl):
                if 'deref' not in pl['p']:
                    return False
                s_ = q.sem(b, {'l': pl['l'], 'p': []})
                return s_.kind == 'call' and s_.cs is g and q.has_success(s_.proj)
            stores = [(i, s_) for i, s_ in b.assigns() if through_slot(s_['pl'])]
            oks = len(stores) == 1 and q.dominated_by_any(b, some, ('b', stores[0][0])) and stores[0][1]['rv']['r'] == 'use' and q.is_name(b, stores[0][1]['rv']['a'][0], 'value')
            c.ob('%s/only-occupied' % fn_, oks, '%s writes the value only through the slot get_mut found (Some edge)' % fn_, '%d stores' % len(stores), loc_of(b))
            mutators = [cs for cs in b.calls() if cs.callee.startswith('std::collections::hash::map::HashMap::') and cs.callee.rsplit('::', 1)[-1] in ('insert', 'remove', 'clear', 'retain', 'drain', 'extend', 'entry')]
            c.ob('%s/no-direct-mutation' % fn_, not mutators, '%s never mutates the map directly (HashMap::insert would create or overwrite regardless of presence)' % fn_, str([x.callee for x in mutators]), loc_of(b))
            xs = q.exits(b)
            def cval(x):
                if x['kind'] == 'const':
                    return x['op'].get('val')
                if x['kind'] == 'copy':
                    v = q.const_val(b, x['op'])
                    return None if v is None else str(v)
                return None
            tr = [x for x in xs if cval(x) in ('1', 'true')]
            fa = [x for x in xs if cval(x) in ('0', 'false')]
            okr = bool(tr) and bool(fa) and len(tr) + len(fa) == len(xs) and all(q.dominated_by_any(b, some, x['node']) for x in tr) and all(q.dominated_by_any(b, none, x['node']) for x in fa)
            c.ob('%s/result' % fn_, okr, '%s returns true exactly on that edge, false otherwise' % fn_, str([(x['kind'], cval(x)) for x in xs]), loc_of(b))
            continue
        en = one([cs for cs in b.calls() if cs.callee.endswith('HashMap::entry')], 'map.entry')
        c.ob('%s/entry-of-index' % fn_, q.is_name(b, en.args[0], 'map') and q.is_name(b, en.args[1], 'index'), '%s looks up map.entry(index)' % fn_, '', en.loc())
        edges = [e for e, v, info in b.variant_edges() if info['adt'].endswith('::Entry') and v == variant and q.sem(b, info['place']).kind == 'call' and q.sem(b, info['place']).cs is en]
        other = [e for e, v, info in b.variant_edges() if info['adt'].endswith('::Entry') and v != variant and q.sem(b, info['place']).kind == 'call' and q.sem(b, info['place']).cs is en]
        ins = [cs for cs in b.calls() if cs.callee.endswith('Entry::insert') or cs.callee.endswith('VacantEntry::insert') or cs.callee.endswith('OccupiedEntry::insert')]
        anyins = [cs for cs in b.calls() if cs.callee.endswith('::insert') or cs.callee.endswith('::or_insert') or cs.callee.endswith('::insert_entry')]
        ok = len(edges) == 1 and len(anyins) == 1 and q.dominated_by_any(b, edges, anyins[0].node) and q.is_name(b, anyins[0].args[1], 'value')
        if ok:
            want = 'VacantEntry::insert' if variant == 'Vacant' else 'OccupiedEntry::insert'
            ok = anyins[0].callee.endswith(want)
        c.ob('%s/only-%s' % (fn_, variant.lower()), ok, '%s writes the value only on the Entry::%s edge (through that entry)' % (fn_, variant), str([x.callee.split('::')[-2:] for x in anyins]), loc_of(b))
        mutators = [cs for cs in b.calls() if cs.callee.startswith('std::collections::hash::map::HashMap::') and cs.callee.rsplit('::', 1)[-1] in ('insert', 'remove', 'clear', 'retain', 'drain', 'get_mut', 'extend')]
        c.ob('%s/no-direct-mutation' % fn_, not mutators, '%s never mutates the map directly (HashMap::insert would create or overwrite regardless of presence)' % fn_, str([x.callee for x in mutators]), loc_of(b))
        xs = q.exits(b)
        tr = [x for x in xs if x['kind'] == 'const' and x['op'].get('val') == '1']
        fa = [x for x in xs if x['kind'] == 'const' and x['op'].get('val') == '0']
        okr = len(tr) == 1 and len(fa) == 1 and q.dominated_by_any(b, edges, tr[0]['node']) and len(tr) + len(fa) == len(xs) and not any(q.dom(b, e, fa[0]['node']) for e in edges)
        c.ob('%s/result' % fn_, okr, '%s returns true exactly on that edge, false otherwise' % fn_, '', loc_of(b))
    g = P.fn(DB + 'get_entry')
    gt = one([cs for cs in g.calls() if cs.callee.endswith('HashMap::get')], 'map.get')
    okl, how = q.lookup_or_error(g, gt, ('rodbus_ffi::ffi::ParamError', 'InvalidIndex'))
    okg = okl and 'index' in q.closure_names(g, gt.args[1])
    mut = [cs for cs in g.calls() if cs.callee.endswith('::insert') or cs.callee.endswith('::remove') or cs.callee.endswith('::entry')]
    c.ob('get_entry', okg and not mut, 'get_entry returns map.get(&index) or ParamError::InvalidIndex and changes nothing', '', loc_of(g))


@rule('C19', 'R19.2', 'the 16 database functions use the same-named map and helper; a null database is false / NullParameter', needs=HAS_FFI)
def r2(c):
    P = c.P
    n = 0
    for ty, fld in TYPES.items():
        for op, helper in (('add', DB + 'add_entry'), ('update', DB + 'update_entry'), ('get', DB + 'get_entry'), ('delete', None)):
            b = P.fn(DB + 'database_%s_%s' % (op, ty))
            c.saw(b, len(b.calls()))
            am = one([cs for cs in b.calls() if (cs.callee.endswith('::as_mut') or cs.callee.endswith('::as_ref')) and q.is_name(b, cs.args[0], 'database')], 'database.as_mut() / as_ref()')
            oc = q.outcomes(b, am)
            some, none = oc.get('success', []), oc.get('failure', [])
            if helper:
                hc = b.calls(helper)
                ok = len(hc) == 1 and q.dominated_by_any(b, some, hc[0].node)
                if ok:
                    m = q.sem(b, hc[0].args[0])
                    ok = m.kind == 'call' and m.cs is am and m.proj and m.proj[-1].endswith(':' + fld) and q.is_name(b, hc[0].args[1], 'index')
                    if op != 'get':
                        ok = ok and q.is_name(b, hc[0].args[2], 'value')
                    xs = [x for x in q.exits(b) if any(q.dom(b, e, x['node']) for e in some)]
                    ok = ok and bool(xs) and all(x['kind'] == 'call' and x['cs'] is hc[0] for x in xs)
            else:
                rm = [cs for cs in b.calls() if cs.callee.endswith('HashMap::remove')]
                ok = len(rm) == 1 and q.dominated_by_any(b, some, rm[0].node)
                if ok:
                    m = q.sem(b, rm[0].args[0])
                    ok = m.kind == 'call' and m.cs is am and m.proj[-1].endswith(':' + fld) and 'index' in q.closure_names(b, rm[0].args[1])
                    isome = [cs for cs in b.calls('core::option::Option::is_some') if q.sem(b, cs.args[0]).kind == 'call' and q.sem(b, cs.args[0]).cs is rm[0]]
                    xs = [x for x in q.exits(b) if any(q.dom(b, e, x['node']) for e in some)]
                    ok = ok and len(isome) == 1 and bool(xs) and all(x['kind'] == 'call' and x['cs'] is isome[0] for x in xs)
            nx = [x for x in q.exits(b) if any(q.dom(b, e, x['node']) for e in none)]
            if op == 'get':
                okn = bool(nx) and all((q.exit_error(b, x) or ('', None))[0] == 'variant' and q.exit_error(b, x)[1][1] == 'NullParameter' for x in nx)
            else:
                okn = bool(nx) and all(x['kind'] == 'const' and x['op'].get('val') == '0' for x in nx)
            c.ob('%s_%s' % (op, ty), ok and okn, 'database_%s_%s acts on database.%s[index] through %s; null -> %s' % (op, ty, fld, (helper or 'remove(..).is_some()').rsplit('::', 1)[-1], 'NullParameter' if op == 'get' else 'false'), '', loc_of(b))
            n += 1 if ok and okn else 0
    c.exact('database functions', n, 16)


@rule('C19', 'R19.3', 'a client read touching an absent point is answered with exception 02 (C18/R18.3)', needs=HAS_FFI)
def r3(c):
    from rules.c18 import r3 as c18_r3
    c18_r3(c)


@rule('C19', 'R19.4', 'atomicity by lock scope: a transaction and a whole reply each run under one acquisition of the handler mutex', needs=HAS_FFI)
def r4(c):
    P = c.P
    b = P.fn('rodbus_ffi::server::server_update_database')
    c.saw(b, len(b.calls()))
    lk = one(b.calls(LOCK), 'handler.lock() in server_update_database')
    cb = one([cs for cs in b.calls() if cs.callee.endswith('DatabaseCallback::callback')], 'transaction.callback')
    c.ob('transaction/one-lock', not b.in_cycle(lk.node) and not b.in_cycle(cb.node) and b.dominates(lk.ret, cb.node), 'the transaction callback runs once, after one lock acquisition', '', cb.loc())
    cl = b.op_closure(cb.args[1])
    c.ob('transaction/database-under-guard', any(x[0] == 'call' and x[2] == lk.block for x in cl), 'the database handed to the callback is reached through that lock guard', '', cb.loc())
    # the guard is not dropped before the callback: no drop of the guard local between lock and callback
    uw = [cs for cs in b.calls('core::result::Result::unwrap') if q.sem(b, cs.args[0]).kind == 'call' and q.sem(b, cs.args[0]).cs is lk]
    okg = len(uw) == 1
    if okg:
        g = uw[0].dest['l']
        drops = [i for i, blk in enumerate(b.blocks) if not blk['cleanup'] and blk['term']['t'] == 'drop' and blk['term']['pl']['l'] == g and not blk['term']['pl']['p']]
        okg = bool(drops) and all(b.dominates(cb.ret, ('b', i)) for i in drops)
    c.ob('transaction/guard-held', okg, 'the MutexGuard is dropped only after the callback returned', '', lk.loc())
    hm = q.sem(b, lk.args[0])
    gt = [cs for cs in b.calls(HGET)]
    c.ob('transaction/unit', len(gt) == 1 and 'unit_id' in q.closure_names(b, gt[0].args[1]) and bool(q.outcomes(b, gt[0]) or True), 'the handler locked is the one registered for the given unit id', '', loc_of(b))
    # reply side (rodbus): get_reply / execute receive the handler from one guard that lives across the call
    h = hf(c)
    for callee, nm in ((GET_REPLY, 'get_reply'), (EXECUTE, 'execute')):
        cs = one(h.calls(callee), nm)
        idx = 2 if callee == GET_REPLY else 1
        cl = h.op_closure(cs.args[idx])
        locks = [x for x in cl if x[0] == 'call' and x[1] == LOCK]
        ok = len(locks) == 1
        if ok:
            lcs = h.cs_at[locks[0][2]]
            uw = [u for u in h.calls('core::result::Result::unwrap') if q.sem(h, u.args[0]).kind == 'call' and q.sem(h, u.args[0]).cs is lcs]
            ok = len(uw) == 1 and h.dominates(lcs.ret, cs.node)
            if ok:
                g = uw[0].dest['l']
                drops = [i for i, blk in enumerate(h.blocks) if not blk['cleanup'] and blk['term']['t'] == 'drop' and blk['term']['pl']['l'] == g and not blk['term']['pl']['p']]
                ok = bool(drops) and all(not h.reaches(('b', i), cs.node) or h.dominates(cs.ret, ('b', i)) for i in drops) and all(h.dominates(cs.ret, ('b', i)) for i in drops if h.reaches(lcs.ret, ('b', i)))
                # same iteration for the broadcast loop
                if callee == EXECUTE:
                    ok = ok and h.cycle_of(lcs.node) == h.cycle_of(cs.node)
        c.ob('reply/%s-under-one-lock' % nm, ok, 'the handler given to %s comes from one Mutex::lock() whose guard is dropped only after %s returned' % (nm, nm), '%d lock calls in the dependence closure' % len(locks), cs.loc(), kind='lock-scope')
    gr = P.outer(GET_REPLY)
    c.ob('reply/handler-not-mutex', 'Mutex' not in gr.sig_in[2] and 'dyn rodbus::server::handler::RequestHandler' in gr.sig_in[2], 'get_reply receives the unlocked handler itself, so it cannot re-lock per point', gr.sig_in[2], loc_of(gr))
    inner_locks = [cs for x in P.nested(GET_REPLY) for cs in x.calls(LOCK)] + [cs for x in P.nested(EXECUTE) for cs in x.calls(LOCK)]
    c.ob('reply/no-inner-lock', not inner_locks, 'neither get_reply (and its closures) nor execute acquire a lock themselves', str(len(inner_locks)), loc_of(gr))
    lock_sites = sorted({P.logical_name(cs.body) for cs in P.callers(LOCK) if cs.body.crate in ('rodbus', 'rodbus_ffi')})
    c.ob('lock-sites', lock_sites == sorted([HANDLE_FRAME, 'rodbus_ffi::server::server_update_database']), 'handler mutexes are locked only in handle_frame and server_update_database', str(lock_sites))
    # the database is otherwise touched only by the wrapper's trait methods and during configuration
    users = set()
    for x in P.all_bodies(crate='rodbus_ffi'):
        for i, s in x.assigns():
            pls = [s['pl']] + ([s['rv']['pl']] if 'pl' in s['rv'] else []) + [a['pl'] for a in s['rv'].get('a', []) if a.get('k') in ('copy', 'move')]
            if any(any(p.endswith(':database') for p in pl['p']) for pl in pls):
                users.add(P.logical_name(x))
    allowed = {'rodbus_ffi::server::server_update_database', 'rodbus_ffi::server::device_map_add_endpoint', 'rodbus_ffi::server::RequestHandlerWrapper::new'} | \
        {'<rodbus_ffi::server::RequestHandlerWrapper as rodbus::server::handler::RequestHandler>::' + m for m in HANDLER_METHOD.values()}
    c.ob('database-users', users <= allowed, 'the wrapper\'s database is reached only from the handler methods (under the session\'s lock), the transaction, and configuration before the server exists', str(sorted(users - allowed)))
