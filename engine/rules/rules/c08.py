"""C08 — a denied request has no effect and is answered with exception 01 (structural clauses)."""
from core import rule, loc_of
from facts import AnchorLost, norm
import q, effects
from tables import *

IS_AUTH = 'rodbus::server::task::AuthorizationType::is_authorized'
CHECK_AUTH = 'rodbus::server::task::AuthorizationType::check_authorization'
AUTH = 'rodbus::server::handler::Authorization'
REPLY_ERR = 'rodbus::server::task::SessionTask::reply_with_error'
REPLY_ERR_G = 'rodbus::server::task::SessionTask::reply_with_error_generic'
PARSE = 'rodbus::server::request::Request::parse'
GET_REPLY = 'rodbus::server::request::Request::get_reply'
EXECUTE = 'rodbus::server::request::BroadcastRequest::execute'
INTO_BC = 'rodbus::server::request::Request::into_broadcast_request'
HGET = 'rodbus::server::handler::ServerHandlerMap::get'
HITER = 'rodbus::server::handler::ServerHandlerMap::iter_mut'
WIRE_WRITE = 'rodbus::common::phys::PhysLayer::write'
LOCK = 'std::sync::poison::mutex::Mutex::lock'


def one(lst, what):
    if len(lst) != 1:
        raise AnchorLost("expected exactly one %s, found %d" % (what, len(lst)))
    return lst[0]


def hf(c):
    b = c.P.fn(HANDLE_FRAME)
    c.saw(b, len(b.calls()))
    return b


@rule('C08', 'R08.1', 'authorization is consulted after parsing and before every effect of a parsed request')
def r1(c):
    b = hf(c)
    E = effects.get(c.P)
    auth = one(b.calls(IS_AUTH), 'call of is_authorized in handle_frame')
    parse = one(b.calls(PARSE), 'call of Request::parse in handle_frame')
    c.ob('is_authorized/once', not b.in_cycle(auth.node), 'is_authorized is evaluated once per frame (not in a loop)',
         'call at bb%d is acyclic' % auth.block, auth.loc())
    ok_edges = q.outcomes(b, parse).get('Ok', [])
    c.ob('is_authorized/after-parse', q.dominated_by_any(b, ok_edges, auth.node),
         'is_authorized is dominated by the Ok edge of the checked Request::parse',
         'Ok edge %s dominates bb%d' % (ok_edges, auth.block), auth.loc())
    # arguments: unit id from the frame's destination, the request that was just parsed
    a_unit = q.sem(b, auth.args[1])
    okunit = a_unit.kind == 'call' and a_unit.cs.is_('rodbus::common::frame::FrameDestination::into_unit_id') and \
        q.refers_to_name(b, a_unit.cs.args[0], 'frame') and 'field:0:destination' in ''.join(q.sem(b, a_unit.cs.args[0]).proj[-1:])
    c.ob('is_authorized/unit-id', okunit, 'unit id argument is frame.header.destination.into_unit_id()',
         'argument origin: %r' % a_unit, auth.loc())
    a_req = q.sem(b, auth.args[2])
    okreq = a_req.kind == 'call' and a_req.cs is parse
    c.ob('is_authorized/request', okreq, 'request argument is the value returned by Request::parse',
         'argument origin: %r' % a_req, auth.loc())
    recv = q.sem(b, auth.args[0])
    c.ob('is_authorized/receiver', recv.kind == 'place' and any('auth' in p for p in recv.proj) and q.sem_is_name(b, recv, 'self'),
         'receiver is self.auth', 'receiver origin %r' % recv, auth.loc())
    # every effectful call that can only happen for a parsed request happens after authorization
    n = 0
    for cs in b.calls():
        if q.is_tracing(cs) or q.is_fmt(cs) or q.is_machinery(cs) or cs is auth:
            continue
        if not q.dominated_by_any(b, ok_edges, cs.node):
            continue
        eff = E.of_call(cs)
        special = cs.is_(HGET, HITER, LOCK, GET_REPLY, EXECUTE, INTO_BC, WIRE_WRITE, REPLY_ERR, REPLY_ERR_G)
        if not eff and not special:
            continue
        n += 1
        c.ob('effect-after-auth/%s' % (cs.callee,), b.dominates(auth.ret, cs.node),
             'effectful call %s (effects %s) is dominated by the return of is_authorized' % (cs.callee, sorted(eff)),
             'bb%d dominated by is_authorized at bb%d' % (cs.block, auth.block), cs.loc(), kind='L%s' % '' )
    c.floor('effectful calls after parse examined', n, 6)
    # the request handed to get_reply / into_broadcast_request is the authorized one
    for name in (GET_REPLY, INTO_BC):
        cs = one(b.calls(name), 'call of %s' % name)
        s = q.sem(b, cs.args[0])
        c.ob('same-request/%s' % name.rsplit('::', 1)[-1], s.kind == 'call' and s.cs is parse,
             '%s acts on the request that was authorized' % name, 'receiver origin %r' % s, cs.loc())


@rule('C08', 'R08.2', 'the Deny edge reaches no handler, no lookup, no lock; only the exception-01 reply')
def r2(c):
    import inline
    # reply_with_error is a one-line wrapper of reply_with_error_generic(.., FunctionField::Exception(function), ..): the rule
    # looks at handle_frame with it written out, so that using the wrapper or the generic function directly is the same
    b = inline.expand(c.P, hf(c), {REPLY_ERR}) if c.P.has(REPLY_ERR) else hf(c)
    E = effects.get(c.P)
    auth = one(b.calls(IS_AUTH), 'call of is_authorized in handle_frame')
    oc = q.outcomes(b, auth)
    deny = oc.get('Deny', [])
    allow = oc.get('Allow', [])
    c.ob('deny-edge', len(deny) == 1 and len(allow) == 1, 'the result of is_authorized is matched on Allow/Deny',
         'edges Deny=%s Allow=%s' % (deny, allow), auth.loc())
    if len(deny) != 1:
        return
    d = deny[0]
    reach = b.reach_set(d) | {d}
    replies = []
    n = 0
    for cs in b.calls():
        if cs.node not in reach:
            continue
        if q.is_tracing(cs) or q.is_fmt(cs) or q.is_machinery(cs):
            continue
        n += 1
        eff = E.of_call(cs)
        if cs.is_(REPLY_ERR_G):
            replies.append(cs)
            continue
        c.ob('deny-reach/%s' % cs.callee, not eff and not cs.is_(HGET, HITER, LOCK, GET_REPLY, EXECUTE, INTO_BC, WIRE_WRITE),
             'call reachable from the Deny edge is effect-free', '%s has effects %s' % (cs.callee, sorted(eff)), cs.loc())
    c.floor('calls reachable from Deny examined', n, 2)
    rep = one(replies, 'reply_with_error reachable from the Deny edge')
    # exception code and function
    ex = q.agg_variant_of(b, rep.args[4])
    c.ob('deny-reply/exception', ex == (EXC, 'IllegalFunction'), 'deny reply carries ExceptionCode::IllegalFunction (01)',
         'exception operand is %s' % (ex,), rep.loc())
    ff_ = q.sem(b, rep.args[3])
    okx = ff_.kind == 'agg' and isinstance(ff_.extra, dict) and ff_.extra.get('variant') == 'Exception' and not ff_.proj and ff_.extra.get('a')
    c.ob('deny-reply/exception-field', bool(okx), 'the function field of the deny reply is FunctionField::Exception(function) (function code | 0x80)', repr(ff_), rep.loc())
    f = q.sem(b, ff_.extra['a'][0]) if okx else ff_
    parse = one(b.calls(PARSE), 'Request::parse')
    okf = f.kind == 'call' and f.cs.is_('rodbus::server::request::Request::get_function') and \
        q.sem(b, f.cs.args[0]).kind == 'call' and q.sem(b, f.cs.args[0]).cs is parse
    if not okf:
        # ... or the function code the request was parsed as (the argument of Request::parse: R01.2 ties each parse arm
        # to the request kind of that code, so both name the same function)
        pf = q.sem(b, parse.args[0])
        okf = f.kind == 'call' and pf.kind == 'call' and f.cs is pf.cs and f.proj == pf.proj
    c.ob('deny-reply/function', okf, "deny reply names the request's own function (request.get_function(), or the code it was parsed as)",
         'function operand origin %r' % f, rep.loc())
    h = q.sem(b, rep.args[2])
    c.ob('deny-reply/header', q.sem_is_name(b, h, 'frame') and any('header' in p for p in h.proj),
         "deny reply echoes the request frame's header", 'header operand origin %r' % h, rep.loc())
    # not answered on broadcast: dominated by is_broadcast() == false
    isb = [cs for cs in b.calls('rodbus::common::frame::FrameDestination::is_broadcast') if cs.node in reach]
    okb = False
    for cs in isb:
        be = q.bool_edges(b, cs)
        if q.dominated_by_any(b, be['false'], rep.node):
            okb = True
    c.ob('deny-reply/not-broadcast', okb, 'deny reply is dominated by !destination.is_broadcast()',
         'is_broadcast sites on the deny path: %d' % len(isb), rep.loc())
    # always answered: from the Deny edge every path to the end of handle_frame sends that reply, except for a broadcast
    bc_true = []
    for cs in isb:
        bc_true += q.bool_edges(b, cs)['true']
    oka, leak = q.always_passes(b, d, {rep.node}, bc_true)
    c.ob('deny-reply/always', oka, 'a denied request is always answered with that exception (the only silent exit is the broadcast destination) - whatever its unit id',
         'returns reachable without the reply: %s' % [loc_of(b, n[1]) for n in leak], rep.loc())
    # the deny path ends the frame: nothing of the Allow path is reachable from it
    a = allow[0] if allow else None
    if a is not None:
        allow_only = (b.reach_set(a) | {a})
        shared = [cs for cs in b.calls() if cs.node in reach and cs.node in allow_only
                  and not (q.is_tracing(cs) or q.is_fmt(cs) or q.is_machinery(cs))]
        c.ob('deny-path/returns', not shared, 'the Deny path returns without rejoining the Allow path',
             'calls reachable from both: %s' % [cs.callee for cs in shared], loc_of(b, d[1]))


@rule('C08', 'R08.3', 'each request kind is submitted to the same-named authorization callback with its own range / index')
def r3(c):
    b = c.P.fn(CHECK_AUTH)
    c.saw(b, len(b.calls()))
    arms = q.arms_of(b, REQ)
    n = 0
    for v in REQUESTS:
        meth, field = AUTH_METHOD[v]
        lst = arms.get(v, [])
        if not c.ob('arm/%s' % v, len(lst) >= 1, 'match arm for Request::%s exists' % v, '%d arm(s)' % len(lst), loc_of(b)):
            continue
        calls = []
        for e, reg in lst:
            calls += [cs for cs in q.calls_in(b, reg) if (cs.declared or '').startswith(AH)]
        ok = len(calls) == 1 and calls[0].declared == AH + meth
        c.ob('arm/%s/callee' % v, ok, 'arm Request::%s calls exactly AuthorizationHandler::%s' % (v, meth),
             'calls: %s' % [cs.declared for cs in calls], calls[0].loc() if calls else loc_of(b))
        if not ok:
            continue
        n += 1
        cs = calls[0]
        # args: (handler, unit_id, payload, role)
        s0 = q.sem(b, cs.args[0])
        c.ob('arm/%s/handler' % v, q.sem_is_name(b, s0, 'handler'), 'receiver is the `handler` parameter', repr(s0), cs.loc())
        s1 = q.sem(b, cs.args[1])
        c.ob('arm/%s/unit' % v, q.sem_is_name(b, s1, 'unit_id'), 'unit id is the `unit_id` parameter unchanged', repr(s1), cs.loc())
        s3 = q.sem(b, cs.args[3])
        c.ob('arm/%s/role' % v, q.sem_is_name(b, s3, 'role'), 'role is the `role` parameter unchanged', repr(s3), cs.loc())
        s2 = q.sem(b, cs.args[2])
        proj = ''.join(s2.proj)
        okp = q.sem_is_name(b, s2, 'request') and ('downcast:' in proj and (':' + v) in proj) and proj.endswith(':' + field)
        c.ob('arm/%s/payload' % v, okp, "argument is the matched request's `%s`" % field, 'origin %r' % s2, cs.loc())
    c.exact('request kinds mapped', n, 8)


@rule('C08', 'R08.4', 'the decision is taken per request: no stored decision, None allows, Handler returns the callback verdict')
def r4(c):
    P = c.P
    b = P.fn(IS_AUTH)
    c.saw(b, len(b.calls()))
    c.ob('is_authorized/&self', b.sig_in and b.sig_in[0].startswith('&') and not b.sig_in[0].startswith('&mut'),
         'is_authorized takes &self (cannot record a decision)', 'self type %s' % (b.sig_in[0] if b.sig_in else None), loc_of(b))
    # no field of type Authorization in the session / authorization type
    for adt in ('rodbus::server::task::SessionTask', 'rodbus::server::task::AuthorizationType'):
        a = P.adt(adt)
        bad = [(v['name'], f['name']) for v in a['variants'] for f in v['fields'] if 'handler::Authorization' in f['ty'] and 'AuthorizationHandler' not in f['ty']]
        c.ob('no-cached-decision/%s' % adt.rsplit('::', 1)[-1], not bad, '%s stores no Authorization value' % adt, 'fields: %s' % bad)
    arms = q.arms_of(b, 'rodbus::server::task::AuthorizationType')
    # None arm: returns Allow
    ex = q.exits(b)
    none_ok = bool(arms.get('None'))
    for e, reg in arms.get('None', []):
        inarm = [x for x in ex if x['node'] in reg]
        none_ok = none_ok and bool(inarm) and all(x['kind'] == 'agg' and x['adt'] == AUTH and x['variant'] == 'Allow' for x in inarm)
    c.ob('None->Allow', none_ok, 'AuthorizationType::None yields Authorization::Allow', 'exits: %s' % [(x['kind'], x.get('variant')) for x in ex], loc_of(b))
    # Handler arm: returns exactly the value computed by check_authorization
    chk = one(b.calls(CHECK_AUTH), 'call of check_authorization')
    h_ok = bool(arms.get('Handler'))
    for e, reg in arms.get('Handler', []):
        inarm = [x for x in ex if x['node'] in reg]
        oc_ = q.outcomes(b, chk)

        def same_verdict(x):
            """the exit returns check_authorization's value: the value itself, or - when the verdict is matched on - the
            same-named variant on each of its edges"""
            if x['kind'] == 'copy' and x['sem'].kind == 'call' and x['sem'].cs is chk and not x['sem'].proj:
                return True
            return x['kind'] == 'agg' and x['adt'] == AUTH and x['variant'] in ('Allow', 'Deny') and q.dominated_by_any(b, oc_.get(x['variant'], []), x['node'])
        h_ok = h_ok and bool(inarm) and all(same_verdict(x) for x in inarm)
    covered = set()
    for v in ('None', 'Handler'):
        for e, reg in arms.get(v, []):
            covered |= {x['node'] for x in ex if x['node'] in reg}
    c.ob('exits-covered', all(x['node'] in covered for x in ex), 'every exit of is_authorized belongs to the None or the Handler arm',
         '%d exits, %d inside the two arms' % (len(ex), len(covered)), loc_of(b))
    c.ob('Handler->verdict', h_ok, "the Handler arm returns check_authorization's result unchanged",
         'exits: %s' % [(x['kind'], repr(x.get('sem'))) for x in ex], chk.loc())
    pa = q.pinned_args(b, chk, ['handler', 'unit_id', 'request', 'role'])
    for i, nm in ((1, 'unit_id'), (2, 'request')):
        s = q.sem(b, pa[nm]) if pa[nm] is not None else q.Sem('other')
        c.ob('check_authorization/arg-%s' % nm, q.sem_is_name(b, s, nm), '%s passed through unchanged' % nm, repr(s), chk.loc())
    def stored(o, idx):
        s = q.sem(b, o)
        if s.kind == 'call' and s.cs.args:      # String::deref / Arc::as_ref
            s = q.sem(b, s.cs.args[0])
        pj = ''.join(s.proj)
        return q.sem_is_name(b, s, 'self') and ':Handler' in pj and ('field:%d:' % idx) in pj, s
    okr, s = stored(pa['role'], 1) if pa['role'] is not None else (False, None)
    c.ob('check_authorization/role', okr, 'role is the string stored in AuthorizationType::Handler (field 1)', repr(s), chk.loc())
    okh, s = stored(pa['handler'], 0) if pa['handler'] is not None else (False, None)
    c.ob('check_authorization/handler', okh, 'handler is the one stored in AuthorizationType::Handler (field 0)', repr(s), chk.loc())
    c.ob('callers', sorted({P.logical_name(cs.body) for cs in P.callers(CHECK_AUTH)}) == [IS_AUTH],
         'check_authorization is called only from is_authorized', str(sorted({P.logical_name(cs.body) for cs in P.callers(CHECK_AUTH)})))
    callers = sorted({P.logical_name(cs.body) for cs in P.callers(IS_AUTH)})
    c.ob('callers/is_authorized', callers == [HANDLE_FRAME], 'is_authorized is called only from handle_frame', str(callers))


@rule('C08', 'R08.5', 'default-deny trait methods; the read-only policy allows the four reads and denies the four writes')
def r5(c):
    P = c.P
    n = 0
    for v in REQUESTS:
        meth = AUTH_METHOD[v][0]
        # provided method
        b = P.fn(AH + meth)
        ex = q.exits(b)
        ok = len(ex) >= 1 and all(x['kind'] == 'agg' and x['adt'] == AUTH and x['variant'] == 'Deny' for x in ex)
        c.ob('default/%s' % meth, ok, 'provided AuthorizationHandler::%s returns Deny' % meth, str([(x['kind'], x.get('variant')) for x in ex]), loc_of(b))
        rop = '<rodbus::server::handler::ReadOnlyAuthorizationHandler as rodbus::server::handler::AuthorizationHandler>::' + meth
        ro = P.fn(rop) if P.has(rop) else b        # not overridden: the provided method (checked above) applies
        ex = q.exits(ro)
        want = 'Allow' if v in READS else 'Deny'
        ok = len(ex) >= 1 and all(x['kind'] == 'agg' and x['adt'] == AUTH and x['variant'] == want for x in ex)
        c.ob('read-only/%s' % meth, ok, 'ReadOnlyAuthorizationHandler::%s returns %s' % (meth, want), str([(x['kind'], x.get('variant')) for x in ex]), loc_of(ro))
        n += 1
        c.saw(b)
        c.saw(ro)
    c.exact('policy methods', n, 8)
    t = P.traits.get('rodbus::server::handler::AuthorizationHandler')
    if t is None:
        raise AnchorLost('trait AuthorizationHandler')
    names = sorted(i['name'] for i in t['items'] if i['name'] != 'wrap')
    c.ob('trait-items', names == sorted(m for m, _ in AUTH_METHOD.values()), 'the trait has exactly the eight callbacks', str(names))


@rule('C08', 'R08.6', 'the role of a session comes only from the client certificate',
      needs=lambda P: P.has('rodbus::tcp::tls::server::TlsServerConfig::handle_connection'))
def r6(c):
    P = c.P
    cons = P.constructors('rodbus::server::task::AuthorizationType', 'Handler')
    where = sorted({P.logical_name(b) for b, _, _ in cons})
    HC = 'rodbus::tcp::tls::server::TlsServerConfig::handle_connection'
    c.ob('constructors', where == [HC], 'AuthorizationType::Handler is built only in TlsServerConfig::handle_connection', str(where))
    for b, i, s in cons:
        if P.logical_name(b) != HC:
            continue
        c.saw(b, len(b.calls()))
        role = q.sem(b, s['rv']['a'][1])
        ext = b.calls('rodbus::tcp::tls::server::extract_modbus_role')
        ok = role.kind == 'call' and role.cs.is_('rodbus::tcp::tls::server::extract_modbus_role') and role.checked
        c.ob('role-origin', ok, 'role operand is the checked (`?`) result of extract_modbus_role', repr(role), loc_of(b, i, stmt=s))
        h = q.sem(b, s['rv']['a'][0])
        c.ob('handler-origin', q.is_name(b, s['rv']['a'][0], 'auth_handler'),
             'handler operand is the configured authorization handler', repr(h), loc_of(b, i, stmt=s))


@rule('C08', 'R08.7', 'C ABI: authorization callbacks forward to the same-named callback and default to Deny; enum conversion',
      needs=lambda P: 'rodbus_ffi' in P.crates and P.has('rodbus::tcp::tls::server::TlsServerConfig::new'))
def r7(c):
    P = c.P
    W = '<rodbus_ffi::server::AuthorizationHandlerWrapper as rodbus::server::handler::AuthorizationHandler>::'
    n = 0
    for v in REQUESTS:
        meth = AUTH_METHOD[v][0]
        b = P.fn(W + meth)
        c.saw(b, len(b.calls()))
        cb = [cs for cs in b.calls() if (cs.callee or '').startswith('rodbus_ffi::ffi::AuthorizationHandler::')]
        ok = len(cb) == 1 and cb[0].callee == 'rodbus_ffi::ffi::AuthorizationHandler::' + meth
        c.ob('ffi/%s/callee' % meth, ok, 'wrapper %s calls the C callback %s' % (meth, meth), str([x.callee for x in cb]), loc_of(b))
        if ok:
            # unit id, range / index and role of THIS query reach the callback: each argument derives from the
            # same-named parameter, and the role from nothing the wrapper object remembers
            call = cb[0]
            rolearg = call.args[-1]
            cl = b.op_closure(rolearg)
            role_l = [pl['l'] for n_, pl in b.names.items() if n_ == 'role' and not pl['p']]
            okr = bool(role_l) and ('l', role_l[0]) in cl and ('l', 1) not in cl
            c.ob('ffi/%s/role' % meth, okr, 'the role handed to the C callback is converted from the `role` parameter of this call (nothing cached in the wrapper)',
                 'depends on self: %s' % (('l', 1) in cl), call.loc())
            oku = 'unit_id' in q.closure_names(b, call.args[1])
            c.ob('ffi/%s/unit' % meth, oku, 'the unit id handed to the C callback is the `unit_id` parameter', '', call.loc())
        okd = False
        if len(cb) == 1:
            # None -> Deny, Some(a) -> a.into()   (written as a match, or as `.map(|a| a.into()).unwrap_or(Deny)`, which the
            # view writes out as that match)
            oc_ = q.outcomes(b, cb[0])
            exs_ = q.exits(b)
            none_e, some_e = oc_.get('None', []), oc_.get('Some', [])
            none_reach = set()
            for e_ in none_e:
                none_reach |= b.reach_set(e_)
            okn = bool(none_e)
            for e_ in none_e:
                xs_ = [x for x in exs_ if x['node'] in b.reach_set(e_)]
                okn = okn and bool(xs_) and all((lambda v: v.kind == 'agg' and isinstance(v.extra, dict) and norm(v.extra.get('adt', '')) == AUTH and v.extra.get('variant') == 'Deny')(q.exit_sem(b, x)) for x in xs_)
            oks = bool(some_e)
            for e_ in some_e:
                xs_ = [x for x in exs_ if x['node'] in b.reach_set(e_) and x['node'] not in none_reach]
                def conv(v):
                    return v.kind == 'call' and not v.proj and v.cs.declared in ('core::convert::Into::into', 'core::convert::From::from') and \
                        q.sem(b, v.cs.args[0]).kind == 'call' and q.sem(b, v.cs.args[0]).cs is cb[0]
                oks = oks and bool(xs_) and all(conv(q.exit_sem(b, x)) for x in xs_)
            okd = okn and oks
        uo = []
        c.ob('ffi/%s/default-deny' % meth, okd, 'a missing callback result becomes Authorization::Deny, a present one is converted as it is', '', loc_of(b))
        n += 1
    c.exact('ffi authorization callbacks', n, 8)
    conv = P.find_impl('core::convert::From', AUTH, 'from', 'rodbus_ffi::ffi::Authorization')
    arms = q.arms_of(conv, 'rodbus_ffi::ffi::Authorization')
    ex = q.exits(conv)
    for v in ('Allow', 'Deny'):
        ok = False
        for e, reg in arms.get(v, []):
            for x in ex:
                if x['node'] in reg and x['kind'] == 'agg' and x['adt'] == AUTH and x['variant'] == v:
                    ok = True
        c.ob('ffi/convert/%s' % v, ok, 'ffi::Authorization::%s converts to Authorization::%s' % (v, v), '', loc_of(conv))


@rule('C08', 'R08.8', 'with an authorization handler configured a session exists only with a role: role extraction and the choice of AuthorizationType (C09/R09.3)',
      needs=lambda P: P.has('rodbus::tcp::tls::server::TlsServerConfig::new'))
def r8(c):
    from rules import c09
    c09.r3(c)
