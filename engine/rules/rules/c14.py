"""C14 — reconnect delays follow the retry strategy (structural clauses: where the strategy is consulted / reset, that the
announced delay is the waited delay, and the dependence shape of the doubling strategy; the numeric sequence is NOT decided)."""
from core import rule, loc_of
from facts import AnchorLost, norm
import q, effects, inline
from tables import *
from rules.c08 import one
from rules.c11 import CL
from rules.c13 import TT, ST, UPDATE, CS, PS, FRF, events, wait_sites

RS = 'rodbus::retry::RetryStrategy::'
D = 'rodbus::retry::Doubling'
DIMPL = '<rodbus::retry::Doubling as rodbus::retry::RetryStrategy>::'
RTU_SRV = 'rodbus::serial::server::RtuServerTask::run'


@rule('C14', 'R14.1', 'the strategy is reset exactly when a connection is complete (after the TLS handshake) / a port opened')
def r1(c):
    P = c.P
    sites = P.callers(RS + 'reset', crate='rodbus')
    where = sorted({P.logical_name(cs.body) for cs in sites})
    want = [TT + '::run_connection'] + ([ST + '::try_open_and_run', RTU_SRV] if P.has(RTU_SRV) else [])
    c.ob('callers', where == sorted(want), 'RetryStrategy::reset is called by run_connection, try_open_and_run and the RTU server only', str(where), examined=len(sites))
    b = P.fn(TT + '::run_connection')
    rs = one(b.calls(RS + 'reset'), 'reset in run_connection')
    run = one(b.calls(CL + '::run'), 'client_loop.run')
    c.ob('tcp/before-session', b.dominates(rs.ret, run.node) and not b.in_cycle(rs.node) and b.dominates(rs.node, b.return_blocks() and ('b', b.return_blocks()[0])),
         'every run_connection (i.e. every completed connection, whatever ends it later) resets the strategy before the session runs', '', rs.loc(), kind='reset-placement')
    r = q.sem(b, rs.args[0])
    c.ob('tcp/receiver', q.sem_is_name(b, r, 'self') and any('connect_retry' in p for p in r.proj), 'it is the task\'s own strategy', repr(r), rs.loc())
    for f in ([ST + '::try_open_and_run', RTU_SRV] if P.has(RTU_SRV) else []):
        fb = P.fn(f)
        rs = one(fb.calls(RS + 'reset'), 'reset in ' + f)
        op = one(fb.calls('rodbus::serial::open'), 'serial::open')
        sess = one([cs for cs in fb.calls() if cs.callee in (CL + '::run', 'rodbus::server::task::SessionTask::run')], 'session run')
        c.ob('%s/on-open' % f.split('::')[-2], q.dominated_by_any(fb, q.outcomes(fb, op).get('Ok', []), rs.node) and fb.dominates(rs.ret, sess.node), 'reset happens on the Ok arm of serial::open, before the session', '', rs.loc())


@rule('C14', 'R14.2', 'after_failed_connect only after a failed attempt, after_disconnect only after a lost connection')
def r2(c):
    P = c.P
    afc = P.callers(RS + 'after_failed_connect', crate='rodbus')
    adc = P.callers(RS + 'after_disconnect', crate='rodbus')
    w1 = sorted({P.logical_name(cs.body) for cs in afc})
    w2 = sorted({P.logical_name(cs.body) for cs in adc})
    want1 = [TT + '::handle_failed_connection'] + ([ST + '::try_open_and_run', RTU_SRV] if P.has(RTU_SRV) else [])
    want2 = [TT + '::run_connection'] + ([ST + '::try_open_and_run', RTU_SRV] if P.has(RTU_SRV) else [])
    c.ob('after_failed_connect/callers', w1 == sorted(want1), 'after_failed_connect is consulted by handle_failed_connection and the two serial open loops', str(w1))
    c.ob('after_disconnect/callers', w2 == sorted(want2), 'after_disconnect is consulted by run_connection and the two serial loops', str(w2))
    hcallers = sorted({P.logical_name(cs.body) for cs in P.callers(TT + '::handle_failed_connection')})
    c.ob('handle_failed_connection/callers', hcallers == [TT + '::try_connect_and_run'], 'handle_failed_connection is reached only from the failed arms of try_connect_and_run (C13/R13.3)', str(hcallers))
    r = P.fn(TT + '::run_connection')
    ad = one(r.calls(RS + 'after_disconnect'), 'after_disconnect')
    arms = q.arms_of(r, 'rodbus::client::task::SessionError')
    reg = set()
    for v in ('IoError', 'BadFrame', 'MaxTimeouts'):
        for e, rg in arms.get(v, []):
            reg |= rg
    other = set()
    for v in ('Shutdown', 'Disabled'):
        for e, rg in arms.get(v, []):
            other |= rg
    c.ob('tcp/disconnect-arm', ad.node in reg and ad.node not in other and not r.in_cycle(ad.node), 'after_disconnect is consulted on the lost-connection arm only, once', '', ad.loc())
    for f in ([ST + '::try_open_and_run', RTU_SRV] if P.has(RTU_SRV) else []):
        fb = P.fn(f)
        op = one(fb.calls('rodbus::serial::open'), 'serial::open')
        a1 = one(fb.calls(RS + 'after_failed_connect'), 'after_failed_connect')
        a2 = one(fb.calls(RS + 'after_disconnect'), 'after_disconnect')
        oc = q.outcomes(fb, op)
        c.ob('%s/arms' % f.split('::')[-2], q.dominated_by_any(fb, oc.get('Err', []), a1.node) and q.dominated_by_any(fb, oc.get('Ok', []), a2.node),
             'open failed -> after_failed_connect; opened then lost -> after_disconnect', '', loc_of(fb))


@rule('C14', 'R14.3', 'the delay announced to the listener is the delay waited')
def r3(c):
    P = c.P
    def check(fn_, adt, variant, strat, waiter):
        b = P.fn(fn_)
        c.saw(b, len(b.calls()))
        sc = [cs for cs in b.calls(RS + strat)]
        for k, s in enumerate(sc):
            # the announcement built from this delay, and the wait started with it
            ann = [x for x, i, st in [(x_, i_, st_) for x_, i_, st_ in P.constructors(adt, variant, crate='rodbus') if P.logical_name(x_) == fn_] if q.sem(b, st['rv']['a'][0]).kind == 'call' and q.sem(b, st['rv']['a'][0]).cs is s]
            waits = [w for w in wait_sites(b) if q.sem(b, w['dur']).kind == 'call' and q.sem(b, w['dur']).cs is s]
            c.ob('%s/%s#%d' % (fn_.split('::')[-1], strat, k + 1), len(ann) == 1 and len(waits) == 1,
                 'the value returned by %s is both announced as %s(delay) and the duration of the wait that follows (fail_requests_for, or a timer raced with fail_requests)' % (strat, variant), '%d announcements, %d waits' % (len(ann), len(waits)), s.loc())
            if waits:
                ups = [cs for cs, v in events(b, adt) if v == variant and b.dominates(s.ret, cs.node) and b.dominates(cs.ret, waits[0]['node'])]
                c.ob('%s/%s#%d/order' % (fn_.split('::')[-1], strat, k + 1), len(ups) >= 1, 'the announcement is made before the wait starts', '', waits[0]['cs'].loc())
    check(TT + '::handle_failed_connection', CS, 'WaitAfterFailedConnect', 'after_failed_connect', FRF)
    check(TT + '::run_connection', CS, 'WaitAfterDisconnect', 'after_disconnect', FRF)
    if P.has(ST + '::try_open_and_run'):
        check(ST + '::try_open_and_run', PS, 'Wait', 'after_failed_connect', FRF)
        check(ST + '::try_open_and_run', PS, 'Wait', 'after_disconnect', FRF)
        b = P.fn(RTU_SRV)
        for strat in ('after_failed_connect', 'after_disconnect'):
            s = one(b.calls(RS + strat), strat)
            waits = [w for w in b.calls('rodbus::server::task::SessionTask::sleep_for') if q.sem(b, w.args[1]).kind == 'call' and q.sem(b, w.args[1]).cs is s]
            c.ob('RtuServerTask/%s' % strat, len(waits) == 1, 'the RTU server sleeps for exactly the delay %s returned' % strat, '%d' % len(waits), s.loc())
    # fail_requests_for really waits that long: one timer made from `duration` (checked with the race in R13.5), and Ok only when it fired
    f = P.fn(FRF)
    ws = [w for w in wait_sites(f) if w['how'] != 'fail_requests_for']
    okd = len(ws) == 1 and q.is_name(f, ws[0]['dur'], 'duration') and not f.in_cycle(ws[0]['node'])
    c.ob('fail_requests_for/deadline', okd, 'fail_requests_for waits on one timer made from its duration (now + duration computed once / timeout(duration, ..))', str([w['how'] for w in ws]), loc_of(f))
    if okd:
        fired = set(ws[0]['fired'] or [])
        free = f.reach_set(f.entry, avoid=fired) | {f.entry}
        early = [x['node'] for x in q.exits(f) if not q.exit_is_failure(f, x) and x['node'] in free]
        c.ob('fail_requests_for/full-wait', bool(fired) and not early, 'fail_requests_for returns Ok only after that timer has fired', 'early Ok exits %s' % early, loc_of(f))
    sleep_for_timer(c)


def sleep_for_timer(c):
    """the RTU server's wait: one timer per call, made from the duration given, created outside any loop (so that no
    command handled during the wait can restart it)"""
    P = c.P
    if not P.has('rodbus::server::task::SessionTask::sleep_for'):
        return
    s = P.fn('rodbus::server::task::SessionTask::sleep_for')
    c.saw(s, len(s.calls()))
    tm = [cs for cs in s.calls('tokio::time::timeout::timeout', 'tokio::time::sleep::sleep', 'tokio::time::sleep::sleep_until', 'tokio::time::timeout::timeout_at')]
    ok = len(tm) == 1
    det = '%d timers' % len(tm)
    if ok:
        t = tm[0]
        if t.is_('tokio::time::timeout::timeout', 'tokio::time::sleep::sleep'):
            okd = q.is_name(s, t.args[0], 'duration')
        else:
            d = q.sem(s, t.args[0])
            okd = d.kind == 'call' and d.cs.declared == 'core::ops::arith::Add::add' and any(q.is_name(s, a, 'duration') for a in d.cs.args) and not s.in_cycle(d.cs.node)
        c.ob('sleep_for/duration', okd, 'sleep_for waits for the given duration', '', t.loc())
        c.ob('sleep_for/one-deadline', not s.in_cycle(t.node), 'the timer of the wait is created once per call, outside the command loop: handling a command does not restart the wait', '', t.loc())
        # the wait ends normally only when the timer fires (a command handled in between does not end it)
        if t.is_('tokio::time::timeout::timeout', 'tokio::time::timeout::timeout_at'):
            fired = q.outcomes(s, t).get('Err', [])
        else:
            fired = [sel['arms'][k] for sel in q.select_sites(s) for k, f in enumerate(sel['futures']) if f is t and k in sel['arms']]
        free = s.reach_set(s.entry, avoid=set(fired)) | {s.entry}
        early = [x['node'] for x in q.exits(s) if not q.exit_is_failure(s, x) and x['node'] in free]
        c.ob('sleep_for/full-wait', bool(fired) and not early, 'sleep_for returns Ok only after its timer has fired', '%d timer edges, early Ok exits %s' % (len(fired), early), t.loc())
    else:
        c.ob('sleep_for/duration', False, 'sleep_for waits on exactly one timer made from the given duration', det, loc_of(s))


@rule('C14', 'R14.4', 'Doubling: returns the current delay, then stores min(2 x current, max); reset and after_disconnect use min')
def r4(c):
    P = c.P
    b = P.fn(DIMPL + 'after_failed_connect')
    c.saw(b, len(b.calls()))
    def fld(o, name):
        s = q.sem(b, o)
        return q.sem_is_name(b, s, 'self') and bool(s.proj) and s.proj[-1].endswith(':' + name)
    st = [(i, s) for i, s in b.assigns() if s['pl']['p'] and s['pl']['p'][-1].endswith(':current')]
    st_calls = [cs for cs in b.calls() if cs.dest['p'] and cs.dest['p'][-1].endswith(':current')]
    xs = q.exits(b)
    mn = [cs for cs in b.calls() if cs.callee in ('core::cmp::min', 'core::cmp::Ord::min')]
    rep = [cs for cs in b.calls('core::mem::replace') if fld(cs.args[0], 'current')]

    def min_ok(cs):
        args = cs.args
        dbl = [a for a in args if q.sem(b, a).kind == 'call' and (q.sem(b, a).cs.declared or '').startswith('core::ops::arith::Mul')]
        cap = [a for a in args if fld(a, 'max')]
        if len(dbl) != 1 or len(cap) != 1:
            return False
        m = q.sem(b, dbl[0]).cs
        return any(q.const_val(b, a) == 2 for a in m.args) and any(fld(a, 'current') for a in m.args)
    if len(rep) == 1 and not st and not st_calls:
        # `mem::replace(&mut self.current, next)`: stores next and returns the value that was there
        okr = len(xs) == 1 and xs[0]['kind'] == 'call' and xs[0]['cs'] is rep[0] and not b.in_cycle(rep[0].node)
        c.ob('returns-current-before-update', okr, 'after_failed_connect returns the delay that was current BEFORE it is advanced (mem::replace on self.current)', '', loc_of(b))
        nv = q.sem(b, rep[0].args[1])
        oks = len(mn) == 1 and nv.kind == 'call' and nv.cs is mn[0] and min_ok(mn[0]) and b.dominates(mn[0].ret, rep[0].node)
    else:
        # returned value: loaded from self.current before the store
        okr = len(xs) == 1 and xs[0]['kind'] == 'copy'
        ret_def = None
        if okr:
            rl = xs[0]['op']['pl']['l'] if xs[0]['op'].get('k') in ('copy', 'move') and not xs[0]['op']['pl']['p'] else None
            ds_ = b.whole_defs(rl) if rl is not None else []
            okr = len(ds_) == 1 and ds_[0][0] == 'assign' and ds_[0][2]['rv']['r'] == 'use' and fld(ds_[0][2]['rv']['a'][0], 'current')
            ret_def = ('b', ds_[0][1]) if okr else None
        store_nodes = [('b', i) for i, _ in st] + [cs.ret for cs in st_calls]
        okr = okr and len(store_nodes) == 1 and b.dominates(ret_def, store_nodes[0])
        c.ob('returns-current-before-update', okr, 'after_failed_connect returns the delay that was current BEFORE it is advanced', '%d stores to current' % len(store_nodes), loc_of(b))
        # stored value = min(2 * current, max)
        oks = len(mn) == 1 and len(store_nodes) == 1 and min_ok(mn[0])
        if oks:
            stored_from_min = (st_calls and st_calls[0] is mn[0]) or (st and q.sem(b, st[0][1]['rv']['a'][0]).kind == 'call' and q.sem(b, st[0][1]['rv']['a'][0]).cs is mn[0])
            oks = bool(stored_from_min)
    c.ob('stores-min-of-double-and-max', oks, 'the new current delay is min(2 * current, self.max)', '%d min calls' % len(mn), loc_of(b))
    r = P.fn(DIMPL + 'reset')
    st = [s for i, s in r.assigns() if s['pl']['p'] and s['pl']['p'][-1].endswith(':current')]
    okq = len(st) == 1 and st[0]['rv']['r'] == 'use' and q.sem_is_name(r, q.sem(r, st[0]['rv']['a'][0]), 'self') and q.sem(r, st[0]['rv']['a'][0]).proj[-1].endswith(':min')
    c.ob('reset', okq, 'reset stores min into current', '', loc_of(r))
    a = P.fn(DIMPL + 'after_disconnect')
    xs = q.exits(a)
    oka = len(xs) == 1 and xs[0]['kind'] == 'copy' and q.sem_is_name(a, xs[0]['sem'], 'self') and xs[0]['sem'].proj[-1].endswith(':min') and not [s for i, s in a.assigns() if s['pl']['p'] and 'deref' in s['pl']['p']]
    c.ob('after_disconnect', oka, 'after_disconnect returns min and changes nothing', '', loc_of(a))
    # construction: doubling_retry_strategy(min, max) (seen with its private constructor expanded) builds
    # Doubling { min, max, current: min }
    ds = inline.expand(P, P.fn('rodbus::retry::doubling_retry_strategy'), {D + '::create'})
    ag = [s for _, s in ds.aggregates(D)]
    okc = len(ag) == 1
    if okc:
        f = dict(zip(ag[0]['rv']['fields'], ag[0]['rv']['a']))
        okc = q.is_name(ds, f['min'], 'min') and q.is_name(ds, f['max'], 'max') and q.is_name(ds, f['current'], 'min')
    c.ob('create', okc, 'a new strategy starts with current = min and keeps (min, max) as given, in that order', '%d construction sites in doubling_retry_strategy' % len(ag), loc_of(ds))
    cons = sorted({P.logical_name(x) for x, _, _ in P.constructors(D, crate='rodbus')})
    c.ob('constructors', bool(cons) and set(cons) <= {D + '::create', 'rodbus::retry::doubling_retry_strategy'}, 'Doubling is constructed only on behalf of doubling_retry_strategy', str(cons))
    ff = P.find_impl('core::convert::From', "alloc::boxed::Box<(dyn rodbus::retry::RetryStrategy + 'static)>", 'from', 'rodbus_ffi::ffi::RetryStrategy') if 'rodbus_ffi' in P.crates else None
    if ff is not None:
        cs = one(ff.calls('rodbus::retry::doubling_retry_strategy'), 'doubling_retry_strategy in the FFI conversion')
        a0, a1 = q.sem(ff, cs.args[0]), q.sem(ff, cs.args[1])
        c.ob('ffi/min-max-order', a0.kind == 'call' and a0.cs.callee.endswith('::min_delay') and a1.kind == 'call' and a1.cs.callee.endswith('::max_delay'), 'the C ABI passes (min_delay, max_delay) in that order', '%r %r' % (a0, a1), cs.loc())


@rule('C14', 'R14.5', 'every way of losing an established connection (I/O error, bad frame, max timeouts) goes through the after-disconnect wait (C12/R12.5, C13/R13.3)')
def r5(c):
    from rules import c12, c13
    c12.r5(c)
    c13.r3(c)
