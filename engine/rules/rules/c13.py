"""C13 — client connection life-cycle (order facts that are exact without path sensitivity) and fail-fast while down."""
from core import rule, loc_of
from facts import AnchorLost, norm
import q, effects
from tables import *
from rules.c08 import one
from rules.c11 import CL

TT = 'rodbus::tcp::client::TcpChannelTask'
ST = 'rodbus::serial::client::SerialChannelTask'
UPDATE = 'rodbus::client::listener::Listener::update'
CS = 'rodbus::client::listener::ClientState'
PS = 'rodbus::client::listener::PortState'
FRF = CL + '::fail_requests_for'
WFE = CL + '::wait_for_enabled'
HAS_SERIAL = lambda P: P.has(ST + '::run')


def events(b, adt):
    """listener updates in body b: [(CallSite, variant)]"""
    out = []
    for cs in b.calls(UPDATE):
        av = q.agg_variant_of(b, cs.args[1])
        if av and av[0] == adt:
            out.append((cs, av[1]))
        else:
            out.append((cs, None))
    return out


def task_run_rule(c, T, adt, first, last):
    P = c.P
    b = P.fn(T + '::run')
    c.saw(b, len(b.calls()))
    ev = events(b, adt)
    ri = one(b.calls(T + '::run_inner'), 'run_inner')
    nm = T.split('::')[-1]
    ok = [v for _, v in ev] == [first, last]
    c.ob('%s/run/events' % nm, ok, 'run() announces exactly %s, then (after run_inner returns) %s' % (first, last), str([v for _, v in ev]), loc_of(b))
    if ok:
        c.ob('%s/run/first' % nm, b.dominates(ev[0][0].ret, ri.node) and not b.in_cycle(ev[0][0].node), '%s is announced before anything else happens' % first, '', ev[0][0].loc())
        c.ob('%s/run/last' % nm, b.dominates(ri.ret, ev[1][0].node) and b.postdominates(ev[1][0].node, ri.ret) and not b.in_cycle(ev[1][0].node), '%s is announced once, after run_inner, on every path to the return' % last, '', ev[1][0].loc())
        later = [cs for cs, _ in ev if b.reaches(ev[1][0].ret, cs.node)]
        c.ob('%s/run/nothing-after' % nm, not later, 'no state is announced after %s' % last, '', ev[1][0].loc())
    cons = sorted({P.logical_name(x) for x, _, _ in P.constructors(adt, last, crate='rodbus')})
    c.ob('%s/%s-constructors' % (nm, last), cons == [T + '::run'], '%s::%s is announced only by run()' % (adt.rsplit('::', 1)[-1], last), str(cons))
    # all announcements of the task go to its own listener
    for cs, _ in ev:
        r = q.sem(b, cs.args[0])
        c.ob('%s/run/listener' % nm, q.sem_is_name(b, r, 'self') and any('listener' in p for p in r.proj), 'announcements go to self.listener', repr(r), cs.loc())


TIMERS = ('tokio::time::sleep::sleep_until', 'tokio::time::sleep::sleep', 'tokio::time::timeout::timeout')


def wait_sites(b):
    """the timed waits of a client task in body `b` during which the queue keeps being serviced:
    [{'node': node that starts the wait, 'dur': operand holding the duration, 'cs': call site, 'how': text}]
      * a call of ClientLoop::fail_requests_for(duration);
      * written out (or in a helper the view inlined): `sleep_until(Instant::now() + d)` / `sleep(d)` raced by select! with
        fail_requests(), or `timeout(d, fail_requests())`."""
    out = []
    for cs in b.calls(FRF):
        out.append({'node': cs.node, 'dur': cs.args[1], 'cs': cs, 'how': 'fail_requests_for', 'fired': None})
    sels = q.select_sites(b)
    for t in b.calls(*TIMERS):
        if t.is_('tokio::time::timeout::timeout'):
            inner = q.sem(b, t.args[1])
            if not (inner.kind == 'call' and inner.cs.is_(CL + '::fail_requests')):
                continue
            out.append({'node': t.node, 'dur': t.args[0], 'cs': t, 'how': 'timeout(d, fail_requests())', 'fired': q.outcomes(b, t).get('Err', []), 'race': t})
            continue
        sel = [s_ for s_ in sels if t in s_['futures'] and any(f is not None and f.is_(CL + '::fail_requests') for f in s_['futures'])]
        if len(sel) != 1:
            continue
        dur = t.args[0]
        if t.is_('tokio::time::sleep::sleep_until'):
            d = q.sem(b, t.args[0])
            if not (d.kind == 'call' and d.cs.declared == 'core::ops::arith::Add::add' and len(d.cs.args) == 2):
                continue
            now = [a for a in d.cs.args if q.sem(b, a).kind == 'call' and (q.sem(b, a).cs.callee or '').endswith('Instant::now')]
            rest = [a for a in d.cs.args if a not in now]
            if len(now) != 1 or len(rest) != 1 or b.in_cycle(d.cs.node):
                continue
            dur = rest[0]
        k = sel[0]['futures'].index(t)
        out.append({'node': t.node, 'dur': dur, 'cs': t, 'how': 'select!{%s, fail_requests()}' % t.callee.rsplit('::', 1)[-1], 'fired': [sel[0]['arms'][k]] if k in sel[0]['arms'] else [], 'race': sel[0]['poll_fn']})
    return out


@rule('C13', 'R13.1', 'Disabled first, Shutdown exactly once and last')
def r1(c):
    task_run_rule(c, TT, CS, 'Disabled', 'Shutdown')
    if c.P.has(ST + '::run'):
        task_run_rule(c, ST, PS, 'Disabled', 'Shutdown')


@rule('C13', 'R13.2', 'Connected only directly after Connecting')
def r2(c):
    P = c.P
    cons = sorted({P.logical_name(x) for x, _, _ in P.constructors(CS, 'Connected', crate='rodbus')})
    c.ob('Connected/constructors', cons == [TT + '::run_connection'], 'Connected is announced only by run_connection', str(cons))
    cons = sorted({P.logical_name(x) for x, _, _ in P.constructors(CS, 'Connecting', crate='rodbus')})
    c.ob('Connecting/constructors', cons == [TT + '::try_connect_and_run'], 'Connecting is announced only by try_connect_and_run', str(cons))
    callers = sorted({P.logical_name(cs.body) for cs in P.callers(TT + '::run_connection')})
    c.ob('run_connection/callers', callers == [TT + '::try_connect_and_run'], 'run_connection is reached only from try_connect_and_run', str(callers))
    t = P.fn(TT + '::try_connect_and_run')
    c.saw(t, len(t.calls()))
    ev = events(t, CS)
    c.ob('try_connect/events', [v for _, v in ev] == ['Connecting'], 'try_connect_and_run itself announces only Connecting', str([v for _, v in ev]), loc_of(t))
    rc = one(t.calls(TT + '::run_connection'), 'run_connection call')
    cn = one(t.calls(TT + '::connect'), 'connect call')
    if ev:
        c.ob('try_connect/connecting-first', t.dominates(ev[0][0].ret, cn.node) and t.dominates(ev[0][0].ret, rc.node) and not t.in_cycle(ev[0][0].node), 'Connecting precedes the connection attempt and the session', '', ev[0][0].loc())
    # between Connecting and run_connection no other function that announces states is called
    def announces(fn_):
        fb = P.get(fn_) and P.fn(fn_)
        return fb is not None and bool(fb.calls(UPDATE))
    between = [cs for cs in t.calls() if t.reaches(ev[0][0].ret, cs.node) and t.reaches(cs.ret, rc.node) and cs is not rc and any(announces(n) for n in cs.names() if P.has(n))] if ev else []
    c.ob('try_connect/nothing-between', not between, 'no other state is announced on the path from Connecting to the session', str([x.callee for x in between]), loc_of(t))
    r = P.fn(TT + '::run_connection')
    c.saw(r, len(r.calls()))
    evr = events(r, CS)
    first = [cs for cs, v in evr if all(r.dominates(cs.node, o.node) for o, _ in evr)]
    c.ob('run_connection/connected-first', len(first) == 1 and dict((id(cs), v) for cs, v in evr)[id(first[0])] == 'Connected' and r.dominates(first[0].ret, one(r.calls(CL + '::run'), 'client_loop.run').node),
         'run_connection announces Connected first, before the session runs', str([v for _, v in evr]), loc_of(r))
    if c.P.has(ST + '::try_open_and_run'):
        s = P.fn(ST + '::try_open_and_run')
        op = one(s.calls('rodbus::serial::open'), 'serial::open')
        evs = events(s, PS)
        opens = [cs for cs, v in evs if v == 'Open']
        c.ob('serial/open-after-open', len(opens) == 1 and q.dominated_by_any(s, q.outcomes(s, op).get('Ok', []), opens[0].node) and s.dominates(opens[0].ret, one(s.calls(CL + '::run'), 'run').node),
             'PortState::Open is announced only on the Ok arm of serial::open, before the session', '', loc_of(s))


@rule('C13', 'R13.3', 'a wait state after every failed connect or lost connection; Disabled after a disable')
def r3(c):
    P = c.P
    h = P.fn(TT + '::handle_failed_connection')
    c.saw(h, len(h.calls()))
    ev = events(h, CS)
    fr = one(wait_sites(h), 'timed wait (fail_requests_for or a timer raced with fail_requests)')['cs']
    c.ob('failed/event', [v for _, v in ev] == ['WaitAfterFailedConnect'] and h.dominates(ev[0][0].ret, fr.node), 'handle_failed_connection announces WaitAfterFailedConnect before waiting', str([v for _, v in ev]), loc_of(h))
    t = P.fn(TT + '::try_connect_and_run')
    cn = one(t.calls(TT + '::connect'), 'connect')
    hd = one(t.calls('rodbus::tcp::client::TcpTaskConnectionHandler::handle'), 'connection handler')
    hf_calls = t.calls(TT + '::handle_failed_connection')
    # inner result of connect(): Result<Result<TcpStream, io::Error>, StateChange>; `?` strips the outer one
    inner_err = [e for e, v, info in t.variant_edges('core::result::Result') if v == 'Err' and q.sem(t, info['place']).kind == 'call' and q.sem(t, info['place']).cs is cn and q.sem(t, info['place']).checked]
    hd_err = q.outcomes(t, hd).get('Err', [])
    # every way on from the failure passes handle_failed_connection (the two failures may share one arm)
    hfn = {x.node for x in hf_calls}
    ok1 = len(inner_err) == 1 and bool(hfn) and q.always_passes(t, inner_err[0], hfn)[0]
    ok2 = len(hd_err) == 1 and bool(hfn) and q.always_passes(t, hd_err[0], hfn)[0]
    c.ob('failed/connect-error', ok1, 'a refused / failed connect goes to handle_failed_connection', '', cn.loc())
    c.ob('failed/handshake-error', ok2, 'a failed connection handler (TLS handshake) goes to handle_failed_connection', '', hd.loc())
    for e in inner_err + hd_err:
        rs_ = t.reach_set(e)
        xs = [x for x in q.exits(t) if x['node'] in rs_]
        okw = bool(xs) and all((x['kind'] == 'call' and x['cs'] in hf_calls) or (x['kind'] == 'copy' and x['sem'].kind == 'call' and x['sem'].cs in hf_calls) for x in xs)
        c.ob('failed/returns-wait-result', okw, 'the result of the wait is what the attempt returns', str([(x['kind'], x.get('variant')) for x in xs]), loc_of(t, e[1]))
    r = P.fn(TT + '::run_connection')
    arms = q.arms_of(r, 'rodbus::client::task::SessionError')
    for v in ('IoError', 'BadFrame', 'MaxTimeouts'):
        reg = set()
        for e, rg in arms.get(v, []):
            reg |= rg
        evs = [(cs, x) for cs, x in events(r, CS) if cs.node in reg]
        fr = [w['cs'] for w in wait_sites(r) if w['node'] in reg]
        ok = [x for _, x in evs] == ['WaitAfterDisconnect'] and len(fr) == 1 and r.dominates(evs[0][0].ret, fr[0].node)
        c.ob('lost/%s' % v, ok, 'a session ending with %s announces WaitAfterDisconnect, then waits' % v, str([x for _, x in evs]), loc_of(r))
    for v, want in (('Shutdown', 'Err'), ('Disabled', 'Ok')):
        reg = set()
        for e, rg in arms.get(v, []):
            reg |= rg
        evs = [x for cs, x in events(r, CS) if cs.node in reg]
        xs = q.exit_in(r, reg)
        c.ob('end/%s' % v, not evs and bool(xs) and all(x['kind'] == 'agg' and x['variant'] == want for x in xs), 'SessionError::%s returns %s(..) without a wait state' % (v, want), str(evs), loc_of(r))
    for T, adt in ((TT, CS), (ST, PS)):
        if not P.has(T + '::run_inner'):
            continue
        b = P.fn(T + '::run_inner')
        c.saw(b, len(b.calls()))
        nm = T.split('::')[-1]
        step = one(b.calls(T + '::try_connect_and_run', T + '::try_open_and_run'), 'connect/open step')
        wf = one(b.calls(WFE), 'wait_for_enabled')
        ie = one(b.calls(CL + '::is_enabled'), 'is_enabled')
        ev = events(b, adt)
        dis = [cs for cs, v in ev if v == 'Disabled']
        okd = len(dis) == 1 and len(ev) == 1 and q.dominated_by_any(b, q.bool_edges(b, ie)['false'], dis[0].node)
        c.ob('%s/disabled-announced' % nm, okd, 'Disabled is announced on the !is_enabled() edge', str([v for _, v in ev]), loc_of(b))
        # every way from the finished attempt back to wait_for_enabled passes the is_enabled() test
        back = b.reach_set(step.ret, avoid={ie.node})
        c.ob('%s/always-tested' % nm, wf.node not in back, 'after every attempt / session that does not end the task, is_enabled() is consulted before waiting again (a disable while connected is reported too)', '', ie.loc(), kind='after-attempt')
        back2 = b.reach_set(q.bool_edges(b, ie)['false'][0], avoid={dis[0].node}) if dis and q.bool_edges(b, ie)['false'] else {wf.node}
        c.ob('%s/disabled-before-wait' % nm, wf.node not in back2, 'on the disabled edge the announcement precedes the next wait_for_enabled', '', ie.loc())


@rule('C13', 'R13.4', 'no connection attempt while disabled: attempts are dominated by a successful wait_for_enabled')
def r4(c):
    P = c.P
    for T in (TT, ST):
        if not P.has(T + '::run_inner'):
            continue
        b = P.fn(T + '::run_inner')
        step = one(b.calls(T + '::try_connect_and_run', T + '::try_open_and_run'), 'connect/open step')
        wf = one(b.calls(WFE), 'wait_for_enabled')
        oc = q.outcomes(b, wf)
        c.ob('%s/after-enabled' % T.split('::')[-1], q.dominated_by_any(b, oc.get('Ok', []), step.node) and b.cycle_of(step.node) == b.cycle_of(wf.node), 'each attempt is dominated by the Ok edge of wait_for_enabled in the same loop turn', '', step.loc())
        callers = sorted({P.logical_name(cs.body) for cs in P.callers(step.callee)})
        c.ob('%s/step-callers' % T.split('::')[-1], callers == [T + '::run_inner'], 'attempts are started only by run_inner', str(callers))
    w = P.fn(WFE)
    xs = [x for x in q.exits(w) if x['kind'] == 'agg' and x['variant'] == 'Ok']
    facts = q.cmp_facts(w)
    okw = bool(xs)
    for x in xs:
        sw = [i for i in w.switches() if w.switch_info(i)['kind'] == 'bool' and w.switch_info(i)['cond'][0] == 'place']
        en = [e for i in sw for e in [('e', i, 'otherwise')] + [('e', i, str(v)) for v, _ in w.blocks[i]['term']['vals']] if w.edge_bool(e) and any('enabled' in p for p in w.switch_info(i)['cond'][2])]
        okw = okw and q.dominated_by_any(w, en, x['node'])
    c.ob('wait_for_enabled/ok-means-enabled', okw, 'wait_for_enabled returns Ok only on the self.enabled == true edge', '', loc_of(w))
    hc = sorted({P.logical_name(cs.body) for cs in P.callers('rodbus::client::HostAddr::connect')})
    c.ob('connect/callers', hc == [TT + '::connect'], 'HostAddr::connect is called only by TcpChannelTask::connect', str(hc))
    tc = sorted({P.logical_name(cs.body) for cs in P.callers(TT + '::connect')})
    c.ob('connect/callers2', tc == [TT + '::try_connect_and_run'], 'which is called only by try_connect_and_run', str(tc))
    if P.has('rodbus::serial::open'):
        so = sorted({P.logical_name(cs.body) for cs in P.callers('rodbus::serial::open')})
        c.ob('serial-open/callers', set(so) <= {ST + '::try_open_and_run', 'rodbus::serial::server::RtuServerTask::run'}, 'the serial port is opened only by the client attempt step and the RTU server', str(so))
    en = P.fn(CL + '::new')
    ag = [s for _, s in en.aggregates(CL)]
    oke = len(ag) == 1 and q.const_val(en, ag[0]['rv']['a'][ag[0]['rv']['fields'].index('enabled')]) == 0
    c.ob('starts-disabled', oke, 'a new channel starts disabled', '', loc_of(en))


@rule('C13', 'R13.5', 'fail fast while down: connecting, and both wait states, drain the queue with NoConnection')
def r5(c):
    P = c.P
    b = P.fn(TT + '::connect')
    sel = q.select_sites(b)
    ok = len(sel) == 1
    if ok:
        names = [f.callee if f else None for f in sel[0]['futures']]
        ok = 'rodbus::client::HostAddr::connect' in names and CL + '::fail_requests' in names
    c.ob('connect/raced', ok, 'the connect attempt is raced with fail_requests()', str([f.callee if f else None for s in sel for f in s['futures']]), loc_of(b))
    if ok:
        k = [f.callee if f else None for f in sel[0]['futures']].index(CL + '::fail_requests')
        e = sel[0]['arms'].get(k)
        xs = [x for x in q.exits(b) if e is not None and q.dom(b, e, x['node'])]
        c.ob('connect/state-change', bool(xs) and all(x['kind'] == 'agg' and x['variant'] == 'Err' for x in xs), 'a state change (disable / shutdown) during the attempt aborts it with Err(change)', '', loc_of(b))
    f = P.fn(FRF)
    ws = [w for w in wait_sites(f) if w['how'] != 'fail_requests_for']
    okf = len(ws) == 1 and q.is_name(f, ws[0]['dur'], 'duration')
    c.ob('fail_requests_for/raced', okf, 'the wait is a timer for the given duration raced with fail_requests()', str([w['how'] for w in ws]), loc_of(f))
    if okf:
        # unconditionally: every way through fail_requests_for passes that race (an early return for some delay value would let a
        # caller whose attempt is synchronous - the serial open - loop without ever waiting or looking at the queue)
        oka, leak = q.always_passes(f, f.entry, {ws[0]['race'].node})
        c.ob('fail_requests_for/always-waits', oka, 'no path through fail_requests_for skips the race (whatever the duration)', 'returns reachable without it: %s' % [loc_of(f, n_[1]) for n_ in leak], loc_of(f))
    fr = P.fn(CL + '::fail_requests')
    nx = one(fr.calls(CL + '::fail_next_request'), 'fail_next_request')
    c.ob('fail_requests/loop', fr.in_cycle(nx.node), 'fail_requests keeps failing requests until the state changes', '', nx.loc())
    w = P.fn(WFE)
    nx2 = one(w.calls(CL + '::fail_next_request'), 'fail_next_request in wait_for_enabled')
    c.ob('wait_for_enabled/drains', w.in_cycle(nx2.node), 'while disabled, requests are failed one by one', '', nx2.loc())
    # it gives up (Err(Shutdown)) only when the state change reported is Shutdown: a setting that leaves the channel disabled
    # (a second disable, a decode-level change) keeps it waiting
    sd_e = [e for e, v, info in w.variant_edges('rodbus::client::task::StateChange') if v == 'Shutdown' and (lambda sv: sv.kind == 'call' and sv.cs is nx2)(q.sem(w, info['place']))]
    bad = [x['node'] for x in q.exits(w) if q.exit_is_failure(w, x) and not q.dominated_by_any(w, sd_e, x['node'])]
    c.ob('wait_for_enabled/err-means-shutdown', bool(sd_e) and not bad, 'wait_for_enabled returns Err only on the StateChange::Shutdown outcome of fail_next_request', 'failure exits not behind it: %s' % bad, nx2.loc())
    # and a closed queue (every handle dropped) is reported as that Shutdown
    fr_ = P.find_impl('core::convert::From', 'rodbus::client::task::StateChange', 'from', 'rodbus::error::Shutdown')
    xs_ = q.exits(fr_)
    c.ob('closed-queue-is-shutdown', len(xs_) == 1 and xs_[0]['kind'] == 'agg' and xs_[0]['variant'] == 'Shutdown', 'From<Shutdown> for StateChange yields StateChange::Shutdown (dropping every handle ends the task also while it is not connected)', '', loc_of(fr_))


@rule('C13', 'R13.6', 'shutdown ends the task from every position')
def r6(c):
    P = c.P
    for T in (TT, ST):
        if not P.has(T + '::run_inner'):
            continue
        b = P.fn(T + '::run_inner')
        nm = T.split('::')[-1]
        wf = one(b.calls(WFE), 'wait_for_enabled')
        step = one(b.calls(T + '::try_connect_and_run', T + '::try_open_and_run'), 'step')
        e1 = q.outcomes(b, wf).get('Err', [])
        rets_ = {('b', i_) for i_ in b.return_blocks()}
        ok1 = len(e1) == 1 and wf.node not in b.reach_set(e1[0]) and step.node not in b.reach_set(e1[0]) and bool(b.reach_set(e1[0]) & rets_)
        c.ob('%s/shutdown-while-disabled' % nm, ok1, 'Err(Shutdown) from wait_for_enabled returns', '', wf.loc())
        sd = [e for e, v, info in b.variant_edges('rodbus::client::task::StateChange') if v == 'Shutdown' and q.sem(b, info['place']).kind == 'call' and q.sem(b, info['place']).cs is step]
        ok2 = len(sd) == 1 and wf.node not in b.reach_set(sd[0]) and bool(b.reach_set(sd[0]) & rets_)
        c.ob('%s/shutdown-from-step' % nm, ok2, 'Err(StateChange::Shutdown) from the attempt / session returns', str(sd), step.loc())
    r = P.fn(TT + '::run_connection')
    arms = q.arms_of(r, 'rodbus::client::task::SessionError')
    reg = set()
    for e, rg in arms.get('Shutdown', []):
        reg |= rg
    xs = q.exit_in(r, reg)
    oks = bool(xs)
    for x in xs:
        av = q.agg_variant_of(r, x['rv']['a'][0]) if x['kind'] == 'agg' and x['variant'] == 'Err' else None
        oks = oks and av is not None and av[1] == 'Shutdown'
    c.ob('session-shutdown', oks, 'SessionError::Shutdown becomes StateChange::Shutdown', '', loc_of(r))
    rc = P.fn(CL + '::run_cmd')
    arms = q.arms_of(rc, 'rodbus::client::message::Command')
    reg = set()
    for e, rg in arms.get('Shutdown', []):
        reg |= rg
    xs = q.exit_in(rc, reg)
    okc = bool(xs)
    for x in xs:
        av = q.agg_variant_of(rc, x['rv']['a'][0]) if x['kind'] == 'agg' and x['variant'] == 'Err' else None
        okc = okc and av is not None and av[1] == 'Shutdown'
    c.ob('command-shutdown', okc, 'Command::Shutdown ends the session with SessionError::Shutdown', '', loc_of(rc))
    fn_ = P.fn(CL + '::fail_next_request')
    arms = q.arms_of(fn_, 'rodbus::client::message::Command')
    reg = set()
    for e, rg in arms.get('Shutdown', []):
        reg |= rg
    xs = q.exit_in(fn_, reg)
    okn = bool(xs)
    for x in xs:
        av = q.agg_variant_of(fn_, x['rv']['a'][0]) if x['kind'] == 'agg' and x['variant'] == 'Err' else None
        okn = okn and av is not None and av[1] == 'Shutdown'
    c.ob('command-shutdown-while-down', okn, 'Command::Shutdown while not connected yields StateChange::Shutdown', '', loc_of(fn_))


@rule('C13', 'R13.7', 'a disable closes an open connection')
def r7(c):
    P = c.P
    rc = P.fn(CL + '::run_cmd')
    c.saw(rc, len(rc.calls()))
    arms = q.arms_of(rc, 'rodbus::client::message::Command')
    reg = set()
    for e, rg in arms.get('Setting', []):
        reg |= rg
    cs_ = [cs for cs in q.calls_in(rc, reg) if cs.is_(CL + '::change_setting')]
    errs = [x for x in q.exit_in(rc, reg) if x['kind'] == 'agg' and x['variant'] == 'Err']
    ok = len(cs_) == 1 and len(errs) == 1
    if ok:
        av = q.agg_variant_of(rc, errs[0]['rv']['a'][0])
        sw = [i for i in rc.switches() if rc.switch_info(i)['kind'] == 'bool' and rc.switch_info(i)['cond'][0] == 'place' and any('enabled' in p for p in rc.switch_info(i)['cond'][2])]
        off = [e for i in sw for e in [('e', i, 'otherwise')] + [('e', i, str(v)) for v, _ in rc.blocks[i]['term']['vals']] if rc.edge_bool(e) is False]
        ok = av is not None and av[1] == 'Disabled' and q.dominated_by_any(rc, off, errs[0]['node']) and rc.dominates(cs_[0].ret, errs[0]['node'])
    c.ob('run_cmd/disable', ok, 'after applying a setting, !self.enabled ends the session with SessionError::Disabled', '', loc_of(rc))
    r = P.outer(TT + '::run_connection')
    c.ob('phys-owned', r.sig_in and norm(r.sig_in[1]) == 'rodbus::common::phys::PhysLayer', 'run_connection owns the physical layer by value: returning from it closes the connection', str(r.sig_in), loc_of(r))
    # ... and it stays owned by that frame: the value is only lent (&mut) or dropped, never put anywhere that outlives the call
    rb = P.fn(TT + '::run_connection')
    PL = 'rodbus::common::phys::PhysLayer'
    def ops(x):
        if isinstance(x, dict):
            if x.get('k') == 'move' and 'pl' in x:
                yield x
            for v in x.values():
                yield from ops(v)
        elif isinstance(x, list):
            for v in x:
                yield from ops(v)
    kept = []
    wrapped = set()
    nmoves = 0
    def is_pl_field(pl):
        return bool(pl['p']) and pl['p'][-1].startswith('field:') and any(f['name'] == pl['p'][-1].split(':', 2)[2] and PL in f['ty'] for t in (TT, CL) for v in P.adt(t)['variants'] for f in v['fields'])
    stores, clears, parked = [], [], set()
    for i, blk in enumerate(rb.blocks):
        if blk['cleanup']:
            continue
        for s in blk['stmts'] + [blk['term']]:
            if s.get('s') == 'assign' and is_pl_field(s['pl']):
                isnone = (s['rv']['r'] == 'agg' and s['rv'].get('variant') == 'None') or (s['rv']['r'] == 'use' and (lambda v: v.kind == 'agg' and isinstance(v.extra, dict) and v.extra.get('variant') == 'None')(q.sem(rb, s['rv']['a'][0])))
                (clears if isnone else stores).append(('b', i))
            if s.get('t') == 'call' and norm(s.get('callee', '')).startswith('core::option::Option::') and s['args']:
                tgt = q.sem(rb, s['args'][0])
                if tgt.kind == 'place' and tgt.proj and any(f['name'] == tgt.proj[-1].split(':', 2)[-1] and PL in f['ty'] for t in (TT, CL) for v in P.adt(t)['variants'] for f in v['fields']):
                    m_ = norm(s['callee']).rsplit('::', 1)[-1]
                    if m_ == 'take':
                        clears.append(('b', i))
                    elif m_ in ('insert', 'replace', 'get_or_insert', 'get_or_insert_with'):
                        stores.append(('b', i))
                        parked.add(i)
            for o in ops(s):
                ty = norm(rb.d['locals'][o['pl']['l']])
                if o['pl']['p'] or not (ty == PL or (o['pl']['l'] in wrapped)):
                    continue
                nmoves += 1
                if s.get('t') == 'call' and norm(s.get('callee', '')) in ('core::mem::drop',):
                    continue
                if s.get('s') == 'assign' and s['rv']['r'] == 'use' and not s['pl']['p'] and norm(rb.d['locals'][s['pl']['l']]) == ty:
                    if o['pl']['l'] in wrapped:
                        wrapped.add(s['pl']['l'])
                    continue
                if s.get('s') == 'assign' and s['rv']['r'] == 'agg' and s['rv'].get('variant') == 'Some' and not s['pl']['p']:
                    wrapped.add(s['pl']['l'])      # Some(phys): followed to where it is put
                    continue
                if (s.get('s') == 'assign' and is_pl_field(s['pl'])) or i in parked:
                    continue                       # parked in a field of the task: must be cleared again, see below
                kept.append('bb%d' % i)
    c.ob('phys-not-kept', not kept, 'run_connection never moves the physical layer anywhere but into drop() (or a field it clears again): nothing can keep the socket open after it returns', 'moved at %s' % kept, loc_of(rb), examined=nmoves)
    leaks = []
    # (the Shutdown outcome ends the task, which drops the task object and everything in it)
    down = [e for e, _ in q.arms_of(rb, 'rodbus::client::task::SessionError').get('Shutdown', [])] if stores else []
    for st in stores:
        okp, leak = q.always_passes(rb, st, clears, escapes=down)
        if not okp or st in clears:
            leaks.append(st)
    c.ob('phys-cleared', not leaks, 'if the connection is parked in a field of the task while it runs, every way out of run_connection clears that field first', 'stores %s not followed by a clear on every path' % leaks, loc_of(rb), examined=len(stores))
    ch = P.fn(CL + '::change_setting')
    arms = q.arms_of(ch, 'rodbus::client::message::Setting')
    for v, want in (('Enable', 1), ('Disable', 0)):
        reg = set()
        for e, rg in arms.get(v, []):
            reg |= rg
        st = [s for i, s in ch.assigns() if ('b', i) in reg and s['pl']['p'] and s['pl']['p'][-1].endswith(':enabled')]
        c.ob('change_setting/%s' % v, len(st) == 1 and q.const_val(ch, st[0]['rv']['a'][0]) == want, 'Setting::%s sets enabled = %s' % (v, bool(want)), '', loc_of(ch))
    wr = sorted({P.logical_name(b) for b in P.all_bodies(crate='rodbus') for i, s in b.assigns() if s['pl']['p'] and s['pl']['p'][-1].endswith(':enabled') and 'client::task' in b.path})
    c.ob('enabled-writers', wr == [CL + '::change_setting'], 'only change_setting writes the enabled flag', str(wr))
