"""C18 — the C ABI forwards and reports exactly what the Rust API would (conversion tables, write callbacks,
operation forwarding, completion callbacks wrapped before any error return)."""
from core import rule, loc_of
from facts import AnchorLost, norm
import q, effects
from tables import *
from rules.c08 import one
from rules.c03 import API_METHOD

HAS_FFI = lambda P: 'rodbus_ffi' in P.crates
F = 'rodbus_ffi::ffi::'
EXC_ = 'rodbus::exception::ExceptionCode'
RE = 'rodbus::error::RequestError'


def table_convert(c, key, b, src_adt, dst_adt, rename=None, special=None, place_pred=None):
    """every variant of src_adt maps to the (renamed) same-named variant of dst_adt"""
    rename = rename or {}
    special = special or {}
    P = c.P
    arms = q.arms_of(b, src_adt, place_pred)
    src = [v['name'] for v in P.adt(src_adt)['variants']]
    n = 0
    for v in src:
        reg = set()
        for e, r in arms.get(v, []):
            reg |= r
        if v in special:
            ok, detail = special[v](b, reg)
        else:
            want = rename.get(v, v)
            ag = [s for i, s in q.aggs_in(b, reg, dst_adt)]
            ok = len(ag) == 1 and ag[0]['rv']['variant'] == want
            detail = str([a['rv']['variant'] for a in ag])
        c.ob('%s/%s' % (key, v), ok and bool(reg), '%s::%s converts to %s::%s' % (src_adt.rsplit('::', 1)[-1], v, dst_adt.rsplit('::', 1)[-1], rename.get(v, v) if v not in special else '(see rule)'), detail, loc_of(b))
        n += 1 if ok else 0
    return n, len(src)


@rule('C18', 'R18.1', 'conversion tables: every error, exception, decode level, state and setting is reported as its same-named counterpart', needs=HAS_FFI)
def r1(c):
    P = c.P
    total = 0
    b = P.find_impl('core::convert::From', F + 'RequestError', 'from', RE)
    def exc_special(b_, reg):
        cl = [cs for cs in q.calls_in(b_, reg) if cs.declared in ('core::convert::Into::into', 'core::convert::From::from')]
        ok = len(cl) == 1 and ':Exception' in ''.join(q.sem(b_, cl[0].args[0]).proj)
        return ok, 'delegates to From<ExceptionCode>: %s' % ok
    n, _ = table_convert(c, 'RequestError', b, RE, F + 'RequestError', rename={'Internal': 'InternalError', 'BadFrame': 'BadFraming', 'Io': 'IoError'}, special={'Exception': exc_special})
    total += n
    b = P.find_impl('core::convert::From', F + 'RequestError', 'from', EXC_)
    ren = {v: 'ModbusException' + v for v in ['IllegalFunction', 'IllegalDataAddress', 'IllegalDataValue', 'ServerDeviceFailure', 'Acknowledge', 'ServerDeviceBusy', 'MemoryParityError', 'GatewayPathUnavailable', 'GatewayTargetDeviceFailedToRespond', 'Unknown']}
    n, _ = table_convert(c, 'ExceptionCode', b, EXC_, F + 'RequestError', rename=ren)
    total += n
    # WriteResult::convert_to_result
    b = P.fn(F + 'WriteResult::convert_to_result')
    def unk_special(b_, reg):
        ag = [s for i, s in q.aggs_in(b_, reg, EXC_)]
        ok = len(ag) == 1 and ag[0]['rv']['variant'] == 'Unknown'
        if ok:
            s = q.sem(b_, ag[0]['rv']['a'][0])
            ok = s.kind == 'call' and s.cs.callee.endswith('WriteResult::raw_exception')
        return ok, 'Unknown(self.raw_exception())'
    n, _ = table_convert(c, 'WriteResult', b, F + 'ModbusException', EXC_, special={'Unknown': unk_special})
    total += n
    sc = one([cs for cs in b.calls() if cs.callee.endswith('WriteResult::success')], 'self.success()')
    ex = one([cs for cs in b.calls() if cs.callee.endswith('WriteResult::exception')], 'self.exception()')
    okx = [x for x in q.exits(b) if x['kind'] == 'agg' and x['variant'] == 'Ok']
    errx = [x for x in q.exits(b) if x['kind'] == 'agg' and x['variant'] == 'Err']
    be = q.bool_edges(b, sc)
    c.ob('WriteResult/success', len(okx) == 1 and q.dominated_by_any(b, be['true'], okx[0]['node']) and len(errx) == 1 and q.dominated_by_any(b, be['false'], errx[0]['node']), 'success() -> Ok(()); otherwise Err(the converted exception)', '', loc_of(b))
    sw = [i for i in q.enum_switches(b, F + 'ModbusException')]
    c.ob('WriteResult/exception-source', len(sw) >= 1 and all(q.sem(b, b.switch_info(i)['place']).kind == 'call' and q.sem(b, b.switch_info(i)['place']).cs is ex for i in sw), 'the exception converted is self.exception()', '', loc_of(b))
    # decode level
    b = P.find_impl('core::convert::From', 'rodbus::decode::DecodeLevel', 'from', F + 'DecodeLevel')
    for ty, getter in (('AppDecodeLevel', 'app'), ('FrameDecodeLevel', 'frame'), ('PhysDecodeLevel', 'physical')):
        def from_getter(pl, getter=getter):
            sm = q.sem(b, pl)
            return sm.kind == 'call' and sm.cs.callee.endswith('DecodeLevel::' + getter) and q.is_name(b, sm.cs.args[0], 'level')
        n, _ = table_convert(c, ty, b, F + ty, 'rodbus::decode::' + ty, place_pred=from_getter)
        total += n
    ag = [s for _, s in b.aggregates('rodbus::decode::DecodeLevel')]
    okd = len(ag) == 1
    if okd:
        f = dict(zip(ag[0]['rv']['fields'], ag[0]['rv']['a']))
        for fld, ty in (('app', 'AppDecodeLevel'), ('frame', 'FrameDecodeLevel'), ('physical', 'PhysDecodeLevel')):
            s = q.sem(b, f[fld])
            cl = b.op_closure(f[fld])
            okd = okd and any(x[0] == 'agg' and x[1].startswith('rodbus::decode::' + ty + '::') for x in cl) and not any(x[0] == 'agg' and x[1].startswith('rodbus::decode::') and not x[1].startswith('rodbus::decode::' + ty + '::') and not x[1].startswith('rodbus::decode::DecodeLevel') for x in cl)
    c.ob('DecodeLevel/fields', okd, 'app / frame / physical are each filled from their own enum', '', loc_of(b))
    b = P.find_impl('core::convert::From', F + 'ClientState', 'from', 'rodbus::client::listener::ClientState')
    n, _ = table_convert(c, 'ClientState', b, 'rodbus::client::listener::ClientState', F + 'ClientState')
    total += n
    if P.has('rodbus::serial::client::SerialChannelTask::run'):
        b = P.find_impl('core::convert::From', F + 'PortState', 'from', 'rodbus::client::listener::PortState')
        n, _ = table_convert(c, 'PortState', b, 'rodbus::client::listener::PortState', F + 'PortState')
        total += n
        b = P.find_impl('core::convert::From', 'rodbus::serial::SerialSettings', 'from', F + 'SerialPortSettings')
        for ty in ('DataBits', 'FlowControl', 'Parity', 'StopBits'):
            n, _ = table_convert(c, ty, b, F + ty, 'serialport::' + ty)
            total += n
        ag = [s for _, s in b.aggregates('rodbus::serial::SerialSettings')]
        oks = len(ag) == 1
        if oks:
            f = dict(zip(ag[0]['rv']['fields'], ag[0]['rv']['a']))
            s = q.sem(b, f['baud_rate'])
            oks = s.kind == 'call' and s.cs.callee.endswith('::baud_rate')
        c.ob('SerialSettings/baud', oks, 'the baud rate is passed through', '', loc_of(b))
    if P.has('rodbus::tcp::tls::server::TlsServerConfig::new'):
        b = P.find_impl('core::convert::From', 'rodbus::tcp::tls::MinTlsVersion', 'from', F + 'MinTlsVersion')
        n, _ = table_convert(c, 'MinTlsVersion', b, F + 'MinTlsVersion', 'rodbus::tcp::tls::MinTlsVersion', rename={'V12': 'V1_2', 'V13': 'V1_3'})
        total += n
        b = P.find_impl('core::convert::From', 'rodbus::tcp::tls::CertificateMode', 'from', F + 'CertificateMode')
        n, _ = table_convert(c, 'CertificateMode', b, F + 'CertificateMode', 'rodbus::tcp::tls::CertificateMode')
        total += n
        b = P.find_impl('core::convert::From', F + 'ParamError', 'from', 'rodbus::tcp::tls::TlsError')
        n, _ = table_convert(c, 'TlsError', b, 'rodbus::tcp::tls::TlsError', F + 'ParamError', rename={'BadConfig': 'BadTlsConfig'})
        total += n
    b = P.find_impl('core::convert::From', F + 'ParamError', 'from', 'rodbus::client::ffi_channel::FfiChannelError')
    def br_special(b_, reg):
        cl = [cs for cs in q.calls_in(b_, reg) if cs.declared in ('core::convert::Into::into', 'core::convert::From::from')]
        return len(cl) == 1, 'BadRange(err) -> err.into()'
    n, _ = table_convert(c, 'FfiChannelError', b, 'rodbus::client::ffi_channel::FfiChannelError', F + 'ParamError', rename={'ChannelFull': 'TooManyRequests', 'ChannelClosed': 'Shutdown'}, special={'BadRange': br_special})
    total += n
    for src, want in (('rodbus::error::InvalidRange', 'InvalidRange'), ('rodbus::error::InvalidRequest', 'InvalidRequest'), ('rodbus::error::Shutdown', 'Shutdown')):
        b = P.find_impl('core::convert::From', F + 'ParamError', 'from', src)
        xs = q.exits(b)
        ok = len(xs) == 1 and xs[0]['kind'] == 'agg' and xs[0]['variant'] == want
        c.ob('ParamError/%s' % want, ok, '%s is reported as ParamError::%s' % (src.rsplit('::', 1)[-1], want), '', loc_of(b))
        total += 1 if ok else 0
    c.floor('conversion arms confirmed', total, 60)
    # completion: FutureType impls report Ok -> on_complete, Err -> on_failure(err.into())
    for cb in ('BitReadCallback', 'RegisterReadCallback', 'WriteCallback'):
        hits = [x for x in P.all_bodies(crate='rodbus_ffi') if x.kind == 'AssocFn' and norm(x.trait).endswith('FutureType') and norm(x.self_ty) == F + cb]
        comp = [x for x in hits if x.path.endswith('::complete')]
        drop_ = [x for x in hits if x.path.endswith('::on_drop')]
        ok = len(comp) == 1 and len(drop_) == 1
        if ok:
            b = comp[0]
            sw = [(e, v) for e, v, info in b.variant_edges('core::result::Result') if q.is_name(b, info['place'], 'result')]
            oke = [e for e, v in sw if v == 'Ok']
            ere = [e for e, v in sw if v == 'Err']
            onc = [cs for cs in b.calls() if cs.callee.endswith(cb + '::on_complete')]
            onf = [cs for cs in b.calls() if cs.callee.endswith(cb + '::on_failure')]
            ok = len(onc) == 1 and len(onf) == 1 and q.dominated_by_any(b, oke, onc[0].node) and q.dominated_by_any(b, ere, onf[0].node) and not b.in_cycle(onc[0].node) and not b.in_cycle(onf[0].node)
            if ok:
                s = q.sem(b, onf[0].args[1])
                ok = s.kind == 'call' and s.cs.declared in ('core::convert::Into::into', 'core::convert::From::from')
            d = drop_[0]
            xs = q.exits(d)
            ok = ok and len(xs) == 1 and xs[0]['kind'] == 'agg' and xs[0]['variant'] == 'Err' and (q.agg_variant_of(d, xs[0]['rv']['a'][0]) or ('', ''))[1] == 'Shutdown'
        c.ob('FutureType/%s' % cb, ok, '%s: Ok -> on_complete, Err(e) -> on_failure(e.into()), dropped -> Err(Shutdown)' % cb, '', loc_of(comp[0]) if comp else None)


@rule('C18', 'R18.2', 'write callbacks: the application\'s WriteResult is what the client receives, for all four write functions', needs=HAS_FFI)
def r2(c):
    P = c.P
    W = '<rodbus_ffi::server::RequestHandlerWrapper as rodbus::server::handler::RequestHandler>::'
    n = 0
    for v in WRITES:
        m = HANDLER_METHOD[v]
        b = P.fn(W + m)
        c.saw(b, len(b.calls()))
        cb = [cs for cs in b.calls() if cs.callee == F + 'WriteHandler::' + m]
        ok = len(cb) == 1
        detail = '%d callback calls' % len(cb)
        if ok:
            oc = q.outcomes(b, cb[0])
            some, none = oc.get('Some', []) or oc.get('success', []), oc.get('None', []) or oc.get('failure', [])
            conv = [cs for cs in b.calls(F + 'WriteResult::convert_to_result')]
            xs = q.exits(b)
            some_x = [x for x in xs if any(q.dom(b, e, x['node']) for e in some)]
            none_x = [x for x in xs if any(q.dom(b, e, x['node']) for e in none)]
            ok1 = len(conv) == 1 and bool(some_x) and all(x['kind'] == 'call' and x['cs'] is conv[0] for x in some_x)
            if ok1:
                s = q.sem(b, conv[0].args[0])
                ok1 = s.kind == 'call' and s.cs is cb[0] and q.has_success(s.proj)
            ok2 = bool(none_x) and all(q.exit_error(b, x) == ('variant', (EXC_, 'IllegalFunction')) for x in none_x)      # Err(IllegalFunction) / ok_or(IllegalFunction)?
            ok = ok1 and ok2 and len(some_x) + len(none_x) == len(xs)
            detail = 'Some-exits %s, None-exits %s' % ([x['kind'] for x in some_x], [x['kind'] for x in none_x])
            # arguments pass through
            if v.startswith('WriteSingle'):
                a1, a2 = q.sem(b, cb[0].args[1]), q.sem(b, cb[0].args[2])
                ok = ok and q.sem_is_name(b, a1, 'value') and a1.proj[-1].endswith(':index') and q.sem_is_name(b, a2, 'value') and a2.proj[-1].endswith(':value')
            else:
                a1 = q.sem(b, cb[0].args[1])
                ok = ok and q.sem_is_name(b, a1, 'values') and a1.proj[-1].endswith(':start')
                it = b.op_closure(cb[0].args[2])
                ok = ok and 'values' in q.closure_names(b, cb[0].args[2])
            db = q.sem(b, cb[0].args[3])
            ok = ok and q.sem_is_name(b, db, 'self') and any('database' in p for p in db.proj)
        c.ob('wrapper/%s' % m, ok, 'RequestHandlerWrapper::%s returns callback(..).convert_to_result() (None -> IllegalFunction), passing index/value (or start + iterator) and the database' % m, detail, loc_of(b), kind='write-result')
        n += 1 if ok else 0
    c.exact('write wrappers', n, 4)


@rule('C18', 'R18.3', 'reads are served from the same-named point map; an absent point is exception 02', needs=HAS_FFI)
def r3(c):
    P = c.P
    W = '<rodbus_ffi::server::RequestHandlerWrapper as rodbus::server::handler::RequestHandler>::'
    MAP = {'read_coil': 'coils', 'read_discrete_input': 'discrete_input', 'read_holding_register': 'holding_registers', 'read_input_register': 'input_registers'}
    n = 0
    for m, fld in MAP.items():
        b = P.fn(W + m)
        g = [cs for cs in b.calls() if cs.callee.endswith('HashMap::get')]
        ok = len(g) == 1
        if ok:
            r = q.sem(b, g[0].args[0])
            ok = q.sem_is_name(b, r, 'self') and r.proj[-1].endswith(':' + fld) and 'address' in q.closure_names(b, g[0].args[1])
            oc = q.outcomes(b, g[0])
            xs = q.exits(b)
            okx = [x for x in xs if x['kind'] == 'agg' and x['variant'] == 'Ok']
            erx = [x for x in xs if x['kind'] == 'agg' and x['variant'] == 'Err']
            adapters = [x for x in xs if x['kind'] == 'call' and x['cs'].is_('core::option::Option::ok_or')]
            if len(xs) == 1 and len(adapters) == 1:
                # `map.get(&address).copied().ok_or(IllegalDataAddress)`: Some(v) -> Ok(v), None -> Err(that code)
                a = adapters[0]['cs']
                v = q.sem(b, a.args[0])
                ok = ok and v.kind == 'call' and v.cs is g[0] and not v.proj and q.agg_variant_of(b, a.args[1]) == (EXC_, 'IllegalDataAddress')
            else:
                ok = ok and len(okx) == 1 and len(erx) == 1 and q.dominated_by_any(b, oc.get('Some', []), okx[0]['node']) and q.dominated_by_any(b, oc.get('None', []), erx[0]['node'])
                ok = ok and q.agg_variant_of(b, erx[0]['rv']['a'][0]) == (EXC_, 'IllegalDataAddress')
                if ok:
                    v = q.sem(b, okx[0]['rv']['a'][0])
                    ok = v.kind == 'call' and v.cs is g[0]
        c.ob('read/%s' % m, ok, '%s reads database.%s[address]; None -> IllegalDataAddress' % (m, fld), '', loc_of(b))
        n += 1 if ok else 0
    c.exact('read wrappers', n, 4)


@rule('C18', 'R18.4', 'client operations and constructors forward their parameters to the same-named Rust call', needs=HAS_FFI)
def r4(c):
    P = c.P
    FC_ = 'rodbus_ffi::client::'
    CH = 'rodbus::client::ffi_channel::FfiChannel::'
    n = 0
    for v in REQUESTS:
        m = API_METHOD[v]
        b = P.fn(FC_ + 'client_channel_' + m)
        c.saw(b, len(b.calls()))
        cs_l = b.calls(CH + m)
        ok = len(cs_l) == 1
        if ok:
            cs = cs_l[0]
            p = q.sem(b, cs.args[1])
            ok = p.kind == 'call' and p.cs.declared in ('core::convert::Into::into', 'core::convert::From::from') and q.is_name(b, p.cs.args[0], 'param')
            r = q.sem(b, cs.args[0])
            ok = ok and 'channel' in q.closure_names(b, cs.args[0])
            a2 = q.sem(b, cs.args[2])
            if v in READS:
                okr = a2.kind == 'call' and a2.cs.is_('rodbus::types::AddressRange::try_from') and a2.checked
                if okr:
                    s0, s1 = q.sem(b, a2.cs.args[0]), q.sem(b, a2.cs.args[1])
                    okr = q.sem_is_name(b, s0, 'range') and s0.proj[-1].endswith(':start') and q.sem_is_name(b, s1, 'range') and s1.proj[-1].endswith(':count')
                ok = ok and okr
            elif v.startswith('WriteSingle'):
                ok = ok and a2.kind == 'call' and a2.cs.declared in ('core::convert::Into::into', 'core::convert::From::from') and (q.is_name(b, a2.cs.args[0], 'bit') or q.is_name(b, a2.cs.args[0], 'register'))
            else:
                okw = a2.kind == 'call' and a2.cs.is_('rodbus::client::requests::write_multiple::WriteMultiple::from') and a2.checked
                if okw:
                    okw = q.is_name(b, a2.cs.args[0], 'start') and 'items' in q.closure_names(b, a2.cs.args[1])
                ok = ok and okw
            ok = ok and bool(q.outcomes(b, cs).get('failure'))
        c.ob('operation/%s' % m, ok, 'client_channel_%s calls FfiChannel::%s(param.into(), the same range / value / list, callback) and propagates its error' % (m, m), '', loc_of(b))
        n += 1 if ok else 0
    c.exact('client operations forwarded', n, 8)
    rp = P.find_impl('core::convert::From', 'rodbus::client::channel::RequestParam', 'from', F + 'RequestParam')
    ag = [s for _, s in rp.aggregates('rodbus::client::channel::RequestParam')]
    ok = len(ag) == 1
    if ok:
        f = dict(zip(ag[0]['rv']['fields'], ag[0]['rv']['a']))
        u = q.sem(rp, f['id'])
        t = q.sem(rp, f['response_timeout'])
        ok = u.kind == 'call' and u.cs.is_('rodbus::types::UnitId::new') and q.sem(rp, u.cs.args[0]).proj[-1].endswith(':unit_id') and t.kind == 'call' and t.cs.callee.endswith('::timeout')
    c.ob('RequestParam', ok, 'unit id and timeout pass through unchanged', '', loc_of(rp))
    for ty, ffi_ty in (('bool', 'BitValue'), ('u16', 'RegisterValue')):
        b = P.find_impl('core::convert::From', 'rodbus::types::Indexed<%s>' % ty, 'from', F + ffi_ty)
        nw = one(b.calls('rodbus::types::Indexed::new'), 'Indexed::new')
        a0, a1 = q.sem(b, nw.args[0]), q.sem(b, nw.args[1])
        c.ob('Indexed<%s>' % ty, a0.proj[-1].endswith(':index') and a1.proj[-1].endswith(':value'), '%s{index, value} becomes Indexed::new(index, value)' % ffi_ty, '', loc_of(b))
    ar = P.find_impl('core::convert::From', F + 'AddressRange', 'from', 'rodbus::types::AddressRange')
    ag = [s for _, s in ar.aggregates(F + 'AddressRange')]
    ok = len(ag) == 1
    if ok:
        f = dict(zip(ag[0]['rv']['fields'], ag[0]['rv']['a']))
        ok = q.sem(ar, f['start']).proj[-1].endswith(':start') and q.sem(ar, f['count']).proj[-1].endswith(':count')
    c.ob('AddressRange', ok, 'AddressRange{start, count} passes field by field', '', loc_of(ar))
    # channel constructors: queue size, retry, decode level, listener by name
    b = P.fn(FC_ + 'client_channel_create_tcp')
    sp = one(b.calls('rodbus::client::spawn_tcp_client_task'), 'spawn_tcp_client_task')
    ok = 'max_queued_requests' in q.closure_names(b, sp.args[1]) and 'retry_strategy' in q.closure_names(b, sp.args[2]) and 'decode_level' in q.closure_names(b, sp.args[3]) and 'listener' in q.closure_names(b, sp.args[4]) and \
        {'host', 'port'} <= q.closure_names(b, sp.args[0])
    c.ob('create_tcp', ok, 'client_channel_create_tcp forwards host/port, queue size, retry strategy, decode level and listener in order', '', sp.loc())
    sct = P.fn('rodbus_ffi::server::server_create_tcp')
    sp = one(sct.calls('rodbus::server::spawn_tcp_server_task'), 'spawn_tcp_server_task')
    ok = 'max_sessions' in q.closure_names(sct, sp.args[0]) and {'ip_addr', 'port'} <= q.closure_names(sct, sp.args[1]) and 'endpoints' in q.closure_names(sct, sp.args[2]) and 'decode_level' in q.closure_names(sct, sp.args[4])
    c.ob('server_create_tcp', ok, 'server_create_tcp forwards max sessions, address, endpoints and decode level in order', '', sp.loc())
    DM = 'rodbus_ffi::server::DeviceMap::drain_and_convert'
    sites = [(bb, cs) for bb in P.nested(DM) for cs in bb.calls('rodbus::server::handler::ServerHandlerMap::add')]
    okd = len(sites) == 1
    if okd:
        dm, ad = sites[0]
        u = q.sem(dm, ad.args[1])
        okd = u.kind == 'call' and u.cs.is_('rodbus::types::UnitId::new')
        if okd:
            k, v = q.sem(dm, u.cs.args[0]), q.sem(dm, ad.args[2])
            if v.kind == 'call' and v.cs.is_('rodbus::server::handler::RequestHandler::wrap') and v.cs.args and not v.proj:
                v = q.sem(dm, v.cs.args[0])          # the handler is wrapped (Arc<Mutex<..>>) on its way in
            kf = [p for p in k.proj if p.startswith('field:')]
            vf = [p for p in v.proj if p.startswith('field:')]
            # key and value are the two components of one drained (unit id, handler) pair
            same_root = (k.kind == v.kind == 'call' and k.cs is v.cs and k.cs.declared == 'core::iter::traits::iterator::Iterator::next') or \
                        (k.kind == v.kind == 'place' and k.local == v.local and dm.kind == 'Closure' and k.local >= 2)
            okd = same_root and bool(kf) and bool(vf) and kf[-1].startswith('field:0:') and vf[-1].startswith('field:1:')
            if okd and dm.kind == 'Closure':
                import panics
                ctx = panics.closure_context(dm)
                okd = ctx is not None and ctx[2].declared.endswith('::for_each')
    c.ob('device-map', okd, 'every drained endpoint is registered under its own unit id (each pair exactly once: a for loop or for_each over the drain)', '%d add sites' % len(sites), loc_of(P.fn(DM)))


@rule('C18', 'R18.5', 'completion callbacks are wrapped into a drop-safe promise before any error return', needs=HAS_FFI)
def r5(c):
    P = c.P
    n = 0
    for v in REQUESTS:
        m = API_METHOD[v]
        b = P.fn('rodbus_ffi::client::client_channel_' + m)
        wr = [cs for cs in b.calls('sfio_promise::wrap')]
        ok = len(wr) == 1 and q.is_name(b, wr[0].args[0], 'callback')
        detail = '%d wrap calls' % len(wr)
        if ok:
            errs = [x for x in q.exits(b) if (x['kind'] == 'agg' and x['variant'] == 'Err') or (x['kind'] == 'call' and x['cs'].is_(q.FROM_RESIDUAL))]
            early = [x for x in errs if not b.dominates(wr[0].ret, x['node'])]
            ok = not early and len(errs) >= 2
            detail = '%d error returns, %d before the wrap' % (len(errs), len(early))
            # the wrapped promise is what completes: the closure handed to FfiChannel captures it
            op = one(b.calls('rodbus::client::ffi_channel::FfiChannel::' + m), 'FfiChannel::' + m)
            cl = b.op_closure(op.args[3])
            ok = ok and any(x[0] == 'call' and x[2] == wr[0].block for x in cl)
        c.ob('wrap-first/%s' % m, ok, 'client_channel_%s: sfio_promise::wrap(callback) dominates every error return, and the wrapped promise is what the request completes' % m, detail, loc_of(b), kind='callback-wrapped')
        n += 1 if ok else 0
    c.exact('operations wrapping first', n, 8)


@rule('C18', 'R18.6', 'the bindings are built against rodbus with its `ffi` feature', needs=HAS_FFI)
def r6(c):
    import tomllib, os
    from extract import REPO
    with open(os.path.join(REPO, 'ffi', 'rodbus-ffi', 'Cargo.toml'), 'rb') as fh:
        t = tomllib.load(fh)
    dep = t.get('dependencies', {}).get('rodbus', {})
    c.ob('feature', 'ffi' in dep.get('features', []) and dep.get('path'), 'rodbus-ffi depends on the in-tree rodbus with feature "ffi"', str(dep))
    c.ob('FfiChannel', c.P.has('rodbus::client::ffi_channel::FfiChannel::send'), 'FfiChannel exists in the analysed rodbus', '')


@rule('C18', 'R18.7', 'authorization callbacks cross the C ABI one-to-one and default to Deny (C08/R08.7)',
      needs=lambda P: 'rodbus_ffi' in P.crates and P.has('rodbus::tcp::tls::server::TlsServerConfig::new'))
def r7(c):
    from rules import c08
    c08.r7(c)


@rule('C18', 'R18.8', 'TLS client configuration crosses the C ABI unchanged: server-name verification is switched off only by the explicit opt-in (flag AND name "*"); every other name is passed on to be verified',
      needs=lambda P: 'rodbus_ffi' in P.crates and P.has('rodbus::tcp::tls::client::TlsClientConfig::full_pki'))
def r8(c):
    P = c.P
    FULL = 'rodbus::tcp::tls::client::TlsClientConfig::full_pki'
    sites = [cs for cs in P.callers(FULL) if cs.body.crate == 'rodbus_ffi']
    cs = one(sites, 'TlsClientConfig::full_pki call in rodbus-ffi')
    b = cs.body
    c.saw(b, len(b.calls()))
    alts = q.sem_alts(b, cs.args[0])
    none = [a for a in alts if a.kind == 'agg' and isinstance(a.extra, dict) and a.extra.get('variant') == 'None']
    some = [a for a in alts if a.kind == 'agg' and isinstance(a.extra, dict) and a.extra.get('variant') == 'Some']
    c.ob('subject-name/alternatives', len(alts) == 2 and len(none) == 1 and len(some) == 1, 'the expected subject name handed to full_pki is either None or Some(name)', repr(alts), cs.loc())
    if len(none) != 1 or len(some) != 1:
        return
    # where the None is built
    nsite = [('b', i) for i, s_ in b.assigns() if s_['rv'] is none[0].extra]
    # the flag
    flag_true = []
    for i in b.switches():
        info = b.switch_info(i)
        if info['kind'] != 'bool':
            continue
        cnd = info['cond']
        if cnd[0] == 'place' and cnd[2] and cnd[2][-1].endswith(':allow_server_name_wildcard'):
            t = b.blocks[i]['term']
            for e in [('e', i, str(v)) for v, _ in t['vals']] + [('e', i, 'otherwise')]:
                if b.edge_bool(e) is True:
                    flag_true.append(e)
    # the comparison with "*"
    star_true = []
    for ec in b.calls('core::cmp::PartialEq::eq'):
        if any((q.sem(b, a).kind == 'const' and '*' in str(q.sem(b, a).extra.get('repr', q.sem(b, a).const))) or
               (q.sem(b, a).kind == 'const' and 'promoted' in (q.sem(b, a).extra or {})) for a in ec.args):
            star_true += q.bool_edges(b, ec)['true']
    ok = len(nsite) == 1 and bool(flag_true) and bool(star_true) and q.dominated_by_any(b, flag_true, nsite[0]) and q.dominated_by_any(b, star_true, nsite[0])
    c.ob('subject-name/none-needs-both', ok, 'None (no server-name verification) is built only where allow_server_name_wildcard is true AND the configured name equals "*"',
         '%d flag edges, %d comparison edges, None built at %s' % (len(flag_true), len(star_true), [loc_of(b, n[1]) for n in nsite]), cs.loc())
    nm = q.sem(b, some[0].extra['a'][0])
    okn = nm.kind == 'call' and (nm.cs.callee or '').endswith('::to_string') and 'dns_name' in ''.join(str(y) for y in b.op_closure(nm.cs.args[0]))
    c.ob('subject-name/some-is-dns-name', okn, 'otherwise the name handed on is the configured dns_name', repr(nm), cs.loc())


@rule('C18', 'R18.9', 'queue conditions keep their names across the C ABI: a full queue is ChannelFull / TooManyRequests, a closed one ChannelClosed / Shutdown (C10/R10.5)', needs=lambda P: P.has('rodbus::client::ffi_channel::FfiChannel::send'))
def r9(c):
    from rules import c10
    c10.r5(c)


@rule('C18', 'R18.10', 'the retry strategy configured through the C ABI is the Rust one with the same minimum and maximum delay, in that order (C14/R14.4)', needs=lambda P: P.has('rodbus_ffi::ffi::RetryStrategy::min_delay'))
def r10(c):
    from rules import c14
    c14.r4(c)
