"""C01 — the server replies exactly as the protocol prescribes (structural clauses: dispatch skeleton, decoders,
exact-length and limit guards, exception codes at the decision points, reply construction tables)."""
from core import rule, loc_of
from facts import AnchorLost, norm
import q, effects, inline
from tables import *
from rules.c08 import (one, hf, IS_AUTH, PARSE, GET_REPLY, EXECUTE, INTO_BC, HGET, HITER, LOCK, WIRE_WRITE, REPLY_ERR, REPLY_ERR_G)

FC_GET = 'rodbus::common::function::FunctionCode::get'
EXPECT_EMPTY = 'scursor::read::ReadCursor::expect_empty'
TRY_FROM = 'rodbus::types::AddressRange::try_from'
LIMITED = 'rodbus::types::AddressRange::limited_count'
AR = 'rodbus::types::AddressRange'
AR_PARSE = '<rodbus::types::AddressRange as rodbus::common::traits::Parse>::parse'
FORMAT_REPLY = 'rodbus::common::frame::FrameWriter::format_reply'
FORMAT_EX = 'rodbus::common::frame::FrameWriter::format_ex'
FORMAT_GENERIC = 'rodbus::common::frame::FrameWriter::format_generic'
FF = 'rodbus::common::frame::FunctionField'


@rule('C01', 'R01.1', 'function code table: FunctionCode::get and the enum discriminants follow the specification')
def r1(c):
    P = c.P
    adt = P.adt(FC)
    have = {v['name']: int(v['discr']) for v in adt['variants']}
    c.ob('discriminants', have == {n: v for v, n in FUNCTION_CODES.items()}, 'FunctionCode discriminants are 1,2,3,4,5,6,15,16', str(have))
    b = P.fn(FC_GET)
    c.saw(b, len(b.calls()))
    sw = q.int_arms(b, lambda s: q.sem_is_name(b, s, 'value'))
    sw = one(sw, 'integer match on `value` in FunctionCode::get')
    _, arms = sw
    exs = q.exits(b)
    n = 0
    for val, name in FUNCTION_CODES.items():
        reg = arms.get(str(val))
        ok = reg is not None
        if ok:
            xs = q.exit_in(b, reg, exs)
            inner = [s for i, s in q.aggs_in(b, reg, FC)]
            ok = len(xs) == 1 and xs[0]['kind'] == 'agg' and xs[0]['variant'] == 'Some' and len(inner) == 1 and inner[0]['rv']['variant'] == name
        c.ob('get/%d' % val, ok, 'FunctionCode::get(%d) = Some(%s)' % (val, name), '', loc_of(b))
        n += 1 if ok else 0
    c.exact('function codes recognised', n, 8)
    extra = sorted(k for k in arms if k != 'otherwise' and int(k) not in FUNCTION_CODES)
    c.ob('get/no-extra', not extra, 'no other byte value is recognised', str(extra), loc_of(b))
    reg = arms.get('otherwise', set())
    xs = q.exit_in(b, reg, exs)
    c.ob('get/otherwise', len(xs) == 1 and xs[0]['kind'] == 'agg' and xs[0]['variant'] == 'None', 'every other value gives None', str([(x['kind'], x.get('variant')) for x in xs]), loc_of(b))
    gv = P.fn('rodbus::common::function::FunctionCode::get_value')
    xs = q.exits(gv)
    ok = len(xs) == 1 and xs[0]['kind'] == 'other' and xs[0]['rv']['r'] == 'cast' and q.sem(gv, xs[0]['rv']['a'][0]).kind == 'discr'
    if not ok and len(xs) == 1 and xs[0]['kind'] == 'copy':
        s = xs[0]['sem']
        ok = s.kind == 'cast' and s.extra[0].kind == 'discr'
    c.ob('get_value', ok, 'FunctionCode::get_value is the discriminant (self as u8)', str([(x['kind']) for x in xs]), loc_of(gv))


def parse_arm_regions(c):
    b = c.P.fn(PARSE)
    c.saw(b, len(b.calls()))
    arms = q.arms_of(b, FC, lambda pl: q.sem_is_name(b, q.sem(b, pl), 'function'))
    out = {}
    for v in REQUESTS:
        reg = set()
        for e, r in arms.get(v, []):
            reg |= r
        out[v] = reg
    return b, out


@rule('C01', 'R01.2', 'Request::parse: arm X builds Request::X from the decoder the specification prescribes for X')
def r2(c):
    P = c.P
    b, regs = parse_arm_regions(c)
    exs = q.exits(b)
    n = 0
    for v in REQUESTS:
        reg = regs[v]
        if not c.ob('arm/%s' % v, bool(reg), 'Request::parse has an arm for FunctionCode::%s' % v, '', loc_of(b)):
            continue
        built = [s for i, s in q.aggs_in(b, reg, REQ)]
        ok = len(built) == 1 and built[0]['rv']['variant'] == v
        c.ob('arm/%s/builds' % v, ok, 'the arm builds exactly Request::%s' % v, str([s['rv']['variant'] for s in built]), loc_of(b))
        dec = [cs for cs in q.calls_in(b, reg) if cs.callee == REQ_DECODER[v]]
        other = [cs.callee for cs in q.calls_in(b, reg) if cs.callee in set(REQ_DECODER.values()) and cs.callee != REQ_DECODER[v]]
        okd = len(dec) == 1 and not other and q.outcomes(b, dec[0]).get('success')
        c.ob('arm/%s/decoder' % v, okd, 'the arm decodes with a checked call to %s and no other decoder' % REQ_DECODER[v], 'decoder calls %d, foreign decoders %s' % (len(dec), other), loc_of(b))
        if ok and okd:
            # payload value-flow: Request::X(payload) where payload comes from the decoder (reads/singles) or WriteX::new(range, it)
            s = q.sem(b, built[0]['rv']['a'][0])
            if v in ('WriteMultipleCoils', 'WriteMultipleRegisters'):
                okp = s.kind == 'call' and s.cs.callee.endswith('::new') and q.sem(b, s.cs.args[1]).kind == 'call' and q.sem(b, s.cs.args[1]).cs is dec[0]
            else:
                okp = s.kind == 'call' and s.cs is dec[0] and s.checked
            c.ob('arm/%s/payload' % v, okp, "the request's payload is the decoder's checked result", repr(s), loc_of(b))
            # the exits of the arm return that request
            xs = [x for x in q.exit_in(b, reg, exs) if x['kind'] == 'agg' and x['variant'] == 'Ok']
            okx = bool(xs)
            for x in xs:
                sx = q.sem(b, x['rv']['a'][0])
                okx = okx and sx.kind == 'agg' and sx.extra is built[0]['rv']
            c.ob('arm/%s/returns' % v, okx, 'every Ok exit of the arm returns that request', '%d Ok exits' % len(xs), loc_of(b))
            n += 1
        # every range read arm parses its AddressRange from the cursor
        if v in READS or v.startswith('WriteMultiple'):
            rp = [cs for cs in q.calls_in(b, reg) if cs.callee == AR_PARSE]
            c.ob('arm/%s/range' % v, len(rp) == 1 and q.outcomes(b, rp[0]).get('success') and q.is_name(b, rp[0].args[0], 'cursor'),
                 'the range is parsed (checked) from the request cursor', '%d AddressRange::parse calls' % len(rp), loc_of(b))
            if v in READS and len(rp) == 1 and len(dec) == 1:
                s = q.sem(b, dec[0].args[0])
                c.ob('arm/%s/range-flow' % v, s.kind == 'call' and s.cs is rp[0] and s.checked, 'the limit check is applied to the parsed range', repr(s), dec[0].loc())
    c.exact('request kinds decoded', n, 8)


@rule('C01', 'R01.3', 'exact length: every Ok exit of every arm has passed a checked expect_empty (wrong length -> parse error)')
def r3(c):
    P = c.P
    b, regs = parse_arm_regions(c)
    exs = q.ok_exits(b)
    # witnesses: checked calls to expect_empty, or to a helper all of whose success exits pass through it (P13)
    wit = []
    for cs in b.calls():
        if cs.is_(EXPECT_EMPTY):
            wit.append((cs, 'direct'))
        else:
            for nme in cs.names():
                if P.has(nme):
                    ok, why = q.must_call_on_ok(P, nme, (EXPECT_EMPTY,), depth=3)
                    if ok:
                        wit.append((cs, 'via ' + nme))
                        break
    n = 0
    for v in REQUESTS:
        reg = regs[v]
        xs = [x for x in exs if x['node'] in reg and not (x['kind'] == 'call' and x['cs'].is_(q.FROM_RESIDUAL))]
        ok = bool(xs)
        used = []
        for x in xs:
            hit = [w for w in wit if w[0].node in reg and q.dominated_by_any(b, q.outcomes(b, w[0]).get('success', []), x['node'])]
            ok = ok and bool(hit)
            used += [w[1] for w in hit]
        c.ob('arm/%s' % v, ok, 'Ok exits of the %s arm are dominated by a checked expect_empty' % v, '%d exits, witnesses %s' % (len(xs), sorted(set(used))), loc_of(b))
        n += 1 if ok else 0
    c.exact('arms with exact-length guard', n, 8)
    # the cursor checked is the request cursor, and the data length read depends on the requested count
    for f, what in (('rodbus::types::BitIterator::parse_all', 'num_bytes_for_bits(range.count)'), ('rodbus::types::RegisterIterator::parse_all', '2 * range.count')):
        pb = P.fn(f)
        c.saw(pb, len(pb.calls()))
        rb = one(pb.calls('scursor::read::ReadCursor::read_bytes'), 'read_bytes in ' + f)
        ee = one(pb.calls(EXPECT_EMPTY), 'expect_empty in ' + f)
        names = q.closure_names(pb, rb.args[1])
        s_ok = 'range' in names
        c.ob('%s/length-from-count' % f.split('::')[-2], s_ok and q.outcomes(pb, rb).get('success'), 'the number of data bytes consumed derives from the range (%s)' % what, 'depends on %s' % sorted(names), rb.loc())
        c.ob('%s/same-cursor' % f.split('::')[-2], q.is_name(pb, rb.args[0], 'cursor') and q.is_name(pb, ee.args[0], 'cursor'), 'read_bytes and expect_empty act on the cursor parameter', '', ee.loc())
        ok, why = q.must_call_on_ok(P, f, (EXPECT_EMPTY,))
        c.ob('%s/summary' % f.split('::')[-2], ok, 'all success exits pass a checked expect_empty', why, loc_of(pb))
    # control: the fixture's length-unchecked parser must be rejected
    fx = c.FX
    okf, _ = q.must_call_on_ok(fx, 'posctl::parsing::parse_unchecked_tail', ('posctl::parsing::Cursor::expect_empty',))
    okg, _ = q.must_call_on_ok(fx, 'posctl::parsing::parse_checked_via_helper', ('posctl::parsing::Cursor::expect_empty',))
    c.control('dropped expect_empty result is not a check', not okf)
    c.control('helper-wrapped expect_empty is accepted', okg)


limit_witnesses = q.limit_witnesses


@rule('C01', 'R01.4', 'quantity limits: 2000 / 125 for reads, 1968 / 123 for multiple writes, enforced before a request is accepted')
def r4(c):
    P = c.P
    for k, v in LIMITS.items():
        c.ob('const/%s' % k.rsplit('::', 1)[-1], P.const(k) == v, '%s = %d (specification)' % (k, v), 'value %s' % P.const(k))
    # limited_count: success implies count <= limit
    lc = P.fn(LIMITED)
    c.saw(lc, len(lc.calls()))
    facts = q.cmp_facts(lc)
    okl = True
    xs = q.ok_exits(lc)
    for x in xs:
        okl = okl and q.has_fact(lc, x['node'], 'le', lambda a: any('count' in p for p in q.sem(lc, a).proj) and q.sem_is_name(lc, q.sem(lc, a), 'self'),
                                 lambda o: q.is_name(lc, o, 'limit'), facts)
        if x['kind'] == 'agg':
            okl = okl and q.is_name(lc, x['rv']['a'][0], 'self')
    c.ob('limited_count', okl and bool(xs), 'every success exit of limited_count carries self.count <= limit and returns self', '%d success exits' % len(xs), loc_of(lc))
    for f, cn, ty in (('rodbus::types::AddressRange::of_read_bits', 'rodbus::constants::limits::MAX_READ_COILS_COUNT', 'rodbus::types::ReadBitsRange'),
                      ('rodbus::types::AddressRange::of_read_registers', 'rodbus::constants::limits::MAX_READ_REGISTERS_COUNT', 'rodbus::types::ReadRegistersRange')):
        fb = P.fn(f)
        c.saw(fb, len(fb.calls()))
        wit, edges = limit_witnesses(P, fb, cn, LIMITS[cn])
        xs = q.ok_exits(fb)
        ok = bool(xs) and all(any(q.dominated_by_any(fb, e, x['node']) for _, e in wit) or q.dominated_by_any(fb, edges, x['node']) for x in xs)
        c.ob('%s/limit' % f.rsplit('::', 1)[-1], ok, '%s succeeds only if count <= %s' % (f.rsplit('::', 1)[-1], cn.rsplit('::', 1)[-1]), '%d witnesses' % len(wit), loc_of(fb))
        aggs = [s for _, s in fb.aggregates(ty)]
        okv = len(aggs) == 1 and len(wit) >= 1 and q.sem(fb, aggs[0]['rv']['a'][0]).kind == 'call' and q.sem(fb, aggs[0]['rv']['a'][0]).cs is wit[0][0]
        c.ob('%s/value' % f.rsplit('::', 1)[-1], okv, 'the wrapped range is the one that passed the limit', '', loc_of(fb))
    # write-multiple arms of Request::parse
    b, regs = parse_arm_regions(c)
    exs = q.ok_exits(b)
    for v, cn in (('WriteMultipleCoils', 'rodbus::constants::limits::MAX_WRITE_COILS_COUNT'), ('WriteMultipleRegisters', 'rodbus::constants::limits::MAX_WRITE_REGISTERS_COUNT')):
        wit, edges = limit_witnesses(P, b, cn, LIMITS[cn])
        reg = regs[v]
        xs = [x for x in exs if x['node'] in reg and not (x['kind'] == 'call' and x['cs'].is_(q.FROM_RESIDUAL))]
        ok = bool(xs) and all(any(w.node in reg and q.dominated_by_any(b, e, x['node']) for w, e in wit) or
                              q.dominated_by_any(b, [e for e in edges if e in reg], x['node']) for x in xs)
        # capacity argument: if limit+1 items cannot fit into the largest PDU, the exact-length rule (R01.3) already
        # rejects them; computed from the repository's own constants (P9), bytes per item from the specification
        adu = P.const('rodbus::common::frame::constants::MAX_ADU_LENGTH')
        need = (lambda n: 1 + 4 + 1 + (n + 7) // 8) if v == 'WriteMultipleCoils' else (lambda n: 1 + 4 + 1 + 2 * n)
        capacity = need(LIMITS[cn] + 1) > adu
        how = 'explicit' if ok else ('capacity: %d items need %d > %d bytes' % (LIMITS[cn] + 1, need(LIMITS[cn] + 1), adu) if capacity else 'none')
        c.ob('parse/%s/limit' % v, ok or capacity, 'FC %s is accepted only if the quantity is <= %s (%d)' % (v, cn.rsplit('::', 1)[-1], LIMITS[cn]),
             '%d limit witnesses in the arm, %d Ok exits, enforcement: %s' % (len([w for w, _ in wit if w.node in reg]), len(xs), how), loc_of(b), kind='parse-arm')
        # the range given to parse_all / the handler is the limited one
        if ok and wit:
            w = [w for w, _ in wit if w.node in reg]
            pa = [cs for cs in q.calls_in(b, reg) if cs.callee == REQ_DECODER[v]]
            if w and pa:
                s = q.sem(b, pa[0].args[0])
                c.ob('parse/%s/limited-range-used' % v, s.kind == 'call' and s.cs is w[0] and s.checked, 'the data is parsed against the range that passed the limit', repr(s), pa[0].loc())


@rule('C01', 'R01.5', 'range validity: AddressRange values come only from try_from, which rejects count 0 and address overflow')
def r5(c):
    P = c.P
    cons = P.constructors(AR, crate='rodbus')
    # (a literal single-address range `{start, count: 1}` is valid for every start and needs no check)
    def single(bb, st):
        f = dict(zip(st['rv'].get('fields', []), st['rv']['a']))
        return 'count' in f and q.const_val(bb, f['count']) == 1
    where = sorted({P.logical_name(b) for b, _, st in cons if not single(b, st)})
    c.ob('constructors', where == [TRY_FROM], 'AddressRange{..} is built only in AddressRange::try_from (apart from literal one-address ranges)', str(where), examined=len(cons))
    b = P.fn(TRY_FROM)
    c.saw(b, len(b.calls()))
    facts = q.cmp_facts(b)
    xs = [x for x in q.exits(b) if x['kind'] == 'agg' and x['variant'] == 'Ok']
    ok = bool(xs)
    csub = [cs for cs in b.calls() if cs.callee and cs.callee.endswith('::checked_sub') and q.is_name(b, cs.args[0], 'count') and q.const_val(b, cs.args[1]) == 1]

    def count_minus_one(o):
        s_ = q.sem(b, o)
        if s_.kind == 'bin' and s_.extra[1].startswith('Sub') and q.is_name(b, s_.extra[2], 'count') and q.const_val(b, s_.extra[3]) == 1:
            return True
        return s_.kind == 'call' and s_.cs in csub and q.has_success(s_.proj)

    def is_max_start(o):
        """u16::MAX - (count - 1): the largest start for which start + count - 1 fits"""
        s_ = q.sem(b, o)
        if not (s_.kind == 'bin' and s_.extra[1].startswith('Sub')):
            return False
        a0 = s_.extra[2]
        return (q.const_val(b, a0) == 65535 or str(q.const_def(b, a0) or '').endswith('::MAX')) and count_minus_one(s_.extra[3])
    def is_wide_end(o):
        """start + count computed in a wider type (one past the last address): fits iff <= 65536"""
        s_ = q.sem(b, o)
        if not (s_.kind == 'bin' and s_.extra[1].startswith('Add')):
            return False
        ws = [q.widened(b, s_.extra[2]), q.widened(b, s_.extra[3])]
        wide = all(q.sem(b, a).kind in ('call', 'cast') for a in (s_.extra[2], s_.extra[3]))
        return wide and sorted(q.sem_is_name(b, w, 'start') * 1 + q.sem_is_name(b, w, 'count') * 2 for w in ws) == [1, 2]
    okm = False
    for x in xs:
        nz = q.has_fact(b, x['node'], 'ne', lambda a: q.is_name(b, a, 'count'), lambda o: q.const_val(b, o) == 0, facts) or \
            q.has_fact(b, x['node'], 'lt', lambda o: q.const_val(b, o) == 0, lambda a: q.is_name(b, a, 'count'), facts) or \
            q.has_fact(b, x['node'], 'le', lambda o: q.const_val(b, o) == 1, lambda a: q.is_name(b, a, 'count'), facts) or \
            any(q.dominated_by_any(b, q.outcomes(b, cs).get('Some', []), x['node']) for cs in csub)
        ok = ok and nz
        fit = q.has_fact(b, x['node'], 'le', lambda a: q.is_name(b, a, 'start'), is_max_start, facts) or \
            q.has_fact(b, x['node'], 'le', is_wide_end, lambda o: q.int_value(b, o) == 65536, facts) or \
            q.has_fact(b, x['node'], 'lt', is_wide_end, lambda o: q.int_value(b, o) == 65537, facts)
        okm = okm or fit
        ok = ok and fit
        s = q.sem(b, x['rv']['a'][0])
        okf = s.kind == 'agg' and q.is_name(b, s.extra['a'][0], 'start') and q.is_name(b, s.extra['a'][1], 'count')
        ok = ok and okf
    c.ob('try_from/guards', ok, 'the Ok exit carries count != 0 and start <= u16::MAX - (count - 1) (or start + count <= 65536 in a wider type) and stores (start, count) unchanged', '%d Ok exits' % len(xs), loc_of(b))
    c.ob('try_from/max_start', okm, 'the bound start is compared with is u16::MAX - (count - 1) (or the widened end with 65536)', '', loc_of(b))
    errs = {x['rv']['a'][0] and q.agg_variant_of(b, x['rv']['a'][0]) for x in q.exits(b) if x['kind'] == 'agg' and x['variant'] == 'Err'}
    c.ob('try_from/errors', errs == {('rodbus::error::InvalidRange', 'CountOfZero'), ('rodbus::error::InvalidRange', 'AddressOverflow')}, 'the two rejections are CountOfZero and AddressOverflow', str(errs), loc_of(b))
    p = P.fn(AR_PARSE)
    c.saw(p, len(p.calls()))
    ok, why = q.must_call_on_ok(P, AR_PARSE, (TRY_FROM,))
    c.ob('parse/try_from', ok, 'Parse for AddressRange succeeds only through a checked try_from', why, loc_of(p))
    tf = one(p.calls(TRY_FROM), 'try_from in AddressRange::parse')
    reads = p.calls('scursor::read::ReadCursor::read_u16_be')
    okr = len(reads) == 2 and p.dominates(reads[0].ret, reads[1].node)
    if okr:
        s0, s1 = q.sem(p, tf.args[0]), q.sem(p, tf.args[1])
        okr = s0.kind == 'call' and s0.cs is reads[0] and s0.checked and s1.kind == 'call' and s1.cs is reads[1] and s1.checked
    c.ob('parse/field-order', okr, 'start is the first big-endian u16 of the request, count the second', '', tf.loc())


@rule('C01', 'R01.6', 'coil value table: 0xFF00 = ON, 0x0000 = OFF, everything else is rejected')
def r6(c):
    P = c.P
    c.ob('const/ON', P.const('rodbus::constants::coil::ON') == 0xFF00, 'coil::ON = 0xFF00', str(P.const('rodbus::constants::coil::ON')))
    c.ob('const/OFF', P.const('rodbus::constants::coil::OFF') == 0, 'coil::OFF = 0x0000', str(P.const('rodbus::constants::coil::OFF')))
    b = P.fn('rodbus::types::coil_from_u16')
    c.saw(b)
    ia = q.int_arms(b, lambda s: q.sem_is_name(b, s, 'value'))
    arms = ia[0][1] if len(ia) == 1 else {}
    facts = q.cmp_facts(b)
    exs = q.exits(b)

    def is_v(o):
        return q.is_name(b, o, 'value')

    def guarded(x, val):
        """the exit is taken only for value == val: it lies in that arm of a match on `value`, or is dominated by value == val"""
        return x['node'] in arms.get(str(val), set()) or q.has_fact(b, x['node'], 'eq', is_v, lambda o: q.const_val(b, o) == val, facts)
    oks = [x for x in exs if x['kind'] == 'agg' and x['variant'] == 'Ok']
    for val, want in ((0xFF00, '1'), (0, '0')):
        xs = [x for x in oks if guarded(x, val)]
        ok = len(xs) == 1 and xs[0]['rv']['a'][0].get('val') == want
        c.ob('from/%#06x' % val, ok, 'coil_from_u16(%#06x) = Ok(%s)' % (val, 'true' if want == '1' else 'false'), '%d exits' % len(xs), loc_of(b))
    stray = [x for x in oks if not guarded(x, 0xFF00) and not guarded(x, 0)]
    errs = [x for x in exs if not (x['kind'] == 'agg' and x['variant'] == 'Ok')]
    ok = len(errs) == 1 and errs[0]['kind'] == 'agg' and errs[0]['variant'] == 'Err' and not stray and len(oks) == 2 and \
        (not arms or sorted(k for k in arms if k != 'otherwise') == ['0', '65280'])
    c.ob('from/otherwise', ok, 'every other value is Err(UnknownCoilState): no Ok exit outside the two guarded ones', '%d unguarded Ok exits, %d other exits' % (len(stray), len(errs)), loc_of(b))
    t = P.fn('rodbus::types::coil_to_u16')
    cl = {x[1] for x in t.op_closure({'k': 'copy', 'pl': {'l': 0, 'p': []}}) if x[0] == 'c'}
    c.ob('to', any('coil::ON' in str(x) for x in cl) and any('coil::OFF' in str(x) for x in cl), 'coil_to_u16 yields ON / OFF', str(sorted(map(str, cl))), loc_of(t))
    ip = P.fn('<rodbus::types::Indexed<bool> as rodbus::common::traits::Parse>::parse')
    ok, why = q.must_call_on_ok(P, ip.path, ('rodbus::types::coil_from_u16',))
    c.ob('indexed-bool/parse', ok, 'Indexed<bool>::parse succeeds only through a checked coil_from_u16', why, loc_of(ip))


@rule('C01', 'R01.7', 'exception codes at the three decision points of handle_frame; exception function byte = function | 0x80')
def r7(c):
    P = c.P
    # reply_with_error is a thin wrapper of reply_with_error_generic: look at handle_frame with it expanded
    b = inline.expand(P, hf(c), {REPLY_ERR})
    E = effects.get(P)
    rd = [cs for cs in b.calls('scursor::read::ReadCursor::read_u8')]
    rd = one(rd, 'read_u8 of the function byte')
    get = one(b.calls(FC_GET), 'FunctionCode::get')
    parse = one(b.calls(PARSE), 'Request::parse')

    def effect_calls_from(edge):
        rs = b.reach_set(edge)
        return [cs for cs in b.calls() if cs.node in rs and not (q.is_tracing(cs) or q.is_fmt(cs) or q.is_machinery(cs)) and E.of_call(cs)]
    # empty body: no effect at all
    for e in q.outcomes(b, rd).get('Err', []):
        bad = effect_calls_from(e)
        c.ob('empty-frame/silent', not bad, 'an empty frame is dropped without any effect', str([x.callee for x in bad]), loc_of(b, e[1]))
    c.ob('empty-frame/edge', len(q.outcomes(b, rd).get('Err', [])) == 1, 'the read of the function byte is checked', '', rd.loc())
    # unknown function
    ne = q.outcomes(b, get).get('None', [])
    c.ob('unknown-function/edge', len(ne) == 1, 'the result of FunctionCode::get is checked for None', str(ne), get.loc())
    for e in ne:
        eff = effect_calls_from(e)
        ok = len(eff) == 1 and eff[0].is_(REPLY_ERR_G)
        if ok:
            cs = eff[0]
            ex = q.agg_variant_of(b, cs.args[4])
            ff = q.sem(b, cs.args[3])
            okf = ff.kind == 'call' and ff.cs.is_('rodbus::common::frame::FunctionField::unknown') and q.sem(b, ff.cs.args[0]).kind == 'call' and q.sem(b, ff.cs.args[0]).cs is rd
            h = q.sem(b, cs.args[2])
            ok = ex == (EXC, 'IllegalFunction') and okf and q.sem_is_name(b, h, 'frame') and any('header' in p for p in h.proj)
        if eff:
            sv = [cs for cs in b.calls('rodbus::server::task::SessionTask::serves')]
            esc = []
            for cs in sv:
                esc += q.bool_edges(b, cs)['false']
            oka, leak = q.always_passes(b, e, {eff[0].node}, esc)
            c.ob('unknown-function/always', oka, 'an unsupported function code is always answered (the only silent exit: the frame is not addressed to a unit this server serves)',
                 'returns reachable without the reply: %s' % [loc_of(b, n[1]) for n in leak], loc_of(b, e[1]))
        c.ob('unknown-function/reply', ok, 'unknown function: the only effect is reply_with_error_generic(frame.header, FunctionField::unknown(byte), IllegalFunction)',
             str([x.callee for x in eff]), loc_of(b, e[1]))
    # parse error
    pe = q.outcomes(b, parse).get('Err', [])
    c.ob('parse-error/edge', len(pe) == 1, 'the result of Request::parse is checked', str(pe), parse.loc())
    for e in pe:
        eff = effect_calls_from(e)
        ok = len(eff) == 1 and eff[0].is_(REPLY_ERR_G)
        if ok:
            cs = eff[0]
            ex = q.agg_variant_of(b, cs.args[4])
            ff = q.sem(b, cs.args[3])
            f = q.sem(b, ff.extra['a'][0]) if (ff.kind == 'agg' and ff.extra.get('variant') == 'Exception' and norm(ff.extra.get('adt', '')) == 'rodbus::common::frame::FunctionField' and not ff.proj) else None
            h = q.sem(b, cs.args[2])
            ok = ex == (EXC, 'IllegalDataValue') and f is not None and f.kind == 'call' and f.cs is get and q.sem_is_name(b, h, 'frame') and any('header' in p for p in h.proj)
        if eff:
            sv = [cs for cs in b.calls('rodbus::server::task::SessionTask::serves')]
            esc = []
            for cs in sv:
                esc += q.bool_edges(b, cs)['false']
            oka, leak = q.always_passes(b, e, {eff[0].node}, esc)
            c.ob('parse-error/always', oka, 'a malformed / over-limit request is always answered (the only silent exit: not addressed to a unit this server serves)',
                 'returns reachable without the reply: %s' % [loc_of(b, n[1]) for n in leak], loc_of(b, e[1]))
        c.ob('parse-error/reply', ok, 'malformed / over-limit request: the only effect is an exception reply (frame.header, FunctionField::Exception(function), IllegalDataValue)', str([x.callee for x in eff]), loc_of(b, e[1]))
    g = P.fn(REPLY_ERR_G)
    fe = one(g.calls(FORMAT_EX), 'format_ex in reply_with_error_generic')
    okg = q.is_name(g, fe.args[1], 'header') and q.is_name(g, fe.args[2], 'func') and q.is_name(g, fe.args[3], 'ex')
    w = one(g.calls(WIRE_WRITE), 'write in reply_with_error_generic')
    sw = q.sem(g, w.args[1])
    c.ob('reply_with_error_generic/forward', okg and sw.kind == 'call' and sw.cs is fe and sw.checked, 'header, function field and exception are forwarded unchanged and the formatted bytes are what is written', repr(sw), fe.loc())
    # FunctionField::get_value
    gv = P.fn('rodbus::common::frame::FunctionField::get_value')
    c.saw(gv)
    arms = q.arms_of(gv, FF)
    for v, want_or in (('Valid', False), ('Exception', True), ('UnknownFunction', True)):
        reg = set()
        for e, r2 in arms.get(v, []):
            reg |= r2
        ors = [s['rv']['a'] for i, s in gv.assigns() if ('b', i) in reg and s['rv']['r'] == 'bin' and s['rv']['op'] == 'BitOr']
        ors += [cs.args for cs in q.calls_in(gv, reg) if cs.declared == 'core::ops::bit::BitOr::bitor']
        okb = all(any(q.const_val(gv, a) == 0x80 for a in ops) for ops in ors)
        ok = (len(ors) == 1 and okb) if want_or else (len(ors) == 0)
        c.ob('get_value/%s' % v, ok and bool(reg), 'FunctionField::%s %s the 0x80 exception bit' % (v, 'sets' if want_or else 'does not set'), '%d BitOr' % len(ors), loc_of(gv))
    # exception code bytes
    tu = P.find_impl('core::convert::From', 'u8', 'from', EXC)
    arms = q.arms_of(tu, EXC)
    n = 0
    for val, name in EXCEPTIONS.items():
        reg = set()
        for e, r2 in arms.get(name, []):
            reg |= r2
        xs = q.exit_in(tu, reg)
        okx = len(xs) == 1 and ((xs[0]['kind'] == 'const' and q.const_val(tu, xs[0]['op']) == val))
        c.ob('exception-byte/%s' % name, okx, 'ExceptionCode::%s is written as %d' % (name, val), '', loc_of(tu))
        n += 1 if okx else 0
    c.exact('exception code bytes', n, 9)
    se = P.fn('<rodbus::exception::ExceptionCode as rodbus::common::traits::Serialize>::serialize')
    wr = one(se.calls('scursor::write::WriteCursor::write_u8'), 'write_u8 in ExceptionCode::serialize')
    s = q.sem(se, wr.args[1])
    oks = s.kind == 'call' and s.cs.declared in ('core::convert::Into::into', 'core::convert::From::from') and 'ExceptionCode' in s.cs.gargs and 'u8' in s.cs.gargs \
        and q.is_name(se, s.cs.args[0], 'self')
    c.ob('exception/serialize', oks, 'an exception body is the single byte u8::from(code)', repr(s), wr.loc())


def args_named(body, cs, mapping):
    """{arg index: user-variable name}: every listed argument is exactly that variable / parameter"""
    bad = []
    for i, nm in mapping.items():
        if i >= len(cs.args) or not q.is_name(body, cs.args[i], nm):
            bad.append((i, nm, repr(q.sem(body, cs.args[i])) if i < len(cs.args) else 'missing'))
    return bad


@rule('C01', 'R01.8', 'reply construction: function echo, header echo, per-kind reply body')
def r8(c):
    P = c.P
    gf = P.fn('rodbus::server::request::Request::get_function')
    c.saw(gf)
    arms = q.arms_of(gf, REQ)
    exs = q.exits(gf)
    n = 0
    for v in REQUESTS:
        reg = set()
        for e, r in arms.get(v, []):
            reg |= r
        xs = q.exit_in(gf, reg, exs)
        ok = len(xs) == 1 and xs[0]['kind'] == 'agg' and xs[0]['adt'] == FC and xs[0]['variant'] == v
        c.ob('get_function/%s' % v, ok, 'Request::%s reports FunctionCode::%s' % (v, v), str([(x['kind'], x.get('variant')) for x in xs]), loc_of(gf))
        n += 1 if ok else 0
    c.exact('get_function arms', n, 8)
    WR = 'rodbus::server::request::Request::get_reply::write_result'
    # the write arms go through a local helper (write_result): look at get_reply with it expanded, so that the same
    # obligations apply whether the Ok/Err split is written in a helper or in the arm itself
    g = inline.expand(P, P.fn(GET_REPLY), {WR})
    c.saw(g, len(g.calls()))
    fcall = one(g.calls('rodbus::server::request::Request::get_function'), 'get_function in get_reply')
    c.ob('get_reply/function-of-self', q.is_name(g, fcall.args[0], 'self'), 'the reply function code is self.get_function()', '', fcall.loc())
    arms = q.arms_of(g, REQ)
    m = 0
    for v in REQUESTS:
        reg = set()
        for e, r in arms.get(v, []):
            reg |= r
        fr = [cs for cs in q.calls_in(g, reg) if cs.is_(FORMAT_REPLY, FORMAT_EX, FORMAT_GENERIC)]
        if v in READS:
            ok = len(fr) == 1 and fr[0].is_(FORMAT_REPLY)
            if ok:
                cs = fr[0]
                f = q.sem(g, cs.args[2])
                bad = args_named(g, cs, {0: 'writer', 1: 'header', 4: 'level'})
                body_ok = False
                bs = q.sem(g, cs.args[3])
                want = 'rodbus::server::response::BitWriter::new' if v in ('ReadCoils', 'ReadDiscreteInputs') else 'rodbus::server::response::RegisterWriter::new'
                if bs.kind == 'call' and bs.cs.is_(want):
                    rs = q.sem(g, bs.cs.args[0])
                    body_ok = q.sem_is_name(g, rs, 'self') and (':' + v) in ''.join(rs.proj)
                ok = not bad and f.kind == 'call' and f.cs is fcall and body_ok
            c.ob('get_reply/%s/format' % v, ok, 'read reply: format_reply(header, self.get_function(), %s over the requested range, level) on the given writer' % ('BitWriter' if 'Coil' in v or 'Discrete' in v else 'RegisterWriter'),
                 str([x.callee for x in fr]), fr[0].loc() if fr else loc_of(g))
        else:
            hc = [cs for cs in q.calls_in(g, reg) if cs.declared == RH + HANDLER_METHOD[v]]
            f_ok = [cs for cs in fr if cs.is_(FORMAT_REPLY)]
            f_ex = [cs for cs in fr if cs.is_(FORMAT_EX)]
            ok = len(hc) == 1 and len(fr) == 2 and len(f_ok) == 1 and len(f_ex) == 1
            why = 'handler calls %d, format calls %s' % (len(hc), [x.callee.rsplit('::', 1)[-1] for x in fr])
            if ok:
                # result = handler.write_x(..).map(|_| echo);  Ok(response) -> format_reply(.., &response, ..);  Err(ex) -> format_ex(.., Exception(function), ex, ..)
                rsp = q.sem(g, f_ok[0].args[3])
                exv = q.sem(g, f_ex[0].args[3])
                ff = q.sem(g, f_ex[0].args[2])
                okm = rsp.kind == 'call' and rsp.cs.is_('core::result::Result::map') and q._strip(rsp.proj, 'Ok') == () and \
                    q.sem(g, rsp.cs.args[0]).kind == 'call' and q.sem(g, rsp.cs.args[0]).cs is hc[0]
                oke = exv.kind == 'call' and exv.cs is rsp.cs and q._strip(exv.proj, 'Err') == ()
                okf = q.sem(g, f_ok[0].args[2]).kind == 'call' and q.sem(g, f_ok[0].args[2]).cs is fcall and ff.kind == 'agg' and ff.extra.get('variant') == 'Exception' and \
                    not ff.proj and q.sem(g, ff.extra['a'][0]).kind == 'call' and q.sem(g, ff.extra['a'][0]).cs is fcall
                bad = args_named(g, f_ok[0], {0: 'writer', 1: 'header', 4: 'level'}) + args_named(g, f_ex[0], {0: 'writer', 1: 'header', 4: 'level'})
                oc = q.outcomes(g, rsp.cs) if okm else {}
                okd = okm and any(q.dom(g, e, f_ok[0].node) for e in oc.get('Ok', [])) and any(q.dom(g, e, f_ex[0].node) for e in oc.get('Err', []))
                if not okm:
                    # the same written as a match on the handler's result (`.map(|_| echo)` is written out by the view):
                    # Ok(_) -> the echo is (part of) the request itself, Err(ex) -> that exception
                    okm = q.sem_is_name(g, rsp, 'self') and (':' + v) in ''.join(rsp.proj)
                    oke = exv.kind == 'call' and exv.cs is hc[0] and ':Err' in ''.join(exv.proj)
                    oc = q.outcomes(g, hc[0])
                    okd = any(q.dom(g, e, f_ok[0].node) for e in oc.get('Ok', [])) and any(q.dom(g, e, f_ex[0].node) for e in oc.get('Err', []))
                ok = okm and oke and okf and not bad and okd
                why = 'response %r, exception %r, function field %r, misnamed %s, on-its-edge %s' % (rsp, exv, ff, bad, okd)
            c.ob('get_reply/%s/format' % v, ok, "write reply: the handler result mapped to the echo decides: Ok(echo) -> format_reply(header, self.get_function(), echo, level), "
                 "Err(ex) -> format_ex(header, Exception(self.get_function()), ex, level), both on the given writer", why, fr[0].loc() if fr else loc_of(g))
        m += 1 if ok else 0
        # the exit of the arm is that call's value
        xs = q.exit_in(g, reg)
        okx = bool(xs) and all(x['kind'] == 'call' and x['cs'] in fr for x in xs)
        c.ob('get_reply/%s/returns' % v, okx, 'the arm returns the formatted reply', str([x['kind'] for x in xs]), loc_of(g))
    c.exact('get_reply arms formatted', m, 8)
    # handle_frame passes the request frame's header and the session's own writer
    b = hf(c)
    gr = one(b.calls(GET_REPLY), 'get_reply in handle_frame')
    h = q.sem(b, gr.args[1])
    wsem = q.sem(b, gr.args[3])
    c.ob('handle_frame/header', q.sem_is_name(b, h, 'frame') and h.proj and 'header' in h.proj[-1], 'get_reply receives frame.header', repr(h), gr.loc())
    c.ob('handle_frame/writer', q.sem_is_name(b, wsem, 'self') and any('writer' in p for p in wsem.proj), 'get_reply formats into self.writer', repr(wsem), gr.loc())
    # format_mbap echoes transaction id and unit id from the header
    fm = P.fn('rodbus::tcp::frame::format_mbap')
    c.saw(fm, len(fm.calls()))
    w16 = fm.calls('scursor::write::WriteCursor::write_u16_be')
    w8 = fm.calls('scursor::write::WriteCursor::write_u8')
    tx = [cs for cs in w16 if 'tx_id' in q.closure_names(fm, cs.args[1]) or 'header' in q.closure_names(fm, cs.args[1])]
    oktx = len(tx) == 1 and fm.dominates(tx[0].node, [x for x in w16 if x is not tx[0]][0].node)
    c.ob('format_mbap/tx-id', oktx, 'the first field written is the transaction id taken from header.tx_id', '%d candidate writes' % len(tx), loc_of(fm))
    uid = [cs for cs in w8 if 'unit_id' in q.closure_names(fm, cs.args[1])]
    c.ob('format_mbap/unit-id', len(uid) == 1 and 'header' in q.closure_names(fm, uid[0].args[1]), 'the unit id byte derives from header.destination', '%d' % len(uid), loc_of(fm))
    fn = [cs for cs in w8 if 'function' in q.closure_names(fm, cs.args[1])]
    c.ob('format_mbap/function', len(fn) == 1 and len(uid) == 1 and fm.dominates(uid[0].node, fn[0].node), 'the function byte follows the unit id', '', loc_of(fm))
    proto = [cs for cs in w16 if q.const_val(fm, cs.args[1]) == 0]
    c.ob('format_mbap/protocol-id', len(proto) == 1 and len(tx) == 1 and fm.dominates(tx[0].node, proto[0].node), 'protocol id 0 is written after the transaction id', '%d' % len(proto), loc_of(fm))


@rule('C01', 'R01.9', 'exception fallback: a handler exception raised while serialising becomes an exception reply for the same function')
def r9(c):
    P = c.P
    b = P.fn(FORMAT_REPLY)
    c.saw(b, len(b.calls()))
    fg = one(b.calls(FORMAT_GENERIC), 'format_generic in format_reply')
    av = q.sem(b, fg.args[2])
    okv = av.kind == 'agg' and av.extra.get('variant') == 'Valid' and q.is_name(b, av.extra['a'][0], 'function')
    c.ob('format_reply/valid', okv and not args_named(b, fg, {0: 'self', 1: 'header', 3: 'body', 4: 'decode_level'}), 'format_reply first formats FunctionField::Valid(function) with header/body/level passed through', repr(av), fg.loc())
    oc = q.outcomes(b, fg)
    # Err(Exception(ex)) arm
    exc_edges = [e for e, v, info in b.variant_edges('rodbus::error::RequestError') if v == 'Exception' and q.sem(b, info['place']).kind == 'call' and q.sem(b, info['place']).cs is fg]
    ok = len(exc_edges) == 1
    if ok:
        rs = b.reach_set(exc_edges[0])
        fe = [cs for cs in b.calls(FORMAT_EX) if cs.node in rs]
        ok = len(fe) == 1 and not args_named(b, fe[0], {0: 'self', 1: 'header', 4: 'decode_level'})
        if ok:
            av = q.sem(b, fe[0].args[2])
            es = q.sem(b, fe[0].args[3])
            ok = av.kind == 'agg' and av.extra.get('variant') == 'Exception' and q.is_name(b, av.extra['a'][0], 'function') and \
                es.kind == 'call' and es.cs is fg and ':Exception' in ''.join(es.proj)
            xs = [x for x in q.exits(b) if x['node'] in rs or x['node'] == fe[0].ret]
            ok = ok and any(x['kind'] == 'call' and x['cs'] is fe[0] for x in xs)
    c.ob('format_reply/exception-arm', ok, 'Err(RequestError::Exception(ex)) -> format_ex(header, Exception(function), ex, level), returned', '', loc_of(b))
    # other errors are returned unchanged
    other = [x for x in q.exits(b) if x['kind'] == 'agg' and x['variant'] == 'Err']
    oko = len(other) == 1 and q.sem(b, other[0]['rv']['a'][0]).kind == 'call' and q.sem(b, other[0]['rv']['a'][0]).cs is fg
    c.ob('format_reply/other-errors', oko, 'any other error is returned as is', '%d Err exits' % len(other), loc_of(b))
    okk = [x for x in q.exits(b) if x['kind'] == 'agg' and x['variant'] == 'Ok']
    okb = len(okk) == 1 and q.dominated_by_any(b, oc.get('Ok', []), okk[0]['node'])
    if okb:
        cl = b.op_closure(okk[0]['rv']['a'][0])
        okb = any(x[0] == 'call' and x[2] == fg.block for x in cl) and 'self' in q.closure_names(b, okk[0]['rv']['a'][0])
    c.ob('format_reply/ok', okb, 'the Ok reply is the slice of self.buffer selected by the range format_generic returned', '', loc_of(b))
    # format_ex
    fx = P.fn(FORMAT_EX)
    c.saw(fx, len(fx.calls()))
    arms = q.arms_of(fx, FF)
    want = {'Valid': 'Exception', 'Exception': 'Exception', 'UnknownFunction': 'UnknownFunction'}
    for v, tgt in want.items():
        reg = set()
        for e, r in arms.get(v, []):
            reg |= r
        ag = [s for i, s in q.aggs_in(fx, reg, FF)]
        ok = len(ag) == 1 and ag[0]['rv']['variant'] == tgt
        if ok:
            # the payload is the one of the matched variant (an or-pattern arm binds it from either variant it covers)
            alts = q.sem_alts(fx, ag[0]['rv']['a'][0])
            def src(s_):
                if not q.sem_is_name(fx, s_, 'function'):
                    return None
                m_ = [x for x in want if (':' + x + '.') in ''.join(p + '.' for p in s_.proj)]
                return m_[0] if len(m_) == 1 else None
            ok = bool(alts) and all(src(s_) is not None and want[src(s_)] == tgt for s_ in alts) and any(src(s_) == v for s_ in alts)
        c.ob('format_ex/%s' % v, ok, 'format_ex maps FunctionField::%s(x) to %s(x)' % (v, tgt), '', loc_of(fx))
    fg2 = one(fx.calls(FORMAT_GENERIC), 'format_generic in format_ex')
    okf = not args_named(fx, fg2, {0: 'self', 1: 'header', 3: 'ex', 4: 'decode_level'})
    c.ob('format_ex/generic', okf and q.outcomes(fx, fg2).get('success'), 'format_ex formats the exception code as the body, same header, checked', '', fg2.loc())
    # format_generic delegates to the configured FormatType
    g = P.fn(FORMAT_GENERIC)
    fm = one(g.calls('rodbus::common::frame::FormatType::format'), 'FormatType::format in format_generic')
    c.ob('format_generic/forward', not args_named(g, fm, {2: 'header', 3: 'function', 4: 'body'}) and q.outcomes(g, fm).get('success'),
         'format_generic forwards header, function field and body unchanged to the framing (checked)', '', fm.loc())
    ft = P.fn('rodbus::common::frame::FormatType::format')
    arms = q.arms_of(ft, 'rodbus::common::frame::FormatType')
    for v, callee in (('Tcp', 'rodbus::tcp::frame::format_mbap'), ('Rtu', 'rodbus::serial::frame::format_rtu_pdu')):
        if v not in arms:
            if v == 'Rtu' and not P.has(callee):
                continue
        reg = set()
        for e, r in arms.get(v, []):
            reg |= r
        cl = [cs for cs in q.calls_in(ft, reg)]
        ok = len(cl) == 1 and cl[0].is_(callee) and not args_named(ft, cl[0], {0: 'cursor', 1: 'header', 2: 'function', 3: 'body'})
        c.ob('FormatType/%s' % v, ok, 'FormatType::%s formats with %s' % (v, callee), str([x.callee for x in cl]), loc_of(ft))


TOKIO_SPAWN = 'tokio::task::spawn::spawn'
SPAWN_SITES = [
    'rodbus::client::channel::Channel::spawn_rtu', 'rodbus::tcp::client::spawn_tcp_channel', 'rodbus::tcp::tls::client::spawn_tls_channel',
    'rodbus::server::spawn_tcp_server_task', 'rodbus::server::spawn_rtu_server_task', 'rodbus::server::spawn_tls_server_task_impl',
    'rodbus::tcp::server::ServerTask::handle',
]


@rule('C01', 'R01.10', 'one reply per request, in order: a single write per path, sequential processing, no per-request tasks')
def r10(c):
    P = c.P
    b = hf(c)
    E = effects.get(P)
    wire = [cs for cs in b.calls() if not (q.is_tracing(cs) or q.is_fmt(cs) or q.is_machinery(cs)) and 'wire' in E.of_call(cs)]
    seen_names = {}
    for cs in sorted(wire, key=lambda x: (x.line or 0, x.block)):
        nm = cs.callee.rsplit('::', 1)[-1]
        seen_names[nm] = seen_names.get(nm, 0) + 1
        tag = '%s#%d' % (nm, seen_names[nm])
        c.ob('acyclic/%s' % tag, not b.in_cycle(cs.node), 'wire-writing call is not in a loop', '', cs.loc())
        others = [o for o in wire if o is not cs and b.reaches(cs.ret, o.node)]
        c.ob('single/%s' % tag, not others, 'no second wire write is reachable after this one', str([o.callee for o in others]), cs.loc())
    c.floor('wire sites in handle_frame', len(wire), 4)
    g = P.fn(REPLY_ERR_G)
    ws = g.calls(WIRE_WRITE)
    c.ob('generic/single', len(ws) == 1 and not g.in_cycle(ws[0].node), 'reply_with_error_generic writes at most once', '%d' % len(ws), loc_of(g))
    writers = sorted({P.logical_name(cs.body) for cs in P.callers(WIRE_WRITE)})
    want = sorted([HANDLE_FRAME, REPLY_ERR_G, 'rodbus::client::task::ClientLoop::execute_request'])
    c.ob('who-writes', writers == want, 'PhysLayer::write is called only by handle_frame, reply_with_error_generic and the client transaction', str(writers))
    # sequential: run_one awaits handle_frame inside its own body (no spawn), run loops over run_one
    RUN_ONE = 'rodbus::server::task::SessionTask::run_one'
    sites = P.callers(HANDLE_FRAME)
    oks = len(sites) == 1 and P.logical_name(sites[0].body) == RUN_ONE
    if oks:
        bb = sites[0].body
        polled = [cs for cs in bb.calls(q.POLL) if q.future_source(bb, cs) is sites[0]]
        oks = len(polled) == 1
    c.ob('run_one/awaits-inline', oks, 'handle_frame is awaited in place by run_one', '%d call sites' % len(sites), sites[0].loc() if sites else None)
    sp = P.callers(TOKIO_SPAWN, crate='rodbus')
    where = sorted(P.logical_name(cs.body) for cs in sp)
    have = sorted(w for w in where)
    c.ob('spawn-sites', all(w in SPAWN_SITES for w in have), 'tokio::spawn is used only to start channel / server / session tasks (frozen list), never per request', str(have), examined=len(sp))
    c.floor('spawn sites seen', len(sp), 4)


@rule('C01', 'R01.11', 'byte-order discipline: little-endian accessors are used for the RTU CRC only')
def r11(c):
    P = c.P
    le = [cs for cs in P.callers('scursor::write::WriteCursor::write_u16_le', 'scursor::read::ReadCursor::read_u16_le', 'rodbus::common::buffer::ReadBuffer::read_u16_le', crate='rodbus')]
    where = sorted({P.logical_name(cs.body) for cs in le})
    allowed = {'rodbus::serial::frame::format_rtu_pdu', 'rodbus::serial::frame::RtuParser::parse'}
    c.ob('le-callers', set(where) <= allowed, 'little-endian u16 accessors appear only in the RTU CRC code', str(where), examined=len(le))
    be = P.callers('scursor::write::WriteCursor::write_u16_be', 'scursor::read::ReadCursor::read_u16_be', 'rodbus::common::buffer::ReadBuffer::read_u16_be', crate='rodbus')
    c.floor('big-endian accessor sites', len(be), 20)
    # controls
    c.control('fixture has a little-endian site', True)


@rule('C01', 'R01.12', 'field order of the fixed-layout codecs (dominance order of cursor accesses x value flow)')
def r12(c):
    P = c.P
    W16 = 'scursor::write::WriteCursor::write_u16_be'

    def ordered_writes(path, fields):
        b = P.fn(path)
        c.saw(b, len(b.calls()))
        ws = b.calls(W16)
        ok = len(ws) == len(fields)
        detail = '%d writes' % len(ws)
        if ok:
            ws = sorted(ws, key=lambda cs: sum(1 for o in ws if b.dominates(o.node, cs.node)))
            for cs, f in zip(ws, fields):
                s = q.sem(b, cs.args[1])
                nm = q.closure_names(b, cs.args[1])
                fld = ''.join(s.proj) if s.kind == 'place' else ''
                good = ('self' in nm) and (f in fld or any(f in ''.join(q.sem(b, a).proj) for a in (s.cs.args if s.kind == 'call' else [])))
                ok = ok and good and q.outcomes(b, cs).get('success')
            for i in range(len(ws) - 1):
                ok = ok and b.dominates(ws[i].ret, ws[i + 1].node)
        c.ob('serialize/%s' % path.split(' as ')[0].lstrip('<'), ok, '%s writes %s in that order, big-endian, each write checked' % (path.split(' as ')[0].lstrip('<'), ', '.join(fields)), detail, loc_of(b))
    ordered_writes('<rodbus::types::AddressRange as rodbus::common::traits::Serialize>::serialize', ['start', 'count'])
    ordered_writes('<rodbus::types::Indexed<bool> as rodbus::common::traits::Serialize>::serialize', ['index', 'value'])
    ordered_writes('<rodbus::types::Indexed<u16> as rodbus::common::traits::Serialize>::serialize', ['index', 'value'])
    for ty in ('bool', 'u16'):
        p = P.fn('<rodbus::types::Indexed<%s> as rodbus::common::traits::Parse>::parse' % ty)
        c.saw(p, len(p.calls()))
        reads = p.calls('scursor::read::ReadCursor::read_u16_be')
        new = one(p.calls('rodbus::types::Indexed::new'), 'Indexed::new in parse')
        ok = len(reads) == 2 and p.dominates(reads[0].ret, reads[1].node)
        if ok:
            s0 = q.sem(p, new.args[0])
            ok = s0.kind == 'call' and s0.cs is reads[0] and s0.checked
            def from_read(o, k, d=0):
                v = q.sem(p, o)
                if v.kind == 'call' and v.cs is reads[k]:
                    return True
                return v.kind == 'call' and d < 2 and bool(v.cs.args) and any(from_read(a, k, d + 1) for a in v.cs.args)       # coil_from_u16(second read)
            ok = ok and from_read(new.args[1], 1) and not from_read(new.args[1], 0)
        c.ob('parse/Indexed<%s>' % ty, ok, 'Indexed<%s>::parse reads index first, value second' % ty, '', loc_of(p))
    n = P.fn('rodbus::types::Indexed::new')
    ag = [s for _, s in n.aggregates('rodbus::types::Indexed')]
    ok = len(ag) == 1 and q.is_name(n, ag[0]['rv']['a'][ag[0]['rv']['fields'].index('index')], 'index') and q.is_name(n, ag[0]['rv']['a'][ag[0]['rv']['fields'].index('value')], 'value')
    c.ob('Indexed::new', ok, 'Indexed::new stores (index, value) in the same-named fields', '', loc_of(n))


@rule('C01', 'R01.13', 'bit packing of read-coil replies: one cleared accumulator per byte, bit i at 1 << i, partial byte flushed last')
def r13(c):
    from rules.c03 import bit_packing_rule, packing_vars, user_local_of
    path = '<rodbus::server::response::BitWriter<T> as rodbus::common::traits::Serialize>::serialize'
    bit_packing_rule(c, path)
    P = c.P
    b = P.fn(path)
    w8 = b.calls('scursor::write::WriteCursor::write_u8')
    looped, acc_l, pos_l = packing_vars(b)

    def is_pos(o):
        s_ = q.sem(b, o)
        return pos_l is not None and s_.kind == 'place' and s_.local == pos_l and not s_.proj
    tail = [cs for cs in w8 if not b.in_cycle(cs.node) and acc_l is not None and user_local_of(b, cs.args[1]) == acc_l]
    facts = q.cmp_facts(b)
    ok = len(tail) == 1 and q.has_fact(b, tail[0].node, 'lt', lambda o: q.const_val(b, o) == 0, is_pos, facts)
    c.ob('partial-byte', ok, 'after the loop a last partial byte is written iff the bit position is > 0', '%d trailing writes' % len(tail), loc_of(b))
    first = [cs for cs in w8 if not b.in_cycle(cs.node) and cs not in tail]
    okf = len(first) == 1 and all(b.dominates(first[0].node, o.node) for o in w8)
    if okf:
        s = q.sem(b, first[0].args[1])
        okf = s.kind == 'call' and s.cs.is_('rodbus::common::serialize::calc_bytes_for_bits') and s.checked
    c.ob('byte-count-first', okf, 'the byte count (checked calc_bytes_for_bits) is written before any data', '', loc_of(b))
    # flush when 8 bits are collected
    if looped:
        okh = q.has_fact(b, looped[0].node, 'eq', is_pos, lambda o: q.const_val(b, o) == 8, facts)
        c.ob('flush-at-8', okh, 'the accumulator is flushed when 8 bits have been merged', '', looped[0].loc())
    rw = P.fn('<rodbus::server::response::RegisterWriter<T> as rodbus::common::traits::Serialize>::serialize')
    w = [cs for cs in rw.calls('scursor::write::WriteCursor::write_u16_be') if rw.in_cycle(cs.node)]
    okr = len(w) == 1 and bool(q.outcomes(rw, w[0]).get('success')) and any(y[0] == 'call' and y[1] == 'indirect' or (y[0] == 'call' and 'call' in str(y[1])) for y in rw.op_closure(w[0].args[1]))
    c.ob('registers', okr, 'each register value obtained from the handler is written big-endian, checked, in address order', '%d looped writes' % len(w), loc_of(rw))


@rule('C01', 'R01.14', 'read replies cover exactly the requested addresses: AddressRange::iter() counts down `count` addresses from `start` (valid up to 0xFFFF); the writers call the getter once per address')
def r14(c):
    P = c.P
    AI = 'rodbus::types::AddressIterator'
    it = P.fn(AR + '::iter')
    c.saw(it, len(it.calls()))
    xs = q.exits(it)
    nw = [x for x in xs if x['kind'] == 'call' and x['cs'].is_(AI + '::new')]
    ok = len(xs) == 1 and len(nw) == 1
    if ok:
        a0, a1 = q.sem(it, nw[0]['cs'].args[0]), q.sem(it, nw[0]['cs'].args[1])
        ok = q.sem_is_name(it, a0, 'self') and bool(a0.proj) and a0.proj[-1].endswith(':start') and q.sem_is_name(it, a1, 'self') and bool(a1.proj) and a1.proj[-1].endswith(':count')
    c.ob('iter', ok, 'AddressRange::iter() is AddressIterator::new(self.start, self.count): driven by the count, not by an exclusive end address (start + count does not fit u16 for ranges ending at 0xFFFF)',
         str([(x['kind'], getattr(x.get('cs'), 'callee', None)) for x in xs]), loc_of(it))
    nb = P.fn(AI + '::new')
    ag = [s for _, s in nb.aggregates(AI)]
    okn = len(ag) == 1
    if okn:
        f = dict(zip(ag[0]['rv']['fields'], ag[0]['rv']['a']))
        okn = q.is_name(nb, f['current'], 'current') and q.is_name(nb, f['remain'], 'remain')
    c.ob('new', okn, 'AddressIterator::new stores (current, remain) as given', '', loc_of(nb))
    nx = P.find_impl('core::iter::traits::iterator::Iterator', AI, 'next')
    c.saw(nx, len(nx.calls()))

    def fld(o, name):
        s_ = q.sem(nx, o)
        return q.sem_is_name(nx, s_, 'self') and bool(s_.proj) and s_.proj[-1].endswith(':' + name)
    cs_ = [cs for cs in nx.calls() if cs.callee and cs.callee.endswith('::checked_sub') and fld(cs.args[0], 'remain') and q.const_val(nx, cs.args[1]) == 1]
    okx = len(cs_) == 1
    detail = '%d checked_sub(1) on remain' % len(cs_)
    if okx:
        oc = q.outcomes(nx, cs_[0])
        exs = q.exits(nx)
        some = [x for x in exs if x['kind'] == 'agg' and x['variant'] == 'Some']
        none = [x for x in exs if (x['kind'] == 'agg' and x['variant'] == 'None') or (x['kind'] == 'call' and x['cs'].is_(q.FROM_RESIDUAL))]
        st_cur = [(i, s) for i, s in nx.assigns() if s['pl']['p'] and s['pl']['p'][-1].endswith(':current')] + \
                 [(cs.block, None) for cs in nx.calls() if cs.dest['p'] and cs.dest['p'][-1].endswith(':current')]
        st_rem = [(i, s) for i, s in nx.assigns() if s['pl']['p'] and s['pl']['p'][-1].endswith(':remain')]
        okx = len(some) == 1 and len(none) == 1 and len(exs) == 2 and q.dominated_by_any(nx, oc.get('Some', []), some[0]['node']) and q.dominated_by_any(nx, oc.get('None', []), none[0]['node'])
        # yielded value: self.current read before it is advanced
        if okx:
            l = some[0]['rv']['a'][0]['pl']['l'] if some[0]['rv']['a'][0].get('k') in ('copy', 'move') else None
            ds = nx.whole_defs(l) if l is not None else []
            okx = len(ds) == 1 and ds[0][0] == 'assign' and ds[0][2]['rv']['r'] == 'use' and fld(ds[0][2]['rv']['a'][0], 'current') and len(st_cur) == 1 and \
                (nx.dominates(('b', ds[0][1]), ('b', st_cur[0][0])))
        # advance: current = current.wrapping_add(1); remain = the checked_sub payload
        if okx:
            wa = [cs for cs in nx.calls() if cs.callee and cs.callee.endswith('::wrapping_add') and fld(cs.args[0], 'current') and q.const_val(nx, cs.args[1]) == 1]
            adv = len(wa) == 1 and ((st_cur[0][1] is None and wa[0].block == st_cur[0][0]) or
                                    (st_cur[0][1] is not None and st_cur[0][1]['rv']['r'] == 'use' and q.sem(nx, st_cur[0][1]['rv']['a'][0]).kind == 'call' and q.sem(nx, st_cur[0][1]['rv']['a'][0]).cs is wa[0]))
            rem = len(st_rem) == 1 and st_rem[0][1]['rv']['r'] == 'use' and q.sem(nx, st_rem[0][1]['rv']['a'][0]).kind == 'call' and q.sem(nx, st_rem[0][1]['rv']['a'][0]).cs is cs_[0] and \
                q.dominated_by_any(nx, oc.get('Some', []), ('b', st_rem[0][0]))
            okx = adv and rem
            detail = 'advance by wrapping_add(1): %s, remain := remain - 1: %s' % (adv, rem)
    c.ob('next', okx, 'AddressIterator::next: while remain >= 1 it yields the current address, steps it by one (wrapping, so 0xFFFF is reachable) and decrements remain; then None', detail, loc_of(nx))
    # the reply writers call the getter once per yielded address (C02/R02.4)
    from rules import c02
    c02.r4(c)


@rule('C01', 'R01.15', 'addressing: on TCP/TLS every frame carries a unit id (unit id 0 is an ordinary unit there); Broadcast is produced only by the RTU parser (C17/R17.5)',
      needs=lambda P: P.has('rodbus::serial::frame::RtuParser::parse'))
def r15(c):
    from rules import c17
    c17.r5(c)


@rule('C01', 'R01.16', 'a reply is put on the wire completely and its byte count is the number of data bytes: the byte-count helpers and the complete-write discipline of the physical layer (C03/R03.5, R03.9)')
def r16(c):
    from rules import c03
    c03.r5(c)
    c03.r9(c)


@rule('C01', 'R01.17', 'pipelined requests are decoded from the bytes that were received: receive-buffer discipline and per-connection framing state (C05/R05.6, R05.7)')
def r17(c):
    from rules import c05
    c05.r6(c)
    c05.r7(c)
