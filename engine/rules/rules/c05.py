"""C05 — MBAP framing: only complete units are consumed, malformed headers are refused, errors end the session
(structural necessary conditions; equality of frame sequences over all chunkings is NOT decided)."""
from core import rule, loc_of
from facts import AnchorLost, norm
import q, effects
from tables import *
from rules.c08 import one

MP = 'rodbus::tcp::frame::MbapParser'
PARSE = MP + '::parse'
PARSE_HEADER = MP + '::parse_header'
PARSE_BODY = MP + '::parse_body'
RB = 'rodbus::common::buffer::ReadBuffer'
NEXT_FRAME = 'rodbus::common::frame::FramedReader::next_frame'
FP = 'rodbus::common::frame::FrameParser'
PS = 'rodbus::tcp::frame::ParseState'
FPE = 'rodbus::error::FrameParseError'


def len_ge_fact(b, node, facts, rhs_pred):
    """a dominating edge carries cursor.len() >= X, i.e. (X <= len)"""
    def is_len(o):
        s = q.sem(b, o)
        return s.kind == 'call' and s.cs.is_(RB + '::len') and q.is_name(b, s.cs.args[0], 'cursor')
    return q.has_fact(b, node, 'le', rhs_pred, is_len, facts)


@rule('C05', 'R05.1', 'consume-when-complete: header and body are only read once the buffer holds all of them')
def r1(c):
    P = c.P
    b = P.fn(PARSE)
    c.saw(b, len(b.calls()))
    facts = q.cmp_facts(b)
    ph = one(b.calls(PARSE_HEADER), 'parse_header call')
    pb = one(b.calls(PARSE_BODY), 'parse_body call')
    c.ob('header/complete', len_ge_fact(b, ph.node, facts, lambda o: q.const_def(b, o) == 'rodbus::tcp::frame::constants::HEADER_LENGTH' or q.const_val(b, o) == 7),
         'parse_header runs only when cursor.len() >= HEADER_LENGTH', '', ph.loc())
    c.ob('const/HEADER_LENGTH', P.const('rodbus::tcp::frame::constants::HEADER_LENGTH') == 7, 'HEADER_LENGTH = 7', str(P.const('rodbus::tcp::frame::constants::HEADER_LENGTH')))

    def header_part(o, idx):
        """the operand is component idx of the header being received: of the Header state, or of what parse_header just
        returned (which is what gets stored) -- every definition that can reach the use must be one of the two"""
        alts = q.sem_alts(b, o)
        def one_ok(s):
            j = ''.join(s.proj)
            if q.sem_is_name(b, s, 'self') and ':Header' in j and ('field:%d:' % idx) in j:
                return True
            return s.kind == 'call' and s.cs is ph and q.has_success(s.proj) and s.proj and s.proj[-1].startswith('field:%d:' % idx)
        return bool(alts) and all(one_ok(s) for s in alts)

    def is_adu(o):
        return header_part(o, 1)
    c.ob('body/complete', len_ge_fact(b, pb.node, facts, is_adu), 'parse_body runs only when cursor.len() >= the ADU length of the header being received', '', pb.loc())
    s = q.sem(b, pb.args[1])
    c.ob('body/length', is_adu(pb.args[1]), 'parse_body is asked for exactly that ADU length', repr(q.sem_alts(b, pb.args[1])), pb.loc())
    h = q.sem(b, pb.args[0])
    c.ob('body/header', header_part(pb.args[0], 0), 'parse_body gets the header being received', repr(q.sem_alts(b, pb.args[0])), pb.loc())
    # incomplete -> Ok(None) without consuming: the complementary edges reach no cursor-consuming call
    consuming = (RB + '::read', RB + '::read_u8', RB + '::read_u16_be', RB + '::read_u16_le')
    inparse = [cs for cs in b.calls(*consuming)]
    c.ob('no-direct-consumption', not inparse, 'MbapParser::parse itself never consumes bytes (only parse_header / parse_body do)', str([x.callee for x in inparse]), loc_of(b))
    users = sorted({P.logical_name(cs.body) for cs in P.callers(*consuming) if 'rodbus::tcp::frame' in cs.body.path})
    c.ob('consumers', set(users) <= {PARSE_HEADER, PARSE_BODY}, 'in tcp::frame only parse_header and parse_body consume buffer bytes', str(users))
    # parse_body consumes exactly adu_length bytes
    pbb = P.fn(PARSE_BODY)
    c.saw(pbb, len(pbb.calls()))
    rd = one(pbb.calls(RB + '::read'), 'cursor.read in parse_body')
    c.ob('parse_body/read', q.is_name(pbb, rd.args[1], 'adu_length') and q.is_name(pbb, rd.args[0], 'cursor') and q.outcomes(pbb, rd).get('success'), 'parse_body reads exactly adu_length bytes (checked)', '', rd.loc())
    st = one(pbb.calls('rodbus::common::frame::Frame::set'), 'frame.set')
    ss = q.sem(pbb, st.args[1])
    c.ob('parse_body/set', ss.kind == 'call' and ss.cs is rd, 'the frame payload is exactly the bytes read', repr(ss), st.loc())
    nh = one(pbb.calls('rodbus::common::frame::FrameHeader::new_tcp_header'), 'new_tcp_header')
    a0, a1 = q.sem(pbb, nh.args[0]), q.sem(pbb, nh.args[1])
    c.ob('parse_body/header', q.sem_is_name(pbb, a0, 'header') and a0.proj[-1].endswith(':unit_id') and q.sem_is_name(pbb, a1, 'header') and a1.proj[-1].endswith(':tx_id'),
         'the frame header carries the unit id and transaction id of the MBAP header', '%r %r' % (a0, a1), nh.loc())


@rule('C05', 'R05.2', 'header validation: protocol id 0, length 1..=254, else the frame is refused')
def r2(c):
    P = c.P
    b = P.fn(PARSE_HEADER)
    c.saw(b, len(b.calls()))
    facts = q.cmp_facts(b)
    c.ob('const/MAX_LENGTH_FIELD', P.const('rodbus::tcp::frame::constants::MAX_LENGTH_FIELD') == 254, 'MAX_LENGTH_FIELD = 254', str(P.const('rodbus::tcp::frame::constants::MAX_LENGTH_FIELD')))
    reads = sorted(b.calls(RB + '::read_u16_be', RB + '::read_u8'), key=lambda cs: sum(1 for o in b.calls(RB + '::read_u16_be', RB + '::read_u8') if b.dominates(o.node, cs.node)))
    shape = [cs.callee.rsplit('::', 1)[-1] for cs in reads]
    c.ob('layout', shape == ['read_u16_be', 'read_u16_be', 'read_u16_be', 'read_u8'] and all(q.outcomes(b, cs).get('success') for cs in reads),
         'the header is read as u16 u16 u16 u8 (7 bytes = HEADER_LENGTH), every read checked', str(shape), loc_of(b))
    if shape != ['read_u16_be', 'read_u16_be', 'read_u16_be', 'read_u8']:
        return
    r_tx, r_proto, r_len, r_unit = reads
    xs = [x for x in q.exits(b) if x['kind'] == 'agg' and x['variant'] == 'Ok']
    ok = bool(xs)

    def from_read(r, allow_cast=True):
        def p(o):
            s = q.sem(b, o)
            guard = 0
            while allow_cast and guard < 3:
                guard += 1
                if s.kind == 'cast':                  # `x as usize`
                    s = s.extra[0]
                elif s.kind == 'call' and s.cs.declared in ('core::convert::From::from', 'core::convert::Into::into') and len(s.cs.args) == 1 and \
                        not s.proj and 'usize' in (s.cs.resolved or '') + (s.cs.gargs or ''):      # `usize::from(x)`
                    s = q.sem(b, s.cs.args[0])
                else:
                    break
            return s.kind == 'call' and s.cs is r
        return p
    cs_sub = [cs for cs in b.calls() if cs.callee.endswith('::checked_sub')]
    for x in xs:
        ok1 = q.has_fact(b, x['node'], 'eq', from_read(r_proto), lambda o: q.const_val(b, o) == 0, facts)
        ok2 = q.has_fact(b, x['node'], 'le', from_read(r_len), lambda o: q.const_def(b, o) == 'rodbus::tcp::frame::constants::MAX_LENGTH_FIELD' or q.const_val(b, o) == 254, facts)
        ok3 = len(cs_sub) == 1 and q.dominated_by_any(b, q.outcomes(b, cs_sub[0]).get('success', []), x['node']) and from_read(r_len)(cs_sub[0].args[0]) and q.const_val(b, cs_sub[0].args[1]) == 1
        c.ob('ok/protocol-id', ok1, 'the Ok exit carries protocol_id == 0 (second u16 of the header)', '', loc_of(b, x['node'][1]))
        c.ob('ok/length-max', ok2, 'the Ok exit carries length <= MAX_LENGTH_FIELD (third u16 of the header)', '', loc_of(b, x['node'][1]))
        c.ob('ok/length-nonzero', ok3, 'the Ok exit is dominated by the checked length.checked_sub(1)', '%d checked_sub sites' % len(cs_sub), loc_of(b, x['node'][1]))
        # returned tuple: (MbapHeader{tx_id, len_field, unit_id}, adu_length)
        tup = q.sem(b, x['rv']['a'][0])
        okt = tup.kind == 'agg' and tup.extra.get('tuple')
        if okt:
            adu = q.sem(b, tup.extra['a'][1])
            okt = adu.kind == 'call' and adu.cs is cs_sub[0] if cs_sub else False
            hd = q.sem(b, tup.extra['a'][0])
            if okt and hd.kind == 'agg':
                rv = hd.extra
                f = dict(zip(rv['fields'], rv['a']))
                t = q.sem(b, f['tx_id'])
                okt = t.kind == 'call' and t.cs.is_('rodbus::common::frame::TxId::new') and from_read(r_tx)(t.cs.args[0])
                u = q.sem(b, f['unit_id'])
                okt = okt and u.kind == 'call' and u.cs.is_('rodbus::types::UnitId::new') and from_read(r_unit)(u.cs.args[0])
            else:
                okt = False
        c.ob('ok/fields', okt, 'tx id = 1st u16, unit id = 7th byte, ADU length = length - 1', '', loc_of(b, x['node'][1]))
    c.ob('ok-exits', len(xs) == 1, 'parse_header has one Ok exit', str(len(xs)), loc_of(b))
    errs = set()
    for i, s in b.aggregates(FPE):
        errs.add(s['rv']['variant'])
    c.ob('errors', errs == {'UnknownProtocolId', 'FrameLengthTooBig', 'MbapLengthZero'}, 'the three refusals are UnknownProtocolId, FrameLengthTooBig, MbapLengthZero', str(sorted(errs)), loc_of(b))


@rule('C05', 'R05.3', 'parser state discipline: Begin -> Header(checked header) -> Begin on a complete frame; reset = Begin')
def r3(c):
    P = c.P
    import inline
    # (looked at with MbapParser::reset written out: `self.state = Begin` and `self.reset()` are the same statement)
    b = inline.expand(P, P.fn(PARSE), {'rodbus::tcp::frame::MbapParser::reset'})
    ph = one(b.calls(PARSE_HEADER), 'parse_header call')
    pb = one(b.calls(PARSE_BODY), 'parse_body call')
    # assignments to self.state
    st = [(i, s) for i, s in b.assigns() if s['pl']['p'] and s['pl']['p'][-1].endswith(':state') and q.sem_is_name(b, q.sem(b, {'l': s['pl']['l'], 'p': s['pl']['p'][:-1]}), 'self')]
    kinds = []
    for i, s in st:
        v = q.sem(b, s['rv']['a'][0]) if s['rv']['r'] == 'use' else None
        if s['rv']['r'] == 'agg':
            kinds.append((i, s, s['rv']['variant'], s['rv']))
        elif v is not None and v.kind == 'agg':
            kinds.append((i, s, v.extra.get('variant'), v.extra))
        else:
            kinds.append((i, s, '?', None))
    c.ob('state-writes', sorted(k[2] for k in kinds) == ['Begin', 'Header'], 'parse assigns self.state exactly twice: Begin and Header(..)', str([k[2] for k in kinds]), loc_of(b))
    for i, s, k, rv in kinds:
        if k == 'Begin':
            c.ob('begin-after-body', q.dominated_by_any(b, q.outcomes(b, pb).get('success', []), ('b', i)), 'state := Begin only after parse_body succeeded', '', loc_of(b, i, stmt=s))
            xs = [x for x in q.exits(b) if x['kind'] == 'agg' and x['variant'] == 'Ok' and q.agg_variant_of(b, x['rv']['a'][0]) == ('core::option::Option', 'Some')]
            c.ob('frame-exit-after-begin', bool(xs) and all(b.dominates(('b', i), x['node']) for x in xs), 'every Ok(Some(frame)) exit is dominated by state := Begin', '%d exits' % len(xs), loc_of(b))
            for x in xs:
                inner = q.sem(b, x['rv']['a'][0])
                fr = q.sem(b, inner.extra['a'][0]) if inner.kind == 'agg' else None
                c.ob('frame-exit-value', fr is not None and fr.kind == 'call' and fr.cs is pb and fr.checked, 'the frame returned is the checked result of parse_body', repr(fr), loc_of(b, x['node'][1]))
        if k == 'Header':
            ok = q.dominated_by_any(b, q.outcomes(b, ph).get('success', []), ('b', i))
            h, n = q.sem(b, rv['a'][0]), q.sem(b, rv['a'][1])
            ha, na = q.sem_alts(b, rv['a'][0]), q.sem_alts(b, rv['a'][1])
            ok = ok and bool(ha) and bool(na) and all(x.kind == 'call' and x.cs is ph and 'field:0' in ''.join(x.proj) for x in ha) and \
                all(x.kind == 'call' and x.cs is ph and 'field:1' in ''.join(x.proj) for x in na)
            c.ob('header-state', ok, 'state := Header(header, adu_len) stores exactly the checked parse_header result', '%r %r' % (h, n), loc_of(b, i, stmt=s))
    r = P.fn(MP + '::reset')
    ag = [s for _, s in r.aggregates(PS)]
    c.ob('reset', len(ag) == 1 and ag[0]['rv']['variant'] == 'Begin', 'MbapParser::reset returns the parser to Begin', '', loc_of(r))
    n = P.fn(MP + '::new')
    ag = [s for _, s in n.aggregates(PS)]
    c.ob('new', len(ag) == 1 and ag[0]['rv']['variant'] == 'Begin', 'a new parser starts in Begin', '', loc_of(n))
    a = P.adt(MP)
    c.ob('state-private', all(f['vis'] != 'Public' for v in a['variants'] for f in v['fields']), 'the parser state is private', '')
    stw = []
    for bb in P.all_bodies(crate='rodbus'):
        if bb.path.startswith('rodbus::tcp::frame::') and P.logical_name(bb) not in (PARSE, MP + '::reset', MP + '::new'):
            for i, s in bb.aggregates(PS):
                stw.append(bb.path)
    c.ob('state-writers', not stw, 'ParseState values are built only in parse / reset / new', str(stw))


@rule('C05', 'R05.4', 'reader loop: frame -> return it; incomplete -> read more (checked) and retry; error -> reset the parser and end')
def r4(c):
    P = c.P
    b = P.fn(NEXT_FRAME)
    c.saw(b, len(b.calls()))
    pr = one(b.calls(FP + '::parse'), 'parser.parse in next_frame')
    oc = q.outcomes(b, pr)
    rs = one(b.calls(RB + '::read_some'), 'read_some in next_frame')
    resets = b.calls(FP + '::reset')
    c.ob('parse/args', q.sem_is_name(b, q.sem(b, pr.args[0]), 'self') and q.sem_is_name(b, q.sem(b, pr.args[1]), 'self') and any('buffer' in p for p in q.sem(b, pr.args[1]).proj),
         'the parser works on the reader\'s own buffer', '', pr.loc())
    c.ob('loop', b.in_cycle(pr.node) and b.in_cycle(rs.node) and b.cycle_of(pr.node) == b.cycle_of(rs.node), 'parse and read_some alternate in one loop', '', pr.loc())
    # Err edge: reset then return the error
    err = oc.get('Err', [])
    c.ob('err-edge', len(err) >= 1, 'the parse result is examined for Err', str(err), pr.loc())
    for cs in resets:
        c.ob('reset/on-error-only', q.dominated_by_any(b, err, cs.node), 'parser.reset() runs only on the Err edge of parse (a cancelled or incomplete read keeps the header state)', '', cs.loc())
    c.floor('reset sites', len(resets), 1)
    # wherever the error is first noticed (a match arm, `is_err()`, `?`): from there the loop is left with that error
    first = [e for e in err if not any(o is not e and e in b.reach_set(o) for o in err)]
    for e in first:
        reach = q.reach_from_outcome(b, pr, e, oc)
        c.ob('err/no-retry', pr.node not in reach and rs.node not in reach, 'after a framing error the loop is left (no further parsing / reading)', '', loc_of(b, e[1]))
        xs = [x for x in q.exits(b) if x['node'] in reach]
        okx = bool(xs)
        for x in xs:
            if x['kind'] == 'agg':
                okx = okx and x['variant'] == 'Err' and q.sem(b, x['rv']['a'][0]).kind == 'call' and q.sem(b, x['rv']['a'][0]).cs is pr
            else:
                ev = q.exit_error(b, x)
                direct = ev is not None and ev[0] == 'call' and ev[1] is pr
                # ... or handed on through a helper / adapter that rebuilds the Err (`.map_err(|e| { reset(); e })?`)
                via = x['kind'] == 'call' and x['cs'].is_(q.FROM_RESIDUAL) and bool(x['cs'].args) and q.may_be_error_of(b, x['cs'].args[0], pr.callee)
                okx = okx and q.exit_is_failure(b, x) and (direct or via)
        c.ob('err/returned', okx and any(cs.node in reach for cs in resets), 'the error returned is the parser\'s error, after reset', '', loc_of(b, e[1]))
    # Ok(None): read more, checked
    okn = [e for e, v, info in b.variant_edges('core::option::Option') if v == 'None' and q.sem(b, info['place']).kind == 'call' and q.sem(b, info['place']).cs is pr]
    oks = [e for e, v, info in b.variant_edges('core::option::Option') if v == 'Some' and q.sem(b, info['place']).kind == 'call' and q.sem(b, info['place']).cs is pr]
    c.ob('none->read', len(okn) == 1 and q.dominated_by_any(b, okn, rs.node), 'read_some is called only when the parser needs more data', str(okn), rs.loc())
    c.ob('read/checked', bool(q.outcomes(b, rs).get('success')) and q.sem_is_name(b, q.sem(b, rs.args[0]), 'self') and q.is_name(b, rs.args[1], 'io'), 'read_some result is checked (I/O errors end next_frame) and it fills the same buffer from `io`', '', rs.loc())
    for e in oks:
        reach = b.reach_set(e)
        c.ob('some->return', pr.node not in reach and rs.node not in reach, 'a complete frame is returned at once', '', loc_of(b, e[1]))
    # FrameParser dispatch
    for fnm in ('parse', 'reset'):
        fb = P.fn(FP + '::' + fnm)
        arms = q.arms_of(fb, FP)
        for v, tgt in (('Tcp', MP + '::' + fnm), ('Rtu', 'rodbus::serial::frame::RtuParser::' + fnm)):
            if v == 'Rtu' and not P.has(tgt):
                continue
            reg = set()
            for e, r_ in arms.get(v, []):
                reg |= r_
            cl = q.calls_in(fb, reg)
            c.ob('FrameParser::%s/%s' % (fnm, v), len(cl) == 1 and cl[0].is_(tgt), 'FrameParser::%s dispatches %s to %s' % (fnm, v, tgt), str([x.callee for x in cl]), loc_of(fb))


@rule('C05', 'R05.5', 'a framing error ends the session in both roles')
def r5(c):
    P = c.P
    b = P.fn('rodbus::client::task::SessionError::from_request_err')
    arms = q.arms_of(b, 'rodbus::error::RequestError')
    exs = q.exits(b)
    want = {'Io': 'IoError', 'BadFrame': 'BadFrame'}
    for v, tgt in want.items():
        reg = set()
        for e, r_ in arms.get(v, []):
            reg |= r_
        xs = q.exit_in(b, reg, exs)
        ok = len(xs) == 1 and xs[0]['kind'] == 'agg' and xs[0]['variant'] == 'Some'
        if ok:
            inner = q.sem(b, xs[0]['rv']['a'][0])
            ok = inner.kind == 'agg' and inner.extra.get('variant') == tgt
        c.ob('from_request_err/%s' % v, ok, 'RequestError::%s ends the client session as SessionError::%s' % (v, tgt), '', loc_of(b))
    others = [x for x in exs if x['kind'] == 'agg' and x['variant'] == 'None']
    c.ob('from_request_err/other', len(others) == 1, 'all other request errors leave the session running', str(len(others)), loc_of(b))
    # server: SessionTask::run returns on any error of run_one; run_one propagates next_frame errors with `?`
    run = P.fn('rodbus::server::task::SessionTask::run')
    ro = one(run.calls('rodbus::server::task::SessionTask::run_one'), 'run_one in run')
    err = q.outcomes(run, ro).get('Err', [])
    okr = len(err) == 1 and run.in_cycle(ro.node) and ro.node not in run.reach_set(err[0]) and bool(run.reach_set(err[0]) & {('b', i_) for i_ in run.return_blocks()})
    c.ob('server/run', okr, 'SessionTask::run leaves its loop on the first Err of run_one', '', ro.loc())
    r1_ = P.fn('rodbus::server::task::SessionTask::run_one')
    nf = one(r1_.calls(NEXT_FRAME), 'next_frame in run_one')
    hfc = one(r1_.calls(HANDLE_FRAME), 'handle_frame in run_one')
    c.ob('server/run_one', q.dominated_by_any(r1_, q.outcomes(r1_, nf).get('success', []), hfc.node), 'handle_frame is dominated by the success edge of the checked next_frame', '', hfc.loc())
    fr = q.sem(r1_, hfc.args[2])
    c.ob('server/run_one/frame', fr.kind == 'call' and fr.cs is nf and fr.checked, 'the frame handled is the one next_frame returned', repr(fr), hfc.loc())
    # client: run returns on Err of poll; poll maps next_frame errors through from_request_err
    crun = P.fn('rodbus::client::task::ClientLoop::run')
    po = one(crun.calls('rodbus::client::task::ClientLoop::poll'), 'poll in ClientLoop::run')
    err = q.outcomes(crun, po).get('Err', [])
    c.ob('client/run', len(err) == 1 and crun.in_cycle(po.node) and po.node not in crun.reach_set(err[0]), 'ClientLoop::run leaves its loop on the first Err of poll', '', po.loc())
    # reconnect arm in the TCP channel task groups BadFrame with IoError
    rc = P.fn('rodbus::tcp::client::TcpChannelTask::run_connection')
    arms = q.arms_of(rc, 'rodbus::client::task::SessionError')
    def target(v):
        for e, r_ in arms.get(v, []):
            return q._trivial_target(rc, e)
        return None
    c.ob('client/reconnect', target('BadFrame') is not None and target('BadFrame') == target('IoError'), 'BadFrame is handled like an I/O error (disconnect and reconnect)', '%s / %s' % (target('BadFrame'), target('IoError')), loc_of(rc))


@rule('C05', 'R05.6', 'receive buffer discipline: private indices, EOF is an error, compaction keeps exactly the unread bytes')
def r6(c):
    P = c.P
    a = P.adt(RB)
    c.ob('private', all(f['vis'] != 'Public' for v in a['variants'] for f in v['fields']), 'ReadBuffer fields are private', str([(f['name'], f['vis']) for v in a['variants'] for f in v['fields']]))
    bt = [f['ty'] for v in a['variants'] for f in v['fields'] if f['name'] == 'buffer']
    c.ob('capacity', bt == ['[u8; 260]'], 'the receive buffer holds one maximum-size frame (260 bytes)', str(bt))
    # who assigns begin / end
    writers = {'begin': set(), 'end': set()}
    for bb in P.all_bodies(crate='rodbus'):
        if not bb.path.startswith(RB + '::'):
            continue
        for i, s in bb.assigns():
            pl = s['pl']
            if pl['p'] and pl['p'][-1].startswith('field:'):
                nm = pl['p'][-1].split(':', 2)[2]
                if nm in writers and q.sem_is_name(bb, q.sem(bb, {'l': pl['l'], 'p': pl['p'][:-1]}), 'self'):
                    writers[nm].add(P.logical_name(bb))
    c.ob('end-writers', writers['end'] <= {RB + '::read_some', RB + '::clear'} and RB + '::read_some' in writers['end'], 'only read_some (and clear) assign `end`', str(sorted(writers['end'])))
    c.ob('begin-writers', writers['begin'] <= {RB + '::read_some', RB + '::read', RB + '::read_u8', RB + '::clear'} and RB + '::read' in writers['begin'],
         'only read / read_u8 advance `begin` (read_some rebases it, clear zeroes it)', str(sorted(writers['begin'])))
    if P.has(RB + '::clear'):
        cb = P.fn(RB + '::clear')
        st = [(s_['pl']['p'][-1].split(':', 2)[2], q.const_val(cb, s_['rv']['a'][0]) if s_['rv']['r'] == 'use' else None) for _, s_ in cb.assigns() if s_['pl']['p'] and s_['pl']['p'][-1].startswith('field:')]
        c.ob('clear', sorted(st) == [('begin', 0), ('end', 0)], 'clear() sets begin = end = 0 and nothing else', str(st), loc_of(cb))
    b = P.fn(RB + '::read_some')
    c.saw(b, len(b.calls()))
    facts = q.cmp_facts(b)
    rd = one(b.calls('rodbus::common::phys::PhysLayer::read'), 'io.read in read_some')
    c.ob('read/once', not b.in_cycle(rd.node), 'one physical read per call', '', rd.loc())
    eof = [x for x in q.exits(b) if x['kind'] == 'agg' and x['variant'] == 'Err']
    def is_count(o):
        s = q.sem(b, o)
        return s.kind == 'call' and s.cs is rd
    okeof = any(q.has_fact(b, x['node'], 'eq', is_count, lambda o: q.const_val(b, o) == 0, facts) for x in eof)
    ke = [cs for cs in b.calls() if cs.declared in ('core::convert::From::from', 'core::convert::Into::into') and any((q.agg_variant_of(b, a) or ('', ''))[0].endswith('ErrorKind') and (q.agg_variant_of(b, a) or ('', ''))[1] == 'UnexpectedEof' for a in cs.args)]
    c.ob('eof', okeof and len(ke) == 1, 'a read of 0 bytes is reported as UnexpectedEof (the session ends, the parser does not spin)', '%d Err exits' % len(eof), loc_of(b))
    # `end += count` on the non-zero edge
    adds = [(i, s) for i, s in b.assigns() if s['rv']['r'] == 'bin' and s['rv']['op'] in ('AddWithOverflow', 'Add') and any(is_count(a) for a in s['rv']['a'])]
    # (only the sum that is stored into `end`: the byte count may be added to other things for logging)
    end_stores = [s_ for _, s_ in b.assigns() if s_['pl']['p'] and s_['pl']['p'][-1].endswith(':end') and s_['rv']['r'] == 'use']
    into_end = [(i, s) for i, s in adds if any(('l', s['pl']['l']) in b.op_closure(st['rv']['a'][0]) or (st['rv']['a'][0].get('pl') or {}).get('l') == s['pl']['l'] for st in end_stores)]
    if into_end:
        adds = into_end
    okadd = len(adds) == 1 and q.has_fact(b, ('b', adds[0][0]), 'ne', is_count, lambda o: q.const_val(b, o) == 0, facts)
    c.ob('advance-end', okadd, '`end` advances by exactly the number of bytes read', '%d additions' % len(adds), loc_of(b))
    # compaction
    cw = [cs for cs in b.calls() if cs.callee.endswith('::copy_within')]
    cwc = one(cw, 'copy_within in read_some')
    ln = [cs for cs in b.calls(RB + '::len') if b.dominates(cs.node, cwc.node) and q.is_name(b, cs.args[0], 'self')]
    rng = q.sem(b, cwc.args[1])
    okr = rng.kind == 'agg' and 'Range' in rng.extra.get('adt', '') and len(rng.extra['a']) >= 1
    if okr:
        s0 = q.sem(b, rng.extra['a'][0])
        okr = q.sem_is_name(b, s0, 'self') and bool(s0.proj) and s0.proj[-1].endswith(':begin') and q.const_val(b, cwc.args[2]) == 0
        if okr and len(rng.extra['a']) > 1:      # begin..end  (begin.. copies a harmless surplus)
            s1 = q.sem(b, rng.extra['a'][1])
            okr = q.sem_is_name(b, s1, 'self') and bool(s1.proj) and s1.proj[-1].endswith(':end')
    c.ob('compaction/copy', okr, 'compaction copies buffer[begin..end] (or begin..) to offset 0', repr(rng), cwc.loc())
    comp_reg = b.reach_set(cwc.ret, avoid={rd.node})
    stores = {}
    for i, s in b.assigns():
        pl = s['pl']
        if ('b', i) in comp_reg or i == cwc.block:
            if pl['p'] and pl['p'][-1].startswith('field:') and pl['p'][-1].split(':', 2)[2] in ('begin', 'end') and b.dominates(cwc.ret, ('b', i)):
                stores[pl['p'][-1].split(':', 2)[2]] = (i, s)
    okb = 'begin' in stores and stores['begin'][1]['rv']['r'] == 'use' and q.const_val(b, stores['begin'][1]['rv']['a'][0]) == 0
    c.ob('compaction/begin', okb, 'after compaction begin = 0', '', loc_of(b))
    oke = False
    if 'end' in stores and stores['end'][1]['rv']['r'] == 'use':
        v = q.sem(b, stores['end'][1]['rv']['a'][0])
        # the unread length, evaluated before the indices were changed
        if v.kind == 'call' and v.cs in ln:
            oke = True
        elif v.kind == 'bin' and v.extra[1] in ('Sub', 'SubWithOverflow'):
            a0, a1 = q.sem(b, v.extra[2]), q.sem(b, v.extra[3])
            oke = q.sem_is_name(b, a0, 'self') and a0.proj[-1].endswith(':end') and q.sem_is_name(b, a1, 'self') and a1.proj[-1].endswith(':begin') and b.dominates(('b', v.extra[5]), cwc.node)
    c.ob('compaction/end', oke, 'after compaction end = the unread length (end - begin) computed before the indices were changed', repr(q.sem(b, stores['end'][1]['rv']['a'][0])) if 'end' in stores and stores['end'][1]['rv']['r'] == 'use' else 'no store', loc_of(b))
    # the slice handed to the physical read starts at `end`
    sl = q.sem(b, rd.args[1])
    cl = q.closure_names(b, rd.args[1])
    c.ob('read/into-free-space', 'self' in cl, 'the physical read fills self.buffer[end..]', str(sorted(cl)), rd.loc())
    # the unread length is end - begin; empty means begin == end
    def fld(bb, o, name):
        s_ = q.sem(bb, o)
        return q.sem_is_name(bb, s_, 'self') and bool(s_.proj) and s_.proj[-1].endswith(':' + name)
    def is_len(bb, o):
        s_ = q.sem(bb, o)
        if s_.kind == 'call' and s_.cs.is_(RB + '::len') and not s_.proj:
            return q.is_name(bb, s_.cs.args[0], 'self')
        return s_.kind == 'bin' and s_.extra[1] in ('Sub', 'SubWithOverflow') and fld(bb, s_.extra[2], 'end') and fld(bb, s_.extra[3], 'begin')
    lb = P.fn(RB + '::len')
    xs = q.exits(lb)
    c.ob('len', len(xs) == 1 and xs[0]['kind'] == 'copy' and is_len(lb, xs[0]['op']), 'len() = end - begin', str([x['kind'] for x in xs]), loc_of(lb))
    eb = P.fn(RB + '::is_empty')
    xs = q.exits(eb)
    oke = len(xs) == 1 and xs[0]['kind'] == 'other' and xs[0]['rv']['r'] == 'bin' and xs[0]['rv']['op'] == 'Eq'
    if oke:
        a0, a1 = xs[0]['rv']['a']
        oke = (fld(eb, a0, 'begin') and fld(eb, a1, 'end')) or (fld(eb, a0, 'end') and fld(eb, a1, 'begin')) or (is_len(eb, a0) and q.const_val(eb, a1) == 0) or (is_len(eb, a1) and q.const_val(eb, a0) == 0)
    c.ob('is_empty', oke, 'is_empty() = (begin == end)', str([x['kind'] for x in xs]), loc_of(eb))
    # accessors: checked against the unread length, and what is handed out is consumed
    import inline
    for fnm, n in (('read', 'count'), ('read_u8', None)):
        fb = inline.expand(P, P.fn(RB + '::' + fnm), {RB + '::read'} if fnm != 'read' else set())
        xs = [x for x in q.exits(fb) if x['kind'] == 'agg' and x['variant'] == 'Ok']
        get = [cs for cs in fb.calls() if cs.callee.endswith('::get')]
        se = q.outcomes(fb, get[0]).get('success', []) if len(get) == 1 else []
        ok = len(get) == 1 and bool(xs) and bool(se) and all(q.dominated_by_any(fb, se, x['node']) for x in xs)
        c.ob('accessor/%s' % fnm, ok, 'ReadBuffer::%s returns data only through a checked slice::get' % fnm, '%d get, %d Ok exits' % (len(get), len(xs)), loc_of(fb))
        # ... and refused only when there are not that many unread bytes (a request for 0 bytes of an empty buffer succeeds)
        cf = q.cmp_facts(fb)
        gfail = q.outcomes(fb, get[0]).get('failure', []) if len(get) == 1 else []
        emp = [e for cs in fb.calls(RB + '::is_empty') if q.is_name(fb, cs.args[0], 'self') for e in q.bool_edges(fb, cs)['true']] if fnm == 'read_u8' else []
        def wanted(o):
            return q.is_name(fb, o, n) if n else q.const_val(fb, o) == 1
        just = set(gfail + emp + [e for (e, r_, a_, b_) in cf if r_ == 'lt' and is_len(fb, a_) and wanted(b_)])
        if fnm == 'read_u8':
            just |= set(se)        # an arm behind the successful one-byte read (a slice pattern that cannot fail)
        free = fb.reach_set(fb.entry, avoid=just) | {fb.entry}
        bad = [x['node'] for x in q.exits(fb) if q.exit_is_failure(fb, x) and x['node'] in free]
        c.ob('accessor/%s/refuses-only-short' % fnm, not bad, 'ReadBuffer::%s fails only when fewer bytes are unread than asked for (len() < %s) or the checked get fails' % (fnm, n or '1'),
             'error exits not behind that comparison: %s' % bad, loc_of(fb))
        adv = [i for i, s_ in fb.assigns() if s_['pl']['p'] and s_['pl']['p'][-1].startswith('field:') and s_['pl']['p'][-1].split(':', 2)[2] == 'begin']
        oka = bool(adv) and bool(xs) and all(any(fb.reaches(('b', i), x['node']) or ('b', i) == x['node'] for i in adv) for x in xs)
        c.ob('accessor/%s/consumes' % fnm, oka, 'every successful ReadBuffer::%s advances `begin` (bytes handed out are not handed out again)' % fnm, '%d stores to begin' % len(adv), loc_of(fb))


FR_RESET = 'rodbus::common::frame::FramedReader::reset'


@rule('C05', 'R05.7', 'framing state is per connection: every session starts with an empty buffer and a reset parser, and never resets mid-session')
def r7(c):
    P = c.P
    starts = {'rodbus::client::task::ClientLoop::run': 'rodbus::client::task::ClientLoop::poll', 'rodbus::server::task::SessionTask::run': 'rodbus::server::task::SessionTask::run_one'}
    sites = P.callers(FR_RESET)
    where = sorted({P.logical_name(cs.body) for cs in sites})
    c.ob('reset/callers', set(where) == set(starts), 'FramedReader::reset is called exactly at the two session entry points', str(where), examined=len(sites))
    for f, step in starts.items():
        b = P.fn(f)
        c.saw(b, len(b.calls()))
        rs = b.calls(FR_RESET)
        st = b.calls(step)
        ok = len(rs) >= 1 and len(st) == 1 and not any(b.in_cycle(x.node) for x in rs)
        if ok and not (len(rs) == 1 and b.dominates(rs[0].ret, st[0].node)):
            # the other placement: not before the receive loop but after it, on every way out of the session that can be
            # followed by another one (a reader is empty when built; Shutdown ends the task)
            down = [e for e, _ in q.arms_of(b, 'rodbus::client::task::SessionError').get('Shutdown', [])] if 'client' in f else []
            ok = all(not b.reaches(x.ret, st[0].node) for x in rs) and q.always_passes(b, st[0].ret, {x.node for x in rs}, escapes=down)[0]
        if ok:
            for x in rs:
                a = q.sem(b, x.args[0])
                ok = ok and q.sem_is_name(b, a, 'self') and any('reader' in p for p in a.proj)
        c.ob('reset/%s' % f.split('::')[-2], ok, '%s resets self.reader once per session: before its receive loop, or after it on every way out that another session can follow' % f, '%d reset calls' % len(rs), loc_of(b), kind='session-start')
    r = P.fn(FR_RESET)
    pr = [cs for cs in r.calls('rodbus::common::frame::FrameParser::reset')]
    cl = [cs for cs in r.calls(RB + '::clear')]
    ok = len(pr) == 1 and len(cl) == 1 and q.sem_is_name(r, q.sem(r, pr[0].args[0]), 'self') and q.sem_is_name(r, q.sem(r, cl[0].args[0]), 'self')
    c.ob('reset/body', ok, 'FramedReader::reset resets the parser state and clears the buffer', '', loc_of(r))
    # TCP server sessions get a fresh reader each (new FramedReader::tcp per run_session)
    rs_ = P.fn('rodbus::tcp::server::run_session')
    c.ob('tcp-server/fresh-reader', len(rs_.calls('rodbus::common::frame::FramedReader::tcp')) == 1 and len(rs_.calls('rodbus::common::frame::FrameWriter::tcp')) == 1, 'each TCP/TLS server session constructs its own reader and writer', '', loc_of(rs_))
