"""Semantic queries on top of facts.Body: awaited values, checked results, outcome edges,
success exits, tracing noise, effect classification."""
import re
from facts import norm, op_local, AnchorLost

POLL = 'core::future::future::Future::poll'
INTO_FUTURE = 'core::future::into_future::IntoFuture::into_future'
PIN_NEW = 'core::pin::Pin::new_unchecked'
TRY_BRANCH = 'core::ops::try_trait::Try::branch'
FROM_RESIDUAL = 'core::ops::try_trait::FromResidual::from_residual'

# calls that hand their (first) argument through unchanged as far as *identity of the value* goes
TRANSPARENT = {
    'core::clone::Clone::clone': 0,
    'core::convert::AsRef::as_ref': 0,
    'core::convert::AsMut::as_mut': 0,
    'core::ops::deref::Deref::deref': 0,
    'core::ops::deref::DerefMut::deref_mut': 0,
    'core::borrow::Borrow::borrow': 0,
    'alloc::boxed::Box::new': 0,
    # adapters that keep the success value (and success-ness) of a Result / Option unchanged
    'core::result::Result::map_err': 0,
    'core::option::Option::ok_or': 0,
    'core::option::Option::ok_or_else': 0,
    'core::option::Option::copied': 0,
    'core::option::Option::cloned': 0,
    'core::option::Option::as_ref': 0,
    'core::option::Option::as_mut': 0,
    'core::result::Result::as_ref': 0,
    'core::result::Result::as_mut': 0,
    # adapters that hand their receiver back untouched after showing it to a callback
    'core::result::Result::inspect_err': 0,
    'core::result::Result::inspect': 0,
    'core::option::Option::inspect': 0,
}


def is_tracing(cs):
    return cs.exp and (cs.mac.startswith('tracing:') or cs.mac.startswith('tracing_core:'))


def is_fmt(cs):
    c = cs.callee or ''
    return c.startswith('core::fmt::') or c.startswith('alloc::fmt::')


class Sem:
    """semantic origin of a value: root + residual projection"""
    __slots__ = ('kind', 'cs', 'local', 'proj', 'const', 'extra', 'checked')

    def __init__(self, kind, cs=None, local=None, proj=(), const=None, extra=None, checked=False):
        self.kind = kind      # 'call' | 'place' | 'const' | 'agg' | 'bin' | 'cast' | 'ref' | 'poll' | 'other'
        self.cs = cs
        self.local = local
        self.proj = tuple(proj)
        self.const = const
        self.extra = extra
        self.checked = checked

    def __repr__(self):
        if self.kind == 'call':
            return "<result of %s%s>" % (self.cs.callee, ''.join('.' + p for p in self.proj))
        if self.kind == 'place':
            return "<place _%s%s>" % (self.local, ''.join('.' + p for p in self.proj))
        if self.kind == 'const':
            return "<const %s>" % (self.const,)
        return "<%s>" % self.kind


def has_success(proj):
    """the projection reads the success payload of a Result / Option: through a match (`as Ok`/`as Some`) or `?`"""
    j = ''.join(proj)
    return ':Ok' in j or ':Some' in j or '<ok>' in j


def _strip(proj, variant):
    """strip leading `downcast:<i>:<variant>`, `field:0:*` from a projection"""
    if len(proj) >= 2 and proj[0].startswith('downcast:') and proj[0].endswith(':' + variant) and proj[1].startswith('field:0:'):
        return tuple(proj[2:])
    return None


def future_source(body, pollcs):
    """for a `Future::poll` call: the call site that created the future being awaited (or None)"""
    if not pollcs.args:
        return None
    org = body.origin(pollcs.args[0])
    guard = 0
    while guard < 12:
        guard += 1
        if org[0] == 'call':
            cs = org[1]
            if cs.is_(PIN_NEW) or cs.is_(INTO_FUTURE) or (cs.declared in TRANSPARENT):
                org = body.origin(cs.args[0])
                continue
            return cs
        if org[0] == 'ref':
            org = org[1]
            continue
        if org[0] == 'place':
            return ('place', org[1], org[2])
        return None
    return None


POLL_FN = 'core::future::poll_fn::poll_fn'
TIMEOUT_WRAPPERS = ('tokio::time::timeout::timeout_at', 'tokio::time::timeout::timeout')


PIN_FORMS = ('core::pin::Pin::new_unchecked', 'core::pin::Pin::new', 'core::pin::Pin::as_mut')


def _future_creator(body, el):
    """the call that created the future raced by a select! branch: directly (`f()`), or a future created earlier, pinned
    and raced by reference (`let d = sleep(..); pin!(d); select! { _ = &mut d => .. }`)"""
    for _ in range(8):
        es = sem(body, el)
        if es.kind == 'call' and es.cs.is_(INTO_FUTURE, *PIN_FORMS) and es.cs.args:
            el = es.cs.args[0]
            continue
        if es.kind == 'call':
            return es.cs
        if es.kind == 'place' and not es.proj and es.local is not None:
            d = body.single_def(es.local)
            if d is None:
                return None
            if d[0] == 'call':
                if d[2].is_(INTO_FUTURE, *PIN_FORMS) and d[2].args:
                    el = d[2].args[0]
                    continue
                return d[2]
            rv = d[2]['rv']
            if rv['r'] == 'use':
                el = rv['a'][0]
                continue
            if rv['r'] in ('ref', 'copyderef') and not rv['pl']['p']:
                el = {'k': 'copy', 'pl': rv['pl']}
                continue
        return None
    return None


def select_futures(body, pollfn_cs):
    """for the `poll_fn(closure)` call a tokio::select! expands to: the call sites that created the raced futures,
    in branch order (None where not resolvable)"""
    cache = body.__dict__.setdefault('_select_cache', {})
    if pollfn_cs.block in cache:
        return cache[pollfn_cs.block]
    out = None
    s = sem(body, pollfn_cs.args[0]) if pollfn_cs.args else None
    if s is not None and s.kind == 'agg' and 'closure' in s.extra:
        for up in s.extra['a']:
            l = op_local(up)
            guard = 0
            tup = None
            while l is not None and guard < 6:
                guard += 1
                ds = [d for d in body.defs().get(l, []) if d[0] == 'assign' and not d[2]['pl']['p']]
                if len(ds) != 1:
                    break
                rv = ds[0][2]['rv']
                if rv['r'] == 'agg' and rv.get('tuple'):
                    tup = rv
                    break
                if rv['r'] in ('ref', 'copyderef'):
                    l = rv['pl']['l']
                    continue
                if rv['r'] == 'use':
                    l = op_local(rv['a'][0])
                    continue
                break
            if tup is not None and len(tup['a']) >= 1:
                futs = []
                for el in tup['a']:
                    futs.append(_future_creator(body, el))
                if any(f is not None for f in futs):
                    out = futs
                    break
    cache[pollfn_cs.block] = out
    return out


def select_sites(body):
    """tokio::select! expansions in body: [{'poll_fn': cs, 'futures': [cs|None], 'arms': {k: edge}}]"""
    out = []
    for cs in body.calls(POLL_FN):
        futs = select_futures(body, cs)
        if not futs:
            continue
        arms = {}
        for i in body.switches():
            info = body.switch_info(i)
            if info['kind'] != 'variant' or not info['adt'].endswith('__tokio_select_util::Out'):
                continue
            ps = sem(body, info['place'])
            if not (ps.kind == 'select' and ps.cs is cs and ps.proj == ()):
                continue
            t = body.blocks[i]['term']
            for v, _ in t['vals']:
                e = ('e', i, str(v))
                lab = body.edge_variant(e)
                if lab and lab.startswith('_') and lab[1:].isdigit():
                    arms[int(lab[1:])] = e
        out.append({'poll_fn': cs, 'futures': futs, 'arms': arms})
    return out


def sem(body, o, transparent=True, _depth=0, want=None, tid=None):
    """semantic origin of an operand (or place dict).  `want`: the variant the value is known to have at this read
    (used to tell merged definitions apart, see Body.select_def)"""
    if o is None:
        return Sem('other')
    if 'k' in o:
        if o['k'] == 'const':
            return Sem('const', const=o.get('def') or o.get('val') or o.get('fn') or o.get('repr'), extra=o)
        pl = o['pl']
    else:
        pl = o
    org = body.origin_place(pl, want=want, tid=tid)
    return _sem_org(body, org, transparent, _depth, want)


def _sem_org(body, org, transparent, depth, want=None):
    if depth > 30:
        return Sem('other')
    k = org[0]
    if k == 'const':
        return Sem('const', const=org[1], extra=org[3])
    if k == 'place':
        return Sem('place', local=org[1], proj=org[2])
    if k == 'multi':
        return Sem('place', local=org[1], proj=org[2], extra='multi')
    if k == 'ref':
        inner = _sem_org(body, org[1], transparent, depth + 1, want)
        proj = org[2]
        if proj and proj[0] == 'deref':
            return Sem(inner.kind, inner.cs, inner.local, tuple(inner.proj) + tuple(proj[1:]), inner.const, inner.extra, inner.checked)
        if not proj:
            return inner  # identity of the referent
        return Sem('other')
    if k == 'cast':
        inner = _sem_org(body, org[1], transparent, depth + 1)
        ck = org[4] if len(org) > 4 else ''
        if ('Unsize' in ck or 'MutToConstPointer' in ck) and not org[3]:
            return inner      # pointer unsizing keeps the identity of the referent
        return Sem('cast', extra=(inner, org[2]), proj=org[3])
    if k == 'call':
        cs, proj = org[1], tuple(org[2])
        if cs.is_(POLL):
            rest = _strip(proj, 'Ready')
            if rest is None:
                return Sem('poll', cs=cs, proj=proj)
            src = future_source(body, cs)
            if src is None:
                return Sem('other')
            if isinstance(src, tuple):
                return Sem('awaited-place', local=src[1], proj=tuple(src[2]) + ('<await>',) + rest)
            if src.is_(POLL_FN):
                # tokio::select!: `output.as _k.0` is the awaited value of the k-th future
                futs = select_futures(body, src)
                if futs and len(rest) >= 2 and rest[0].startswith('downcast:') and rest[1].startswith('field:0:'):
                    vn = rest[0].split(':', 2)[2]
                    if vn.startswith('_') and vn[1:].isdigit() and int(vn[1:]) < len(futs) and futs[int(vn[1:])] is not None:
                        return _sem_call(body, futs[int(vn[1:])], tuple(rest[2:]), transparent, depth)
                return Sem('select', cs=src, proj=rest)
            if src.is_(*TIMEOUT_WRAPPERS) and len(src.args) >= 2:
                # `timeout_at(deadline, fut).await` / `timeout(d, fut).await`: the Ok payload is the awaited value of `fut`
                r2 = _strip(rest, 'Ok')
                inner = _future_creator(body, src.args[1]) if r2 is not None else None
                if inner is not None and hasattr(inner, 'is_'):
                    return _sem_call(body, inner, r2, transparent, depth)
            return _sem_call(body, src, rest, transparent, depth)
        if cs.is_(TRY_BRANCH):
            rest = _strip(proj, 'Continue')
            if rest is not None:
                inner = sem(body, cs.args[0], transparent, depth + 1, want='success', tid=cs.t.get('tid'))
                if inner.kind == 'agg' and isinstance(inner.extra, dict) and inner.extra.get('variant') in ('Ok', 'Some') and not inner.proj and inner.extra.get('a'):
                    # `Ok(v)?` after inlining a helper: the payload itself
                    pay = sem(body, inner.extra['a'][0], transparent, depth + 1)
                    return _project(body, pay, rest, transparent, depth)
                # the success payload of the inner value
                okproj = None
                return Sem(inner.kind, inner.cs, inner.local, tuple(inner.proj) + ('<ok>',) + rest, inner.const, inner.extra, True)
            rest = _strip(proj, 'Break')
            if rest is not None:
                inner = sem(body, cs.args[0], transparent, depth + 1, want='failure', tid=cs.t.get('tid'))
                return Sem(inner.kind, inner.cs, inner.local, tuple(inner.proj) + ('<residual>',) + rest, inner.const, inner.extra, True)
            return Sem('branch', cs=cs, proj=proj, extra=sem(body, cs.args[0], transparent, depth + 1))
        return _sem_call(body, cs, proj, transparent, depth)
    if k == 'bin':
        return Sem('bin', extra=org, proj=org[4])
    if k == 'agg':
        return _follow_agg(body, org[1], org[2], transparent, depth, want)
    if k == 'un':
        return Sem('un', extra=org)
    if k == 'discr':
        return Sem('discr', extra=org)
    return Sem('other', extra=org)


def _follow_agg(body, rv, proj, transparent, depth, want=None):
    """projection into a freshly built aggregate: follow the field operand"""
    proj = tuple(proj)
    if proj and proj[0] in ('<ok>', '<residual>') and rv.get('variant') in ('Ok', 'Some', 'Err', 'None'):
        # the payload `?` continues with / the residual it returns, of a value built right here
        good = rv['variant'] in ('Ok', 'Some')
        if (proj[0] == '<ok>') != good:
            return Sem('impossible')
        if proj[0] == '<ok>' and rv.get('a'):
            inner = sem(body, rv['a'][0], transparent, depth + 1)
            return _project(body, inner, proj[1:], transparent, depth)
    if proj and proj[0].startswith('field:') and 'a' in rv:
        idx = int(proj[0].split(':')[1])
        if idx < len(rv['a']):
            inner = sem(body, rv['a'][idx], transparent, depth + 1)
            return _project(body, inner, proj[1:], transparent, depth)
    if proj and proj[0].startswith('downcast:') and rv.get('variant') and proj[0].split(':', 2)[2] != rv['variant']:
        return Sem('impossible')      # a read of variant X cannot see a value built as variant Y
    if len(proj) >= 2 and proj[0].startswith('downcast:') and proj[1].startswith('field:') and 'a' in rv:
        idx = int(proj[1].split(':')[1])
        if idx < len(rv['a']):
            inner = sem(body, rv['a'][idx], transparent, depth + 1, want=want if rv.get('variant') == 'Ready' else None)
            return _project(body, inner, proj[2:], transparent, depth)
    return Sem('agg', extra=rv, proj=proj)


def _project(body, inner, rest, transparent=True, depth=0):
    """apply a residual projection to a semantic origin"""
    rest = tuple(rest)
    if not rest:
        return inner
    if inner.kind == 'agg' and isinstance(inner.extra, dict) and not inner.proj:
        return _follow_agg(body, inner.extra, rest, transparent, depth + 1)
    if inner.kind == 'impossible':
        return inner
    return Sem(inner.kind, inner.cs, inner.local, tuple(inner.proj) + rest, inner.const, inner.extra, inner.checked)


IDENTITY = ('core::result::Result::inspect_err', 'core::result::Result::inspect', 'core::option::Option::inspect')


def _sem_call(body, cs, proj, transparent, depth):
    if transparent and cs.declared in IDENTITY and cs.args and proj and depth < 8:
        # the very value that went in comes out: a projection of the result is that projection of the receiver
        inner = sem(body, cs.args[0], transparent, depth + 1)
        if inner.kind in ('call', 'place', 'agg'):
            return _project(body, inner, proj, transparent, depth)
    if transparent and cs.declared in TRANSPARENT and cs.args and not proj:
        inner = sem(body, cs.args[TRANSPARENT[cs.declared]], transparent, depth + 1)
        if inner.kind in ('call', 'place', 'const', 'agg'):
            return inner
    return Sem('call', cs=cs, proj=proj)


def same_value(body, a, b):
    """two operands are the same value by exact origin tracing"""
    sa, sb = sem(body, a), sem(body, b)
    return sem_eq(sa, sb)


def sem_eq(sa, sb):
    if sa.kind != sb.kind:
        return False
    if sa.kind == 'call':
        return sa.cs is sb.cs and sa.proj == sb.proj
    if sa.kind in ('place', 'awaited-place'):
        return sa.local == sb.local and sa.proj == sb.proj
    if sa.kind == 'const':
        return sa.const == sb.const
    return False


# ---- outcomes of a call -------------------------------------------------------------------------

SUCCESS = {'Ok', 'Some', 'Continue'}
FAILURE = {'Err', 'None', 'Break'}


def outcomes(body, cs):
    """label -> [edge nodes] for every discriminant switch on exactly the value returned by `cs`
    (after awaiting it / through `?`).  Labels are variant names; `Try::branch` labels are mapped:
    Continue -> 'Ok'|'Some' is not known, so both the raw label and the generic 'success'/'failure' are given."""
    out = {}
    for i in body.switches():
        info = body.switch_info(i)
        if info['kind'] != 'variant':
            continue
        s = sem(body, info['place'])

        def tests(s_, depth=0):
            """does a switch on a value of this origin examine the outcome of cs?  (merged values: if cs's value is
            one of the definitions -- e.g. the results of two inlined helpers, or private copies made by threading)"""
            if depth > 3 or s_.proj != ():
                return None
            if s_.kind == 'call' and s_.cs is cs:
                return ('direct', None)
            if s_.kind == 'branch' and s_.extra is not None:
                inner = s_.extra
                if inner.kind == 'call' and inner.cs is cs and inner.proj == ():
                    return ('branch', s_.cs)
                if inner.kind == 'place' and inner.extra == 'multi' and inner.proj == ():
                    if any(a_.kind == 'call' and a_.cs is cs and a_.proj == () for a_ in sem_alts(body, inner)):
                        return ('branch', s_.cs)
                return None
            if s_.kind == 'place' and s_.extra == 'multi':
                for a_ in sem_alts(body, s_):
                    r_ = tests(a_, depth + 1)
                    if r_:
                        return r_
            return None
        ht = tests(s)
        hit = ht[0] if ht else None
        bcs_ = ht[1] if ht else None
        if not hit:
            continue
        t = body.blocks[i]['term']
        # `?`: the Continue/Break arms also carry the variant names of the value that was branched on
        alias = {}
        if hit == 'branch':
            bcs = bcs_
            rn = (bcs.resolved or '') + ' ' + (bcs.gargs or '')
            if 'core::result::Result' in rn.split(' as ')[0]:
                alias = {'Continue': 'Ok', 'Break': 'Err'}
            elif 'core::option::Option' in rn.split(' as ')[0]:
                alias = {'Continue': 'Some', 'Break': 'None'}

        def add(lab, e):
            out.setdefault(lab, []).append(e)
            if lab in alias:
                out.setdefault(alias[lab], []).append(e)
            if lab in SUCCESS:
                out.setdefault('success', []).append(e)
            if lab in FAILURE:
                out.setdefault('failure', []).append(e)
        for v, _ in t['vals']:
            e = ('e', i, str(v))
            lab = body.edge_variant(e)
            if lab is None:
                continue
            add(lab, e)
        e = ('e', i, 'otherwise')
        lab = body.edge_variant(e)
        if lab is not None and ('b', t['otherwise']) in body.reachable and body.blocks[t['otherwise']]['term']['t'] != 'unreachable':
            add(lab, e)
    # `value == Enum::Variant` / `!=` written with PartialEq instead of a match
    for i in body.switches():
        info = body.switch_info(i)
        if info['kind'] != 'bool':
            continue
        cnd = info['cond']
        if cnd[0] != 'call' or cnd[2]:
            continue
        ecs = cnd[1]
        if ecs.declared not in ('core::cmp::PartialEq::eq', 'core::cmp::PartialEq::ne') or len(ecs.args) != 2:
            continue
        for a, o in ((0, 1), (1, 0)):
            sa = sem(body, ecs.args[a])
            if not (sa.kind == 'call' and sa.cs is cs and sa.proj == ()):
                continue
            av = agg_variant_of(body, ecs.args[o])
            if av is None:
                continue
            adt, variant = av
            others = []
            try:
                others = [v['name'] for v in body.prog.adt(adt)['variants'] if v['name'] != variant]
            except AnchorLost:
                pass
            t = body.blocks[i]['term']
            for e in [('e', i, str(v)) for v, _ in t['vals']] + [('e', i, 'otherwise')]:
                bval = body.edge_bool(e)
                if bval is None:
                    continue
                if ecs.declared.endswith('::ne'):
                    bval = not bval
                if bval:
                    out.setdefault(variant, []).append(e)
                elif len(others) == 1:
                    out.setdefault(others[0], []).append(e)
    # `r.is_ok()` / `is_err()` / `o.is_some()` / `is_none()` on the call's value
    PRED = {'core::result::Result::is_ok': ('Ok', 'Err'), 'core::result::Result::is_err': ('Err', 'Ok'),
            'core::option::Option::is_some': ('Some', 'None'), 'core::option::Option::is_none': ('None', 'Some')}
    for i in body.switches():
        info = body.switch_info(i)
        if info['kind'] != 'bool':
            continue
        cnd = info['cond']
        if cnd[0] != 'call' or cnd[2] or cnd[1].declared not in PRED or not cnd[1].args:
            continue
        sa = sem(body, cnd[1].args[0])
        hit_ = sa.kind == 'call' and sa.cs is cs and sa.proj == ()
        if not hit_ and sa.kind == 'place' and sa.extra == 'multi' and sa.proj == ():
            hit_ = any(a_.kind == 'call' and a_.cs is cs and a_.proj == () for a_ in sem_alts(body, sa))
        if not hit_:
            # a user variable bound once to the call's value (`let result = f(); if result.is_err() ..`)
            iv = initial_value(body, sa) if sa.kind == 'place' else sa
            hit_ = iv.kind == 'call' and iv.cs is cs and iv.proj == ()
        if not hit_:
            continue
        yes, no = PRED[cnd[1].declared]
        t = body.blocks[i]['term']
        for e in [('e', i, str(v)) for v, _ in t['vals']] + [('e', i, 'otherwise')]:
            bval = body.edge_bool(e)
            if bval is None:
                continue
            lab = yes if bval else no
            out.setdefault(lab, []).append(e)
            out.setdefault('success' if lab in SUCCESS else 'failure', []).append(e)
    # a value rebuilt class for class from the call's outcome (`r.map(|_| echo)` written out: Ok(..) built on the Ok edge,
    # Err(e) on the Err edge): a later match on the rebuilt value examines the same outcome
    for _ in range(2):
        grew = False
        seen_sw = {e[1] for es in out.values() for e in es}
        for i in body.switches():
            if i in seen_sw:
                continue
            info = body.switch_info(i)
            if info['kind'] != 'variant':
                continue
            s = sem(body, info['place'])
            if s.kind == 'branch' and s.extra is not None and s.extra.kind == 'place':
                s = s.extra
            if not (s.kind == 'place' and s.extra == 'multi' and s.proj == ()):
                continue
            defs = body.whole_defs(s.local)
            ok_ = len(defs) >= 2
            for d in defs:
                if d[0] != 'assign' or d[2]['rv']['r'] != 'agg' or d[2]['rv'].get('variant') not in (SUCCESS | FAILURE):
                    ok_ = False
                    break
                cls_ = 'success' if d[2]['rv']['variant'] in SUCCESS else 'failure'
                if not dominated_by_any(body, out.get(cls_, []), ('b', d[1])):
                    ok_ = False
                    break
            if not ok_:
                continue
            t = body.blocks[i]['term']
            for e in [('e', i, str(v)) for v, _ in t['vals']] + [('e', i, 'otherwise')]:
                lab = body.edge_variant(e)
                if lab is None or (e[2] == 'otherwise' and body.blocks[t['otherwise']]['term']['t'] == 'unreachable'):
                    continue
                out.setdefault(lab, []).append(e)
                if lab in ('Continue', 'Break'):
                    out.setdefault('Ok' if lab == 'Continue' else 'Err', []).append(e)
                if lab in SUCCESS:
                    out.setdefault('success', []).append(e)
                if lab in FAILURE:
                    out.setdefault('failure', []).append(e)
                grew = True
        if not grew:
            break
    return out


def bool_edges(body, cs):
    """{'true': [edges], 'false': [edges]} for switches on the bool returned by cs (through `!`)"""
    out = {'true': [], 'false': []}
    for i in body.switches():
        info = body.switch_info(i)
        if info['kind'] != 'bool':
            continue
        c = info['cond']
        if c[0] == 'call' and c[1] is cs and not c[2]:
            t = body.blocks[i]['term']
            for v, _ in t['vals']:
                e = ('e', i, str(v))
                b = body.edge_bool(e)
                if b is not None:
                    out['true' if b else 'false'].append(e)
            e = ('e', i, 'otherwise')
            b = body.edge_bool(e)
            if b is not None:
                out['true' if b else 'false'].append(e)
    return out


def _bool_phi_edges(body):
    """switch edges on a bool local that is assigned only constants (the lowering of `matches!(..)`, `a && b` used as a
    value): [(edge, [blocks that assign the value selecting this edge])]"""
    cache = body.__dict__.get('_phi_cache')
    if cache is not None:
        return cache
    out = []
    for i in body.switches():
        info = body.switch_info(i)
        if info['kind'] != 'bool' or info['cond'][0] != 'multi':
            continue
        l = info['cond'][1]
        ds = body.defs().get(l, [])
        vals = []
        okc = True
        for d in ds:
            if d[0] != 'assign' or d[2]['pl']['p'] or d[2]['rv']['r'] != 'use' or d[2]['rv']['a'][0].get('k') != 'const' or d[2]['rv']['a'][0].get('val') not in ('0', '1'):
                okc = False
                break
            vals.append((d[1], d[2]['rv']['a'][0]['val'] == '1'))
        if not okc or not vals:
            continue
        t = body.blocks[i]['term']
        for e in [('e', i, str(v)) for v, _ in t['vals']] + [('e', i, 'otherwise')]:
            bv = body.edge_bool(e)
            if bv is None:
                continue
            if info.get('neg'):
                pass
            out.append((e, [blk for blk, v in vals if v == bv]))
    body.__dict__['_phi_cache'] = out
    return out


def dom(body, a, n, _depth=0):
    """`a` dominates `n`, also through materialised booleans: taking the `true` edge of `switch tmp` where tmp is set to
    `true` in exactly one block D implies D was executed, so whatever dominates D semantically dominates n."""
    if body.dominates(a, n):
        return True
    if _depth > 3:
        return False
    for e, blks in _bool_phi_edges(body):
        if len(blks) == 1 and body.dominates(e, n) and e != a:
            if dom(body, a, ('b', blks[0]), _depth + 1):
                return True
    return False


def dominated_by_any(body, edges, node):
    return any(dom(body, e, node) for e in edges)


def success_edge_dominates(body, cs, node):
    """the call is *checked* and its success edge dominates node"""
    oc = outcomes(body, cs)
    return dominated_by_any(body, oc.get('success', []), node)


# ---- exits ---------------------------------------------------------------------------------------

def exits(body):
    """classify the ways the function produces its return value.
    returns list of dicts: {'node':('b',i), 'kind': 'agg'|'call'|'copy'|'const', 'variant':.., 'cs':.., 'stmt':..}
    A return value merged from several definitions (the result of an inlined helper with several exits) is expanded
    into those definitions: each of them is an exit, located where the value is produced."""
    out = []

    def from_assign(i, s, depth):
        rv = s['rv']
        if rv['r'] == 'agg' and 'adt' in rv:
            out.append({'node': ('b', i), 'kind': 'agg', 'variant': rv['variant'], 'adt': norm(rv['adt']), 'rv': rv, 'stmt': s})
        elif rv['r'] == 'use':
            a = rv['a'][0]
            if a['k'] == 'const':
                out.append({'node': ('b', i), 'kind': 'const', 'op': a, 'stmt': s})
                return
            pl = a['pl']
            l = pl['l']
            ds = [d for d in body.defs().get(l, []) if d[0] == 'call' or not d[2]['pl']['p']]
            if len(pl['p']) == 2 and pl['p'][0].endswith(':Ready') and pl['p'][1].startswith('field:0') and ds and depth < 4 and \
                    all(d[0] == 'assign' and d[2].get('inl_ret') and d[2]['rv']['r'] == 'agg' and d[2]['rv'].get('variant') == 'Ready' for d in ds):
                # the value an awaited helper (inlined by the view) returned: one exit per return of that helper
                for d in ds:
                    from_assign(d[1], {'s': 'assign', 'pl': s['pl'], 'rv': {'r': 'use', 'a': [d[2]['rv']['a'][0]]}, 'inl_ret': True, 'line': d[2].get('line')}, depth + 1)
                return
            if not pl['p'] and len(ds) > 1 and depth < 4 and not (l <= body.argc and l != 0) and l not in body.user_locals_named():
                for d in ds:
                    if d[1] != i and not body.reaches(('b', d[1]), ('b', i)):
                        continue        # a definition in a private copy of the code (jump threading) that never gets here
                    if d[0] == 'call':
                        out.append({'node': d[2].ret, 'kind': 'call', 'cs': d[2]})
                    else:
                        from_assign(d[1], d[2], depth + 1)
                return
            if not pl['p'] and len(ds) == 1 and s.get('inl_ret') is None and ds[0][0] == 'assign' and ds[0][2].get('inl_ret') and depth < 4:
                from_assign(ds[0][1], ds[0][2], depth + 1)
                return
            if not pl['p'] and len(ds) == 1 and s.get('inl_ret') and depth < 4 and l not in body.user_locals_named():
                # `caller._0 = helper._0` written by the inliner: the exit is where the helper produced its value
                if ds[0][0] == 'call':
                    out.append({'node': ds[0][2].ret, 'kind': 'call', 'cs': ds[0][2]})
                else:
                    from_assign(ds[0][1], ds[0][2], depth + 1)
                return
            sm = sem(body, a)
            if sm.kind == 'const' and isinstance(sm.extra, dict) and sm.extra.get('k') == 'const':
                out.append({'node': ('b', i), 'kind': 'const', 'op': sm.extra, 'stmt': s})       # a variable that only ever holds that constant
                return
            if sm.kind == 'agg' and isinstance(sm.extra, dict) and 'adt' in sm.extra and not sm.proj and s.get('inl_ret') is None and depth > 0:
                # (inside an inlined helper) a variable that was bound to a freshly built value, e.g. a parameter
                out.append({'node': ('b', i), 'kind': 'agg', 'variant': sm.extra['variant'], 'adt': norm(sm.extra['adt']), 'rv': sm.extra, 'stmt': s})
                return
            if sm.kind == 'place' and sm.extra == 'multi' and not sm.proj and depth < 4 and sm.local not in body.user_locals_named():
                # a temporary merged from several definitions (the returns of an awaited helper the view inlined)
                for d in body.whole_defs(sm.local):
                    if d[1] != i and not body.reaches(('b', d[1]), ('b', i)):
                        continue
                    if d[0] == 'call':
                        out.append({'node': d[2].ret, 'kind': 'call', 'cs': d[2]})
                    else:
                        from_assign(d[1], d[2], depth + 1)
                return
            out.append({'node': ('b', i), 'kind': 'copy', 'sem': sm, 'op': a, 'stmt': s})
        else:
            out.append({'node': ('b', i), 'kind': 'other', 'rv': rv, 'stmt': s})

    for i, s in body.assigns():
        if s['pl']['l'] != 0 or s['pl']['p']:
            continue
        from_assign(i, s, 0)
    for cs in body.calls():
        if cs.dest['l'] == 0 and not cs.dest['p']:
            out.append({'node': cs.ret, 'kind': 'call', 'cs': cs})
    return out


def ok_exits(body):
    """exits that (may) produce a success value: `Ok(..)`/`Some(..)` aggregates and delegated exits
    (tail calls, copies of other values) -- error aggregates and `?` residual conversions excluded."""
    out = []
    for e in exits(body):
        if e['kind'] == 'agg':
            if e['variant'] in ('Err', 'None'):
                continue
            out.append(e)
        elif e['kind'] == 'call':
            if e['cs'].is_(FROM_RESIDUAL):
                continue
            out.append(e)
        else:
            out.append(e)
    return out


# ---- effects -------------------------------------------------------------------------------------

def block_calls_between(body, start, stop_nodes=()):
    """call sites reachable from node `start` without passing through stop_nodes"""
    rs = body.reach_set(start, avoid=stop_nodes)
    return [cs for cs in body.calls() if cs.node in rs]


def param_place(body, name):
    """place of a parameter / user variable by source name (first binding)"""
    pl = body.names.get(name)
    if pl is None:
        raise AnchorLost("variable `%s` not found in %s" % (name, body.path))
    return pl


def refers_to_name(body, o, name, exact=False):
    """operand's semantic origin is (a projection of) the user variable `name` (any shadow binding)"""
    s = sem(body, o)
    return sem_is_name(body, s, name, exact)


def sem_is_name(body, s, name, exact=False, first_only=False):
    if s.kind != 'place':
        return False
    for n, pl in body.names.items():
        base = n.split('#')[0]
        if base != name:
            continue
        if first_only and n != name:
            continue
        if pl['l'] != s.local:
            continue
        pp = tuple(pl['p'])
        if s.proj[:len(pp)] == pp:
            if exact and s.proj != pp:
                continue
            return True
    # coroutine bodies copy upvars into locals: `x#1 = x`
    # a function whose parameters were bundled into the type of `self` (inline.relocate_moved): the pinned parameter name
    # names the field of self, however the body gets at it (destructuring, `self.x`, a local bound to it)
    bundled = getattr(body.prog, 'bundled', None) if getattr(body, 'prog', None) is not None else None
    if bundled:
        own = re.sub(r'(::\{closure#\d+\})+$', '', body.path)
        if name in (bundled.get(own) or []):
            pj = [p for p in s.proj if p != 'deref']
            selfs = [pl['l'] for n, pl in body.names.items() if n.split('#')[0] == 'self' and not pl['p']]
            if s.local in selfs and pj and pj[0].startswith('field:') and pj[0].split(':', 2)[2] == name:
                return True
    return False


def local_names(body, local):
    return [n.split('#')[0] for n, pl in body.names.items() if pl['l'] == local and not pl['p']]


def closure_names(body, o):
    """set of user-variable base names in the dependence closure of an operand"""
    out = set()
    for it in body.op_closure(o):
        if it[0] == 'l':
            for n in local_names(body, it[1]):
                out.add(n)
    return out


def closure_has_upvar_field(body, o, field_idx):
    """operand depends on `_1` (closure/coroutine env); field-insensitive"""
    return ('l', 1) in body.op_closure(o)


# ---- match arms / tables --------------------------------------------------------------------------

def _trivial_target(body, node, place=None):
    """follow an edge through empty goto/falseedge blocks -- and, when the matched place is given, through blocks that
    only bind pattern variables from it (`x = (place as V).0`), as the arms of an or-pattern `A(x) | B(x) => ..` do
    before they join; returns the first block that is the arm's own code"""
    guard = 0
    cur = node
    key = None
    if place is not None:
        key = (place['l'], tuple(place['p']))
    while guard < 50:
        guard += 1
        ss = body.succ.get(cur, [])
        if len(ss) != 1:
            return cur
        nxt = ss[0]
        if cur[0] == 'b':
            blk = body.blocks[cur[1]]
            if blk['term']['t'] not in ('goto', 'falseedge'):
                return cur
            for s in blk['stmts']:
                if s['s'] != 'assign':
                    continue
                rv = s['rv']
                src = None
                if rv['r'] == 'use' and rv['a'][0].get('k') in ('copy', 'move'):
                    src = rv['a'][0]['pl']
                elif rv['r'] in ('ref', 'copyderef'):
                    src = rv['pl']
                if key is None or src is None or s['pl']['p']:
                    return cur
                if not (src['l'] == key[0] and tuple(src['p'][:len(key[1])]) == key[1] and len(src['p']) > len(key[1]) and src['p'][len(key[1])].startswith('downcast:')):
                    return cur
        cur = nxt
    return cur


def arm_regions(body, switch_block):
    """for the switch ending `switch_block`: {edge_node: set(nodes exclusive to that arm (group))}"""
    body._ensure()
    t = body.blocks[switch_block]['term']
    edges = [('e', switch_block, str(v)) for v, _ in t['vals']] + [('e', switch_block, 'otherwise')]
    edges = [e for e in edges if e in body.reachable]
    try:
        info = body.switch_info(switch_block)
        mplace = info.get('place') if info.get('kind') == 'variant' else None
    except Exception:
        mplace = None
    tgt = {e: _trivial_target(body, e, mplace) for e in edges}
    R = {}
    for e in edges:
        R[e] = body.reach_set(e, avoid={('b', switch_block)}) | {e}
    out = {}
    for e in edges:
        reg = set(R[e])
        for s in edges:
            if s is e or tgt[s] == tgt[e]:
                continue
            # arms whose target is `unreachable` do not count
            reg -= R[s]
        out[e] = reg
    return out


def enum_switches(body, adt, place_pred=None):
    """switch blocks on the discriminant of a value of enum type `adt`"""
    out = []
    for i in body.switches():
        info = body.switch_info(i)
        if info['kind'] == 'variant' and info['adt'] == adt:
            if place_pred is None or place_pred(info['place']):
                out.append(i)
    return out


def arms_of(body, adt, place_pred=None):
    """{variant: [(edge, region)]} over all switches on `adt` in body.  Nested switches on the same value
    (rustc sometimes splits a match) are merged per variant."""
    out = {}
    # an enum with a single variant (feature-gated siblings compiled out) is matched without a switch
    try:
        vs = [v['name'] for v in body.prog.adt(adt)['variants']]
    except Exception:
        vs = []
    if len(vs) == 1 and not enum_switches(body, adt, place_pred):
        body._ensure()
        return {vs[0]: [(body.entry, set(body.reachable))]}
    for i in enum_switches(body, adt, place_pred):
        regs = arm_regions(body, i)
        for e, reg in regs.items():
            v = body.edge_variant(e)
            if v is None:
                # `otherwise` standing for several variants
                info = body.switch_info(i)
                if e[2] == 'otherwise':
                    tb = body.blocks[i]['term']['otherwise']
                    if body.blocks[tb]['term']['t'] == 'unreachable':
                        continue
                    for rv in info['rest']:
                        out.setdefault(rv, []).append((e, reg))
                continue
            out.setdefault(v, []).append((e, reg))
    return out


def calls_in(body, region, noise=True):
    out = []
    for cs in body.calls():
        if cs.node in region:
            if noise and (is_tracing(cs) or is_fmt(cs)):
                continue
            out.append(cs)
    return out


def aggs_in(body, region, adt=None):
    out = []
    for i, s in body.assigns():
        if ('b', i) in region and s['rv']['r'] == 'agg' and 'adt' in s['rv']:
            if adt is None or norm(s['rv']['adt']) == adt:
                out.append((i, s))
    return out


MACHINERY = (POLL, INTO_FUTURE, PIN_NEW, 'core::future::get_context', TRY_BRANCH, FROM_RESIDUAL)


def is_machinery(cs):
    return cs.is_(*MACHINERY) or (cs.declared in MACHINERY)


def const_variant(o):
    """unit-like enum variant given as an aggregate operand origin or const repr -> variant name"""
    return None


def agg_variant_of(body, o):
    """if operand's origin is an enum aggregate: (adt, variant)"""
    s = sem(body, o)
    if s.kind == 'const' and s.extra and 'promoted' in s.extra:
        pb = body.prog.promoted_of(body, s.extra)
        if pb is not None:
            aggs = [st for _, st in pb.aggregates()]
            if len(aggs) == 1:
                return norm(aggs[0]['rv']['adt']), aggs[0]['rv']['variant']
        return None
    if s.kind == 'agg' and 'adt' in s.extra:
        return norm(s.extra['adt']), s.extra['variant']
    if s.kind == 'const' and s.extra and 'repr' in s.extra:
        # `const Adt::Variant` printed by rustc for promoted / const enum values
        r = s.extra['repr']
        m = re.match(r'const (.*)::(\w+)$', r)
        if m:
            return norm(m.group(1)), m.group(2)
    return None


def chain_names(body, o, depth=0):
    """base names of the user variables an operand's value passes through on its exact origin chain"""
    out = []
    if o is None or depth > 40:
        return out
    if 'k' in o:
        if o['k'] == 'const':
            return out
        pl = o['pl']
    else:
        pl = o
    guard = 0
    while guard < 60:
        guard += 1
        l = pl['l']
        for n, p in body.names.items():
            if p['l'] == l and list(p['p']) == list(pl['p'])[:len(p['p'])]:
                out.append(n)
        if l <= body.argc and l != 0:
            return out
        if l in body.user_locals and not body.stable(l):
            # a coroutine re-binds its arguments (`x#1 = x`, then borrows x#1 mutably): still the parameter
            ds0 = [x for x in body.defs().get(l, []) if x[0] == 'assign' and not x[2]['pl']['p']]
            if len(ds0) == 1 and ds0[0][2]['rv']['r'] == 'use' and ds0[0][2]['rv']['a'][0].get('k') in ('copy', 'move') and not pl['p']:
                src = ds0[0][2]['rv']['a'][0]['pl']
                if src['l'] <= body.argc and src['l'] != 0:
                    for n, p in body.names.items():
                        if p['l'] == src['l'] and list(p['p']) == list(src['p']):
                            out.append(n)
            return out
        ds = body.defs().get(l, [])
        whole = [x for x in ds if x[0] == 'call' or not x[2]['pl']['p']]
        if len(whole) != 1:
            return out
        kind, blk, x = whole[0]
        if kind == 'call':
            if (x.declared in TRANSPARENT or x.is_(INTO_FUTURE, PIN_NEW)) and x.args:
                a = x.args[0]
                if a['k'] == 'const':
                    return out
                pl = a['pl']
                continue
            return out
        rv = x['rv']
        if rv['r'] == 'use':
            a = rv['a'][0]
            if a['k'] == 'const':
                return out
            pl = a['pl']
            continue
        if rv['r'] in ('ref', 'copyderef', 'rawptr'):
            pl = rv['pl']
            continue
        if rv['r'] == 'cast':
            a = rv['a'][0]
            if a['k'] == 'const':
                return out
            pl = a['pl']
            continue
        return out
    return out


def is_name(body, o, name, any_shadow=False):
    """operand is (a projection / transparent view of) the user variable or parameter `name`.
    By default only the FIRST binding of that name counts (parameters come first), so that
    `let range = f(range)` shadowing is not mistaken for the parameter."""
    ch = chain_names(body, o)
    if any_shadow:
        return name in [n.split('#')[0] for n in ch] or sem_is_name(body, sem(body, o), name)
    return name in ch or sem_is_name(body, sem(body, o), name, first_only=True)


# ---- enum-valued place conditions ------------------------------------------------------------------

def enum_condition_edges(body, adt, variant, place_ok, predicates=()):
    """Edges on which a place (accepted by place_ok(sem)) of enum type `adt` is known to BE `variant`
    ('is') or known NOT to be it ('not').  Recognised forms: match / if-let / matches! (discriminant switch),
    `== / !=` against the variant constant, and bool predicates listed as (callee, meaning_when_true)."""
    out = {'is': [], 'not': []}
    try:
        all_variants = [v['name'] for v in body.prog.adt(adt)['variants']]
    except AnchorLost:
        all_variants = []
    for i in body.switches():
        info = body.switch_info(i)
        t = body.blocks[i]['term']
        edges = [('e', i, str(v)) for v, _ in t['vals']] + [('e', i, 'otherwise')]
        if info['kind'] == 'variant' and info['adt'] == adt and place_ok(sem(body, info['place'])):
            for e in edges:
                if e not in body.reachable:
                    continue
                lab = body.edge_variant(e)
                if lab == variant:
                    out['is'].append(e)
                elif lab is not None:
                    out['not'].append(e)
                elif e[2] == 'otherwise' and variant in info['listed']:
                    out['not'].append(e)
        elif info['kind'] == 'bool':
            cnd = info['cond']
            if cnd[0] != 'call' or cnd[2]:
                continue
            ecs = cnd[1]
            meaning = None   # True: cond true <=> place is variant
            if ecs.declared in ('core::cmp::PartialEq::eq', 'core::cmp::PartialEq::ne') and len(ecs.args) == 2:
                for a, o in ((0, 1), (1, 0)):
                    if place_ok(sem(body, ecs.args[a])) and agg_variant_of(body, ecs.args[o]) == (adt, variant):
                        meaning = ecs.declared.endswith('::eq')
            for callee, m in predicates:
                if ecs.is_(callee) and ecs.args and place_ok(sem(body, ecs.args[0])):
                    meaning = m
            if meaning is None:
                continue
            for e in edges:
                bval = body.edge_bool(e)
                if bval is None or e not in body.reachable:
                    continue
                if bval == meaning:
                    out['is'].append(e)
                elif len(all_variants) >= 1:
                    out['not'].append(e)
    return out


# ---- normalised comparison facts on edges ---------------------------------------------------------------

_FLIP = {'Lt': ('lt', 0, 1), 'Gt': ('lt', 1, 0), 'Le': ('le', 0, 1), 'Ge': ('le', 1, 0), 'Eq': ('eq', 0, 1), 'Ne': ('ne', 0, 1)}
_NEG = {'lt': 'le', 'le': 'lt', 'eq': 'ne', 'ne': 'eq'}


def cmp_facts(body):
    """[(edge, rel, A, B)] with rel in lt/le/eq/ne meaning `A rel B` holds on that edge; A, B raw operands.
    `a > b`, `b < a`, `!(a <= b)` all give ('lt', b, a)."""
    out = []
    for i in body.switches():
        info = body.switch_info(i)
        if info['kind'] != 'bool':
            continue
        cnd = info['cond']
        ops = None
        if cnd[0] == 'bin' and cnd[1] in _FLIP:
            rel, x, y = _FLIP[cnd[1]]
            ops = (rel, (cnd[2], cnd[3])[x], (cnd[2], cnd[3])[y])
        elif cnd[0] == 'call' and not cnd[2] and cnd[1].declared in ('core::cmp::PartialEq::eq', 'core::cmp::PartialEq::ne') and len(cnd[1].args) == 2:
            ops = ('eq' if cnd[1].declared.endswith('::eq') else 'ne', cnd[1].args[0], cnd[1].args[1])
        elif cnd[0] == 'call' and not cnd[2] and cnd[1].declared in ('core::cmp::PartialOrd::lt', 'core::cmp::PartialOrd::le', 'core::cmp::PartialOrd::gt', 'core::cmp::PartialOrd::ge'):
            nm = cnd[1].declared.rsplit('::', 1)[-1].capitalize()
            rel, x, y = _FLIP[nm]
            ops = (rel, cnd[1].args[x], cnd[1].args[y])
        if ops is None:
            continue
        t = body.blocks[i]['term']
        for e in [('e', i, str(v)) for v, _ in t['vals']] + [('e', i, 'otherwise')]:
            if e not in body.reachable:
                continue
            bval = body.edge_bool(e)
            if bval is None:
                continue
            rel, a, b = ops
            if bval:
                out.append((e, rel, a, b))
            else:
                nrel = _NEG[rel]
                if rel in ('lt', 'le'):
                    out.append((e, nrel, b, a))
                else:
                    out.append((e, nrel, a, b))
    return out


def facts_dominating(body, node, facts=None):
    facts = facts if facts is not None else cmp_facts(body)
    return [f for f in facts if dom(body, f[0], node)]


def has_fact(body, node, rel, pa, pb, facts=None, symmetric=None):
    """some dominating edge carries `A rel B` with pa(A-operand) and pb(B-operand) true.
    eq/ne are symmetric; `lt` also satisfies a request for `le`."""
    for (e, r, a, b) in facts_dominating(body, node, facts):
        if r == rel or (rel == 'le' and r == 'lt') or (rel == 'ne' and r == 'lt'):
            if pa(a) and pb(b):
                return True
            if r in ('eq', 'ne') and pa(b) and pb(a):
                return True
    return False


def const_val(body, o):
    """integer value of a constant operand (literal, or named const resolved through the program)"""
    if o is None:
        return None
    s = sem(body, o)
    if s.kind == 'cast':
        inner = s.extra[0]
        if inner.kind == 'const':
            s = inner
    if s.kind != 'const':
        return None
    x = s.extra or {}
    if 'val' in x:
        try:
            return int(x['val'])
        except ValueError:
            return None
    if 'def' in x:
        d = norm(x['def'])
        if d in body.prog.consts:
            return body.prog.consts[d]
        cb = body.prog.get(d)
        if cb is not None and cb.kind in ('Const', 'AssocConst') and cb is not body:
            # a constant whose value was not evaluated by the driver (associated consts): `_0 = <literal>`
            ds = cb.whole_defs(0)
            if len(ds) == 1 and ds[0][0] == 'assign' and ds[0][2]['rv']['r'] == 'use':
                return const_val(cb, ds[0][2]['rv']['a'][0])
        if d.endswith('::MAX') and 'u16' in d:
            return 65535
        if d.endswith('::MAX') and 'u8' in d:
            return 255
    return None


def const_def(body, o):
    s = sem(body, o)
    if s.kind == 'const' and s.extra and 'def' in s.extra:
        return norm(s.extra['def'])
    return None


# ---- P13: must-pass-through summaries ---------------------------------------------------------------------

def ok_exit_nodes(body):
    return [x for x in ok_exits(body)]


def must_call_on_ok(P, path, targets, depth=3, _seen=None):
    """every success exit of function `path` is dominated by the success edge of a *checked* call to one of
    `targets` -- directly, or through a callee for which the same holds (transitively, bounded depth).
    returns (bool, explanation)"""
    _seen = _seen or set()
    if path in _seen or depth < 0:
        return False, 'recursion / depth'
    _seen = _seen | {path}
    b = P.get(path)
    if b is None:
        return False, 'no body for %s' % path
    if b.is_async:
        b = P.get(path + '::{closure#0}') or b
    exs = ok_exits(b)
    if not exs:
        return False, 'no success exit'
    witnesses = []
    for cs in b.calls():
        direct = cs.is_(*targets)
        via = False
        if not direct:
            for n in cs.names():
                if P.has(n) and n != path:
                    ok, _ = must_call_on_ok(P, n, targets, depth - 1, _seen)
                    if ok:
                        via = True
                        break
        if direct or via:
            oc = outcomes(b, cs)
            if oc.get('success'):
                witnesses.append((cs, oc['success']))
    for x in exs:
        # a delegated exit: tail call to a function that itself satisfies the summary
        if x['kind'] == 'call':
            cs = x['cs']
            if cs.is_(*targets):
                continue
            okd = False
            for n in cs.names():
                if P.has(n) and n != path:
                    ok, _ = must_call_on_ok(P, n, targets, depth - 1, _seen)
                    okd = okd or ok
            if okd:
                continue
        if not any(dominated_by_any(b, edges, x['node']) for _, edges in witnesses):
            return False, 'success exit at %s of %s is not dominated by a checked call to %s' % (x['node'], path, list(targets))
    return True, 'all %d success exits of %s pass through %s' % (len(exs), path, [w[0].callee for w in witnesses][:3])


def int_arms(body, place_ok=None):
    """integer `match`: {value(str) | 'otherwise': region} for switches whose scrutinee origin satisfies place_ok"""
    out = []
    for i in body.switches():
        info = body.switch_info(i)
        if info['kind'] != 'int':
            continue
        t = body.blocks[i]['term']
        s = sem(body, t['discr'])
        if place_ok is not None and not place_ok(s):
            continue
        regs = arm_regions(body, i)
        out.append((i, {e[2]: reg for e, reg in regs.items()}))
    return out


def exit_in(body, region, exs=None):
    exs = exs if exs is not None else exits(body)
    return [x for x in exs if x['node'] in region]


def identity_on_ok(P, path):
    """every success exit of `path` returns its first parameter unchanged (a pure check such as limited_count)"""
    b = P.get(path)
    if b is None or b.is_async:
        return False
    xs = ok_exits(b)
    if not xs:
        return False
    for x in xs:
        if x['kind'] != 'agg' or x['variant'] not in ('Ok', 'Some'):
            return False
        s = sem(b, x['rv']['a'][0])
        if not (s.kind == 'place' and s.local == 1 and s.proj == ()):
            return False
    return True


def through_checks(P, body, o):
    """semantic origin of an operand, looking through checked identity-on-success calls (value-preserving checks)"""
    s = sem(body, o)
    guard = 0
    def ok_payload(x):
        return (x.checked and x.proj == ('<ok>',)) or _strip(x.proj, 'Ok') == () or _strip(x.proj, 'Some') == ()
    while s.kind == 'call' and ok_payload(s) and guard < 6:
        ok = any(P.has(n) and identity_on_ok(P, n) for n in s.cs.names())
        if not ok:
            break
        s = sem(body, s.cs.args[0])
        guard += 1
    return s


LIMITED_COUNT = 'rodbus::types::AddressRange::limited_count'


def limit_witnesses(P, b, const_path, value):
    """calls in `b` whose success implies `count <= const`: limited_count(_, CONST) directly, or a helper whose
    success exits all pass through such a call (depth 2); plus direct comparison edges against the constant"""
    wit = []
    for cs in b.calls():
        if cs.is_(LIMITED_COUNT) and len(cs.args) > 1 and (const_def(b, cs.args[1]) == const_path or const_val(b, cs.args[1]) == value):
            wit.append((cs, outcomes(b, cs).get('success', [])))
            continue
        for nme in cs.names():
            hb = P.get(nme)
            if hb is None or nme == b.path:
                continue
            inner = [x for x in hb.calls(LIMITED_COUNT) if len(x.args) > 1 and (const_def(hb, x.args[1]) == const_path or const_val(hb, x.args[1]) == value)]
            if inner and all(any(dominated_by_any(hb, outcomes(hb, x).get('success', []), ex['node']) for x in inner) for ex in ok_exits(hb)):
                wit.append((cs, outcomes(b, cs).get('success', [])))
                break
    edges = []
    for (e, rel, a, bb) in cmp_facts(b):
        if rel in ('le', 'lt'):
            if (const_def(b, bb) == const_path or const_val(b, bb) == (value if rel == 'le' else value + 1)) and \
                    ('count' in chain_names(b, a) or any('count' in p for p in sem(b, a).proj)):
                edges.append(e)
    return wit, edges




def reinitialised_each_iteration(body, use_node, var_name, const_value=0):
    """`use_node` lies in a loop, and on every cyclic path through it the user variable `var_name` is re-assigned
    the constant `const_value` (e.g. a per-byte accumulator cleared after / before each flush).
    Decided by deleting the blocks that assign the constant and asking whether use_node is still on a cycle."""
    cyc = body.cycle_of(use_node)
    if cyc is None:
        return False, 'use is not in a loop'
    pls = [pl for n, pl in body.names.items() if n.split('#')[0] == var_name and not pl['p']]
    if not pls:
        return False, 'variable %s not found' % var_name
    locs = {pl['l'] for pl in pls}
    resets = set()
    for i, s in body.assigns():
        if s['pl']['l'] in locs and not s['pl']['p'] and s['rv']['r'] == 'use' and const_val(body, s['rv']['a'][0]) == const_value:
            resets.add(('b', i))
    inside = resets & cyc
    if not inside:
        return False, 'no `%s = %s` inside the loop' % (var_name, const_value)
    # is use_node still on a cycle when the reset blocks are removed?
    seen = set()
    st = [use_node]
    while st:
        n = st.pop()
        for s in body.succ[n]:
            if s in inside or s not in cyc:
                continue
            if s == use_node:
                return False, 'a cyclic path through the use avoids every `%s = %s`' % (var_name, const_value)
            if s not in seen:
                seen.add(s)
                st.append(s)
    return True, '%d reset site(s) cut every cycle through the use' % len(inside)


# ---- what a function does when a call fails --------------------------------------------------------

def exit_is_failure(body, x):
    """the exit returns a failure value whatever happened before: Err(..)/None aggregate, or the `?` conversion"""
    if x['kind'] == 'agg':
        return x['variant'] in ('Err', 'None', 'Break')
    if x['kind'] == 'call':
        return x['cs'].is_(FROM_RESIDUAL)
    return False


CLASS_KEEPING = ('core::result::Result::map_err', 'core::result::Result::map', 'core::option::Option::map', 'core::option::Option::ok_or', 'core::option::Option::ok_or_else',
                 'core::result::Result::and_then' )


def _variant_class(v):
    if v in SUCCESS:
        return 'success'
    if v in FAILURE:
        return 'failure'
    return None


def value_class_from(body, edge, o, node, depth=0):
    """on the paths that start at `edge` and reach `node`: is the Result / Option value of operand `o` certainly a
    success ('success') or certainly a failure ('failure') there?  Evident cases only: an aggregate, a `?` residual
    conversion, an adapter that keeps success-ness applied to such a value, or a variable all of whose definitions lying
    between the edge and the node are of one class (and one of them is always passed)."""
    if o is None or depth > 4 or o.get('k') not in ('copy', 'move'):
        return None
    pl = o['pl']
    if pl['p']:
        return None
    l = pl['l']
    ds = body.whole_defs(l)
    rs = body.reach_set(edge) | {edge}
    if len(ds) > 1:
        cand = [d for d in ds if (('b', d[1]) in rs)]
        if not cand:
            return None
        blocks = {('b', d[1]) for d in cand}
        if node in body.reach_set(edge, avoid=blocks) and node not in blocks:
            return None          # some path from the edge reaches the use without passing one of them
        ds = cand
    if not ds:
        return None
    classes = set()
    for d in ds:
        if d[0] == 'call':
            cs = d[2]
            if cs.is_(FROM_RESIDUAL):
                classes.add('failure')
            elif cs.declared in CLASS_KEEPING and cs.declared != 'core::result::Result::and_then' and cs.args:
                classes.add(value_class_from(body, edge, cs.args[0], cs.node, depth + 1))
            else:
                classes.add(None)
        else:
            rv = d[2]['rv']
            if rv['r'] == 'agg' and 'adt' in rv:
                classes.add(_variant_class(rv.get('variant')))
            elif rv['r'] == 'use':
                classes.add(value_class_from(body, edge, rv['a'][0], ('b', d[1]), depth + 1))
            else:
                classes.add(None)
    if len(classes) == 1:
        return classes.pop()
    return None


def exit_class_from(body, edge, x):
    """class of the value an exit returns on the paths from `edge` (see value_class_from)"""
    if x['kind'] == 'agg':
        return _variant_class(x['variant'])
    if x['kind'] == 'call':
        cs = x['cs']
        if cs.is_(FROM_RESIDUAL):
            return 'failure'
        if cs.declared in CLASS_KEEPING and cs.declared != 'core::result::Result::and_then' and cs.args:
            return value_class_from(body, edge, cs.args[0], cs.node)
        return None
    if x['kind'] == 'copy':
        return value_class_from(body, edge, x['op'], x['node'])
    return None



def reach_from_outcome(body, cs, e, oc=None):
    """nodes reachable from edge `e`, which is one of the outcome edges of call `cs`, without taking an outcome edge of
    the *opposite* class of the same value later on (`if r.is_err() {..}` followed by `r?`: from the is_err edge the
    Continue arm of the `?` is infeasible).  The pruning stops where `cs` is executed again (a new value)."""
    oc = oc or outcomes(body, cs)
    succ_e, fail_e = set(oc.get('success', [])), set(oc.get('failure', []))
    if e in fail_e:
        opposite = succ_e - fail_e
    elif e in succ_e:
        opposite = fail_e - succ_e
    else:
        opposite = set()
    r1 = body.reach_set(e, avoid=opposite | {cs.node})
    again = any(cs.node in body.succ.get(n, []) for n in r1 | {e})
    if again:
        r1 = r1 | {cs.node} | body.reach_set(cs.node)
    return r1

def failure_leaves(body, cs, also=()):
    """When `cs` yields its failure variant (Err / None; `also`: further variant names counted as failure) the function
    returns a failure value on every path.  Recognised shapes: the outcome is examined (match, if-let, `?` -- possibly
    after error-mapping adapters) and every exit reachable from the failure edge is a failure exit; or the outcome is
    not examined at all and the call's value itself (through adapters that keep failure-ness) is what is returned.
    Returns (ok, how, detail)."""
    oc = outcomes(body, cs)
    fe = list(oc.get('failure', []))
    for a in also:
        fe += [e for e in oc.get(a, []) if e not in fe]
    exs = exits(body)
    if fe:
        bad = []
        n = 0
        for e in fe:
            rs = reach_from_outcome(body, cs, e, oc)
            for x in exs:
                if x['node'] in rs or x['node'] == e:
                    n += 1
                    if not exit_is_failure(body, x) and exit_class_from(body, e, x) != 'failure':
                        bad.append(x)
        return (n > 0 and not bad, 'examined', '%d failure edge(s), %d exits reached, %d not failure exits' % (len(fe), n, len(bad)))
    if oc:
        return (False, 'examined', 'the outcome is examined but no failure edge was found')
    fw = []
    for x in exs:
        v = None
        if x['kind'] == 'copy':
            v = x['sem']
        elif x['kind'] == 'call':
            v = _sem_call(body, x['cs'], (), True, 0)
        if v is not None and v.kind == 'call' and v.cs is cs and not v.proj:
            fw.append(x)
    return (bool(fw), 'forwarded', '%d exits return the call\'s own value' % len(fw))


def success_leaves(body, cs):
    """mirror image of failure_leaves: when `cs` succeeds the function returns a success value on every path from
    there (examined: every exit reachable from the success edge is Ok(..)/Some(..); or the call's own value is returned
    through adapters that keep success-ness)."""
    oc = outcomes(body, cs)
    se = list(oc.get('success', []))
    exs = exits(body)
    if se:
        bad = []
        n = 0
        for e in se:
            rs = reach_from_outcome(body, cs, e, oc)
            for x in exs:
                if x['node'] in rs or x['node'] == e:
                    n += 1
                    if not (x['kind'] == 'agg' and x['variant'] in ('Ok', 'Some', 'Continue')) and exit_class_from(body, e, x) != 'success':
                        bad.append(x)
        return (n > 0 and not bad, 'examined', '%d success edge(s), %d exits reached, %d not success exits' % (len(se), n, len(bad)))
    if oc:
        return (False, 'examined', 'the outcome is examined but no success edge was found')
    fw = []
    for x in exs:
        v = None
        if x['kind'] == 'copy':
            v = x['sem']
        elif x['kind'] == 'call':
            v = _sem_call(body, x['cs'], (), True, 0)
        if v is not None and v.kind == 'call' and v.cs is cs and not v.proj:
            fw.append(x)
    return (bool(fw), 'forwarded', '%d exits return the call\'s own value' % len(fw))


def initial_value(body, s, depth=0):
    """for a Sem that stopped at a user variable which is later borrowed mutably (`let mut x = <expr>; x.f()`):
    the semantic origin of the value it was bound to (its single whole definition), projected as `s` is.
    Identity questions ("is this the request that was dequeued?") are about that binding."""
    if s.kind != 'place' or depth > 6:
        return s
    l = s.local
    if l <= body.argc and l != 0:
        return s
    ds = [d for d in body.defs().get(l, []) if d[0] == 'call' or not d[2]['pl']['p']]
    if len(ds) != 1:
        return s
    d = ds[0]
    if d[0] == 'call':
        return _sem_call(body, d[2], tuple(s.proj), True, 0)
    rv = d[2]['rv']
    if rv['r'] != 'use' or rv['a'][0].get('k') not in ('copy', 'move'):
        return s
    src = rv['a'][0]['pl']
    inner = sem(body, {'l': src['l'], 'p': list(src['p'])})
    if inner.kind == 'place' and inner.local == l:
        return s
    out = Sem(inner.kind, inner.cs, inner.local, tuple(inner.proj) + tuple(s.proj), inner.const, inner.extra, inner.checked)
    return initial_value(body, out, depth + 1) if out.kind == 'place' else out


def sem_alts(body, o, depth=0, want=None):
    """all semantic origins an operand may have: a value merged from several definitions (if/else initialisation, the
    result of an inlined helper with several exits) is expanded into one alternative per definition.  A rule that
    accepts a value asks that every alternative be acceptable."""
    s = o if isinstance(o, Sem) else sem(body, o, want=want)
    if not (s.kind == 'place' and s.extra == 'multi') or depth > 3:
        return [s]
    out = []
    for d in body.whole_defs(s.local):
        org = body.origin_from_def(d, s.proj, 0, want)
        a = _sem_org(body, org, True, 0, want)
        if a.kind == 'impossible':
            continue
        if a.kind == 'call' and a.cs.is_(FROM_RESIDUAL) and a.proj and (a.proj[0] == '<ok>' or (a.proj[0].startswith('downcast:') and a.proj[0].split(':', 2)[2] in ('Ok', 'Some'))):
            continue        # the value `?` returns early with is a failure: its success payload does not exist
        if a.kind == 'place' and a.extra == 'multi' and a.local != s.local:
            out += sem_alts(body, a, depth + 1, want)
        else:
            out.append(a)
    return out


def exit_error(body, x):
    """the error value an error exit returns, as far as it is evident: ('variant', (adt, name)) for `Err(E::V)` and
    for `opt.ok_or(E::V)?`; ('call', cs) when the error of another call is propagated by `?`; None otherwise"""
    if x['kind'] == 'agg' and x['variant'] == 'Err':
        v = agg_variant_of(body, x['rv']['a'][0])
        return ('variant', v) if v else None
    if x['kind'] == 'call' and x['cs'].is_(FROM_RESIDUAL) and x['cs'].args:
        org = body.origin(x['cs'].args[0])
        if org[0] == 'call' and org[1].is_(TRY_BRANCH) and org[1].args:
            src = body.origin(org[1].args[0])
            guard = 0
            while src[0] == 'call' and guard < 6:
                guard += 1
                cs = src[1]
                if cs.is_('core::option::Option::ok_or') and len(cs.args) == 2:
                    v = agg_variant_of(body, cs.args[1])
                    return ('variant', v) if v else None
                if cs.declared in TRANSPARENT and cs.declared != 'core::result::Result::map_err' and cs.args:
                    src = body.origin(cs.args[0])
                    continue
                return ('call', cs)
    return None


def lookup_or_error(body, get_cs, err_variant):
    """the function returns `Ok(value found by get_cs)` when the lookup finds something and `Err(<err_variant>)` when it
    does not - written with `ok_or` (possibly after `copied()`), or as an explicit match on the lookup.  err_variant is
    (adt, variant).  Returns (ok, detail)."""
    xs = exits(body)
    adapters = [x for x in xs if x['kind'] == 'call' and x['cs'].is_('core::option::Option::ok_or')]
    if len(xs) == 1 and len(adapters) == 1:
        a = adapters[0]['cs']
        v = sem(body, a.args[0])
        ok = v.kind == 'call' and v.cs is get_cs and not v.proj and agg_variant_of(body, a.args[1]) == err_variant
        return ok, 'ok_or form'
    oc = outcomes(body, get_cs)
    okx = [x for x in xs if x['kind'] == 'agg' and x['variant'] == 'Ok']
    erx = [x for x in xs if x['kind'] == 'agg' and x['variant'] == 'Err']
    ok = len(okx) == 1 and len(erx) == 1 and len(xs) == 2 and dominated_by_any(body, oc.get('Some', []), okx[0]['node']) and dominated_by_any(body, oc.get('None', []), erx[0]['node'])
    ok = ok and agg_variant_of(body, erx[0]['rv']['a'][0]) == err_variant
    if ok:
        v = sem(body, okx[0]['rv']['a'][0])
        ok = v.kind == 'call' and v.cs is get_cs
    return ok, 'match form: %d Ok exits, %d Err exits' % (len(okx), len(erx))


def always_passes(body, start, sinks, escapes=()):
    """every path from `start` to a return of the function passes one of the `sinks` (nodes), except paths that leave
    through one of the `escapes` (edges on which doing nothing is the specified behaviour).  Returns (ok, witnesses):
    the return blocks reachable when sinks and escapes are removed."""
    avoid = set(sinks) | set(escapes)
    if start in avoid:
        return (True, [])
    rs = body.reach_set(start, avoid=avoid) | {start}
    leak = [n for n in rs if n[0] == 'b' and body.blocks[n[1]]['term']['t'] == 'return']
    return (not leak, leak)


def is_error_of(body, o, callee, _d=0):
    """operand is the error payload (`Err(e)` / `?` residual) of the awaited result of a call to `callee` - possibly merged
    from several such calls (two code paths running the same transaction) and possibly wrapped by tracing's
    `.instrument(span)` - however the variable holding it is named"""
    alts = sem_alts(body, o)
    if not alts:
        return False
    for a in alts:
        if a.kind != 'call':
            return False
        j = ''.join(a.proj)
        if ':Err' not in j and '<residual>' not in j:
            return False
        cs = a.cs
        if cs.is_(callee):
            continue
        if (cs.callee or '').endswith('Instrument::instrument') and cs.args:
            inner = sem(body, cs.args[0])
            if inner.kind == 'call' and inner.cs.is_(callee):
                continue
        return False
    return True


def may_be_error_of(body, o, callee, _d=0):
    """some alternative of the operand is the error of a call to `callee`, possibly converted on the way by `?` / From /
    Into / `Err(..)` re-wrapping in helper functions (a necessary condition for "the error returned is that error" on
    a value merged from several error sources)"""
    if _d > 6:
        return False
    for a in sem_alts(body, o):
        j = ''.join(a.proj)
        if a.kind == 'call':
            cs = a.cs
            if (':Err' in j or '<residual>' in j) and cs.is_(callee):
                return True
            if (cs.callee or '').endswith('Instrument::instrument') and cs.args and (':Err' in j or '<residual>' in j):
                inner = sem(body, cs.args[0])
                if inner.kind == 'call' and inner.cs.is_(callee):
                    return True
            if (cs.is_(FROM_RESIDUAL) or (cs.declared or '') in ('core::convert::From::from', 'core::convert::Into::into')) and cs.args:
                if may_be_error_of(body, cs.args[0], callee, _d + 1):
                    return True
        elif a.kind == 'agg' and a.extra and a.extra.get('variant') == 'Err' and a.extra.get('a'):
            if may_be_error_of(body, a.extra['a'][0], callee, _d + 1):
                return True
    return False


def is_result_of(body, o, callee):
    """operand / place is the (awaited) result value of a call to `callee`, possibly merged from several such calls and
    possibly wrapped by tracing's `.instrument(span)` - whatever the variable holding it is called"""
    alts = sem_alts(body, o)
    if not alts:
        return False
    for a in alts:
        if a.kind != 'call' or a.proj:
            return False
        cs = a.cs
        if cs.is_(callee):
            continue
        if (cs.callee or '').endswith('Instrument::instrument') and cs.args:
            inner = sem(body, cs.args[0])
            if inner.kind == 'call' and inner.cs.is_(callee):
                continue
        return False
    return True


def builder_fields(body, adt):
    """for a by-value builder method `fn m(self, ..) -> Self`: field name -> 'kept' (the value of the same field of self),
    'param' (derived from another parameter only) or 'other'; None if the method does not have one of the two recognised
    shapes (`Self { x, ..self }` / `self.x = x; self`)"""
    P = body.prog
    a = P.adt(adt)
    names = [f['name'] for v in a['variants'] for f in v['fields']]
    xs = exits(body)
    if len(xs) != 1:
        return None
    x = xs[0]
    out = {}
    def classify(o):
        cl = body.op_closure(o)
        params = {('l', i) for i in range(2, len(body.sig_in) + 1)}
        if ('l', 1) not in cl and (cl & params or const_val(body, o) is not None):
            return 'param'
        return 'other'
    if x['kind'] == 'agg' and norm(x['adt']) == adt and len(x['rv']['a']) == len(names):
        for i, (nm, o) in enumerate(zip(names, x['rv']['a'])):
            s = sem(body, o)
            if s.kind == 'place' and s.local == 1 and len(s.proj) == 1 and s.proj[0].startswith('field:%d:' % i):
                out[nm] = 'kept'
            else:
                out[nm] = classify(o)
        return out
    if x['kind'] == 'copy' and x['sem'].kind == 'place' and x['sem'].local == 1 and not x['sem'].proj:
        out = {nm: 'kept' for nm in names}
        for i, s in body.assigns():
            pl = s['pl']
            if pl['l'] == 1:
                if not pl['p'] or not pl['p'][0].startswith('field:'):
                    return None
                nm = pl['p'][0].split(':', 2)[2]
                out[nm] = classify(s['rv']['a'][0]) if s['rv']['r'] == 'use' and len(pl['p']) == 1 else 'other'
        return out
    return None


WIDEN = ('core::convert::From::from', 'core::convert::Into::into')


def widened(body, o):
    """the value under a lossless widening (`u32::from(x)`, `x as u32`, `usize::from(x)`): returns the inner Sem, or the
    Sem of `o` itself if it is not widened"""
    s = sem(body, o) if not isinstance(o, Sem) else o
    for _ in range(4):
        if s.kind == 'call' and s.cs.declared in WIDEN and s.cs.args and not s.proj:
            s = sem(body, s.cs.args[0])
            continue
        if s.kind == 'cast' and s.extra:
            s = s.extra[0]
            continue
        break
    return s


def int_value(body, o, _d=0):
    """integer value of an operand that is a constant expression written out at run time: a literal / named constant,
    a widening of one, or a sum / difference of such (`u32::from(u16::MAX) + 1`); None if not evident"""
    if _d > 6 or o is None:
        return None
    v = const_val(body, o)
    if v is not None:
        return v
    s = sem(body, o) if not isinstance(o, Sem) else o
    if s.proj and not (len(s.proj) == 1 and s.proj[0].startswith('field:0')):
        return None
    if s.kind == 'call' and s.cs.declared in WIDEN and s.cs.args:
        return int_value(body, s.cs.args[0], _d + 1)
    if s.kind == 'cast' and s.extra:
        inner = s.extra[0]
        if inner.kind == 'const' and isinstance(inner.extra, dict):
            return const_val(body, inner.extra) if 'k' in inner.extra else None
        return None
    if s.kind == 'bin':
        a, b_ = int_value(body, s.extra[2], _d + 1), int_value(body, s.extra[3], _d + 1)
        if a is None or b_ is None:
            return None
        op = s.extra[1]
        if op.startswith('Add'):
            return a + b_
        if op.startswith('Sub'):
            return a - b_
        if op.startswith('Mul'):
            return a * b_
    return None


def exit_sem(body, x):
    """the value an exit returns as a semantic origin, whatever the kind of the exit"""
    if x['kind'] == 'call':
        return Sem('call', cs=x['cs'])
    if x['kind'] == 'agg':
        return Sem('agg', extra=x['rv'])
    if x['kind'] == 'copy':
        return x['sem']
    if x['kind'] == 'const':
        return sem(body, x['op'])
    return Sem('other')


def pinned_args(body, cs, names):
    """the operands a call passes for the pinned parameter names `names` of its callee (in that order).  Normally
    that is positional; if the callee's parameters were bundled into the type of `self` (inline.relocate_moved) the operand is
    the field of the `self` aggregate built at the call site, or one of the remaining parameters by its own name."""
    P = body.prog
    bundled = getattr(P, 'bundled', {}) or {}
    callee = cs.callee
    if callee not in bundled:
        return {n: (cs.args[i] if i < len(cs.args) else None) for i, n in enumerate(names)}
    out = {n: None for n in names}
    hb = P.get(callee)
    selfv = sem(body, cs.args[0]) if cs.args else None
    fields = {}
    if selfv is not None and selfv.kind == 'agg' and isinstance(selfv.extra, dict) and selfv.extra.get('fields'):
        fields = dict(zip(selfv.extra['fields'], selfv.extra['a']))
    own = {}
    if hb is not None:
        for nm, pl in hb.names.items():
            if not pl['p'] and 1 <= pl['l'] <= hb.argc and '#' not in nm:
                own[nm] = pl['l'] - 1
    for n in names:
        if n in fields:
            out[n] = fields[n]
        elif n in own and own[n] < len(cs.args):
            out[n] = cs.args[own[n]]
    return out
