"""P12: panic-site inventory with automatic discharges and a frozen table of reasoned exceptions."""
import re
from facts import norm, op_local
import q

PANIC_CALLS = ('core::option::Option::unwrap', 'core::option::Option::expect', 'core::result::Result::unwrap', 'core::result::Result::expect',
               'core::result::Result::unwrap_err', 'core::result::Result::expect_err')
ARITH_TRAITS = ('core::ops::arith::Add::add', 'core::ops::arith::Sub::sub', 'core::ops::arith::Mul::mul', 'core::ops::arith::Div::div',
                'core::ops::arith::Rem::rem', 'core::ops::arith::AddAssign::add_assign', 'core::ops::arith::SubAssign::sub_assign',
                'core::ops::arith::MulAssign::mul_assign', 'core::ops::arith::Neg::neg')
INDEX_TRAITS = ('core::ops::index::Index::index', 'core::ops::index::IndexMut::index_mut')
SLICE_PANICS = ('copy_from_slice', 'copy_within', 'split_at', 'split_at_mut', 'swap', 'clone_from_slice', 'remove', 'swap_remove', 'insert', 'drain', 'truncate_front')
BITS = {'u8': 8, 'i8': 8, 'u16': 16, 'i16': 16, 'u32': 32, 'i32': 32, 'u64': 64, 'i64': 64, 'u128': 128, 'i128': 128, 'usize': 64, 'isize': 64}
COMMUTATIVE = ('Add', 'Mul', 'BitOr', 'BitAnd', 'BitXor', 'Eq', 'Ne')
NARROW = {'u8': 8, 'u16': 16, 'bool': 1, 'u32': 32}


ADAPTERS = ('map', 'for_each', 'fold', 'filter', 'filter_map', 'all', 'any', 'try_for_each', 'try_fold', 'find', 'position', 'flat_map', 'inspect', 'take_while', 'skip_while', 'scan')
_ctx_cache = {}


def gone_closures(P):
    """closure literals that the view wrote into their (only) caller: their operations are inventoried there"""
    il = getattr(P, 'inline_log', None)
    if il is None:
        return set()
    return {p for p in getattr(il, 'inlined_fns', ()) if p not in getattr(il, 'kept', ()) and re.search(r'\{closure#\d+\}$', p)}


def closure_context(body):
    """for a closure that is the callback of an iterator adapter: (parent body, the closure aggregate, the adapter call,
    whether the adapted iterator is an `enumerate()`), else None.  A panic-capable site inside such a closure is the same
    site as in the loop the adapter replaces; its operands are described the way the loop form describes them."""
    if body.kind != 'Closure':
        return None
    key = id(body)
    if key in _ctx_cache:
        return _ctx_cache[key]
    P = body.prog
    res = None
    idx = P.__dict__.get('_closure_homes')
    if idx is None:
        idx = {}
        for b in P.all_bodies():
            for i, st in b.assigns():
                rv = st['rv']
                if rv['r'] == 'agg' and 'closure' in rv:
                    idx.setdefault(norm(rv['closure']), []).append((b, st))
        P.__dict__['_closure_homes'] = idx
    gone = gone_closures(P)
    homes = [h for h in idx.get(body.path, []) if h[0] is not body and not (h[0].kind == 'Closure' and h[0].path in gone)]
    if len(homes) == 1:
        pb, st = homes[0]
        user = [cs for cs in pb.calls() if any(q.sem(pb, a).kind == 'agg' and q.sem(pb, a).extra is st['rv'] for a in cs.args[1:])]
        if len(user) == 1 and (user[0].declared or '').startswith('core::iter::traits::iterator::Iterator::') and user[0].declared.rsplit('::', 1)[-1] in ADAPTERS:
            cl = pb.op_closure(user[0].args[0])
            enum_ = any(y[0] == 'call' and y[1] == 'core::iter::traits::iterator::Iterator::enumerate' for y in cl)
            res = (pb, st, user[0], enum_)
    _ctx_cache[key] = res
    return res


def operand_sig(body, o, depth=0):
    """stable textual description of an operand: user names and field paths, constants, call results"""
    if o is None:
        return '?'
    # a constant reads the same whether it is a literal, a named constant or a widening of one (`usize::from(K)`)
    v = q.int_value(body, o) if depth < 4 else None
    if v is not None:
        return str(v)
    if o['k'] == 'const':
        d = o.get('def')
        if d:
            return norm(d).rsplit('::', 2)[-1] if '::' in d else d
        return str(o.get('val', o.get('repr', 'const')))
    s = q.sem(body, o)
    return sem_sig(body, s, depth)


def sem_sig(body, s, depth=0):
    if depth > 4:
        return '..'
    if s.kind == 'place' and body.kind == 'Closure' and depth < 4:
        ctx = closure_context(body)
        if ctx is not None:
            pb, st, user, enum_ = ctx
            pr = [p for p in s.proj if p != 'deref']
            if s.local == 1 and pr and pr[0].startswith('field:'):
                # a captured variable: described as the value it captures in the enclosing function
                i = int(pr[0].split(':')[1])
                if i < len(st['rv']['a']):
                    ps = q.sem(pb, st['rv']['a'][i])
                    ps = q.Sem(ps.kind, ps.cs, ps.local, tuple(ps.proj) + tuple(pr[1:]), ps.const, ps.extra, ps.checked)
                    return sem_sig(pb, ps, depth + 1)
            item = 3 if user.declared.endswith('::fold') or user.declared.endswith('::try_fold') else 2
            if enum_ and s.local == item and pr and pr[0].startswith('field:0:'):
                # the index an enumerate() hands to the callback == `.next()?.0` of the loop form
                return 'Iterator>::next().' + ''.join('.' + p.split(':')[-1] for p in pr[1:] if p.startswith('field:'))
    if s.kind == 'place':
        pj = [p for p in s.proj if not p.startswith('<')]
        is_param = (s.local <= body.argc and s.local != 0) or (body.kind == 'Closure' and s.local in (1, 2))
        if not is_param and s.local in body.user_locals_named() and not any(n.split('#')[0] in body.upvars for n in [body.name_of(s.local) or '']):
            # a local variable is described by its type, not its name (renaming it is not a change)
            ty = body.locals[s.local] if s.local < len(body.locals) else '?'
            txt = body.place_str({'l': s.local, 'p': pj})
            nm = body.name_of(s.local) or ''
            return re.sub(r'#\d+', '', txt).replace(nm.split('#')[0], 'var:' + ty.rsplit('::', 1)[-1], 1) if nm else txt
        txt = body.place_str({'l': s.local, 'p': pj})
        return re.sub(r'^\*+', '*', re.sub(r'#\d+', '', txt))      # `**x` (a captured reference, inlined) reads as `*x`
    if s.kind == 'const':
        return str(s.const).rsplit('::', 1)[-1]
    if s.kind == 'call' and s.cs.declared in ('core::convert::From::from', 'core::convert::Into::into') and s.cs.args and not s.proj and not s.cs.dest['p'] \
            and body.locals[s.cs.dest['l']] in BITS and (ty_of(body, s.cs.args[0]) in BITS or width_bounded(body, s.cs.args[0]) is not None):
        # a lossless integer widening reads the same whether written `x as usize` or `usize::from(x)`
        return '(%s as %s)' % (operand_sig(body, s.cs.args[0], depth + 1), body.locals[s.cs.dest['l']])
    if s.kind == 'call':
        nm = (s.cs.callee or 'indirect').split('::')[-1]
        base = (s.cs.callee or '').split('::')[-2] if '::' in (s.cs.callee or '') else ''
        # the success payload reads the same whether it was taken with `?` or by a match on Ok / Some
        pr = []
        skip = False
        for p in s.proj:
            if skip and p.startswith('field:0:'):
                skip = False
                continue
            skip = p.startswith('downcast:') and p.split(':', 2)[2] in ('Ok', 'Some', 'Continue')
            if p.startswith('field:'):
                pr.append(p)
        pj = ''.join('.' + p.split(':')[-1] for p in pr)
        return '%s::%s()%s' % (base, nm, pj)
    if s.kind == 'cast':
        return '(%s as %s)' % (sem_sig(body, s.extra[0], depth + 1), s.extra[1])
    if s.kind == 'bin':
        o = s.extra
        opn = o[1].replace('WithOverflow', '')
        xs = [operand_sig(body, o[2], depth + 1), operand_sig(body, o[3], depth + 1)]
        if opn in COMMUTATIVE:
            xs.sort()
        return '%s(%s, %s)' % (opn, xs[0], xs[1])
    if s.kind == 'agg':
        return 'agg'
    return s.kind


def ty_of(body, o):
    if o is None:
        return ''
    if o['k'] == 'const':
        return o.get('ty', '')
    pl = o['pl']
    t = body.locals[pl['l']] if pl['l'] < len(body.locals) else ''
    if pl['p']:
        return ''   # projected: unknown without layout; callers fall back
    return t


def width_bounded(body, o, depth=0):
    """an upper bound (in bits) of an unsigned operand derived from narrow sources: const, cast from u8/u16, len() (<= 2^32 assumed
    for in-memory slices is NOT used: slice lengths are bounded by their backing arrays, which callers state in the table)"""
    if o is None or depth > 4:
        return None
    if o['k'] == 'const':
        try:
            v = int(o.get('val')) if 'val' in o else None
        except (TypeError, ValueError):
            v = None
        if v is None:
            cv = q.const_val(body, o)
            v = cv
        return max(1, v.bit_length()) if v is not None else None
    s = q.sem(body, o)
    return _wb_sem(body, s, depth)


def _wb_sem(body, s, depth):
    if s.kind == 'const':
        try:
            return max(1, int(s.extra.get('val')).bit_length())
        except Exception:
            return None
    if s.kind == 'cast':
        inner = s.extra[0]
        tgt = s.extra[1]
        w = None
        if inner.kind == 'place':
            t = body.locals[inner.local] if not inner.proj and inner.local < len(body.locals) else field_type(body, inner)
            w = NARROW.get(t)
        if w is None:
            w = _wb_sem(body, inner, depth + 1)
        if w is None and inner.kind == 'call':
            w = None
        return w
    if s.kind == 'place':
        t = body.locals[s.local] if not s.proj and s.local < len(body.locals) else field_type(body, s)
        return NARROW.get(t)
    if s.kind == 'call':
        c = s.cs.callee or ''
        if c.endswith('read_u8') or c.endswith('peek_at'):
            return 8
        if c.endswith('read_u16_be') or c.endswith('read_u16_le'):
            return 16
        if s.cs.declared in ('core::convert::From::from', 'core::convert::Into::into') and s.cs.args and not s.proj and not s.cs.dest['p'] and body.locals[s.cs.dest['l']] in BITS:
            # lossless integer widening (`usize::from(x)` / `u32::from(x)`): as wide as its argument
            a = s.cs.args[0]
            w = width_bounded(body, a, depth + 1)
            if w is None:
                w = NARROW.get(ty_of(body, a))
            return w
        return None
    if s.kind == 'bin':
        o = s.extra
        a, b = width_bounded(body, o[2], depth + 1), width_bounded(body, o[3], depth + 1)
        if a is None or b is None:
            return None
        op = o[1].replace('WithOverflow', '')
        if op == 'Add':
            return max(a, b) + 1
        if op == 'Mul':
            return a + b
        if op in ('Sub', 'Div', 'Rem', 'BitAnd', 'Shr'):
            return a
        if op in ('BitOr', 'BitXor'):
            return max(a, b)
        return None
    return None


def field_type(body, s):
    """type string of a projected place through the program's ADT table (last field only)"""
    try:
        P = body.prog
        last = [p for p in s.proj if p.startswith('field:')]
        if not last:
            return ''
        nm = last[-1].split(':', 2)[2]
        # find the struct: walk all ADTs with that field name and a narrow type (ambiguity -> '')
        cands = set()
        for a in P.adts.values():
            for v in a['variants']:
                for f in v['fields']:
                    if f['name'] == nm:
                        cands.add(f['ty'])
        if len(cands) == 1:
            return cands.pop()
    except Exception:
        pass
    return ''


class Site:
    def __init__(self, body, kind, op, ops, line, mac, block, cs=None, cond=None):
        self.body, self.kind, self.op, self.ops, self.line, self.mac, self.block, self.cs = body, kind, op, ops, line, mac, block, cs
        self.cond = cond
        self.fn = re.sub(r'::\{promoted#\d+\}$', '', body.path)
        ctx = closure_context(body)
        if ctx is not None:
            # the callback of an iterator adapter belongs to the function that drives the iterator
            self.fn = body.prog.logical_name(ctx[0])
        sigs = [operand_sig(body, o) for o in ops]
        if kind == 'assert' and op.split(':')[-1] in COMMUTATIVE and len(sigs) == 2:
            sigs.sort()
        self.sig = '%s(%s)' % (op, ', '.join(sigs)) if ops else op
        self.key = '%s | %s | %s' % (self.fn, kind, self.sig)
        self.discharge = None

    def loc(self):
        return '%s:%s' % (self.body.file, self.line)


def sites(P, crate):
    out = []
    gone = gone_closures(P)
    for b in P.all_bodies(crate=crate, statics=True):
        if b.path in gone and b.kind == 'Closure':
            continue
        b._ensure()
        for i, blk in enumerate(b.blocks):
            if blk['cleanup'] or ('b', i) not in b.reachable:
                continue
            t = blk['term']
            if t['t'] == 'assert':
                if t['kind'].startswith('Resumed'):
                    continue
                sp = t['span']
                out.append(Site(b, 'assert', '%s%s' % (t['kind'], (':' + t['op']) if t.get('op') else ''), t.get('a', []), sp['line'], sp.get('mac', '') if sp.get('exp') else '', i, cond=t.get('cond')))
        for cs in b.calls():
            c = cs.callee or ''
            d = cs.declared or ''
            kind = None
            if cs.is_(*PANIC_CALLS):
                kind = 'unwrap'
            elif c.startswith('core::panicking::') or c.startswith('std::rt::begin_panic') or c.startswith('core::panic'):
                kind = 'panic'
            elif d in INDEX_TRAITS or 'slice::index' in c:
                kind = 'index'
            elif d in ARITH_TRAITS:
                kind = 'arith-trait'
            elif any(c.endswith('::' + s) for s in SLICE_PANICS) and ('[T]' in c or 'alloc::vec::Vec' in c or 'slice' in c):
                kind = 'slice-op'
            elif c.endswith('::unwrap_unchecked') or c.endswith('::unreachable_unchecked'):
                kind = 'unchecked'
            if kind:
                out.append(Site(b, kind, c.rsplit('::', 1)[-1] if kind != 'arith-trait' else c, cs.args if kind in ('arith-trait', 'index', 'slice-op', 'unwrap') else [], cs.line, cs.mac if cs.exp else '', cs.block, cs))
    return out


def auto_discharge(s):
    """returns a reason string if the site cannot panic by a local, recognisable argument"""
    b = s.body
    if b.kind in ('Const', 'AssocConst') or (b.is_promoted and False):
        return 'compile-time constant: an overflow is a compile error'
    if s.mac.startswith('tokio:') and 'select' in s.mac:
        return 'inside the tokio::select! expansion (trusted: tokio; branch masks are 1 << literal, start % literal)'
    if s.kind == 'arith-trait' and (s.cs.callee or '').startswith('<tokio::time::instant::Instant as core::ops::arith::Add<core::time::Duration>>::add') and len(s.ops) == 2:
        a0, a1 = q.sem(b, s.ops[0]), q.sem(b, s.ops[1])
        if a0.kind == 'call' and (a0.cs.callee or '').endswith('Instant::now') and a1.kind == 'call' and not a1.proj and (a1.cs.callee or '').startswith('rodbus::retry::RetryStrategy::after_'):
            return 'now + the retry delay just chosen by the local RetryStrategy (configuration, not peer input)'
    if s.kind == 'slice-op' and (s.cs.callee or '').endswith('::copy_from_slice') and len(s.ops) == 2:
        # dst.copy_from_slice(src) with dst = x.get_mut(0..src.len())? : the lengths are equal by construction
        d_ = q.sem(b, s.ops[0])
        if d_.kind == 'call' and (d_.cs.callee or '').endswith('::get_mut') and q.has_success(d_.proj) and len(d_.cs.args) == 2:
            rng = q.sem(b, d_.cs.args[1])
            if rng.kind == 'agg' and isinstance(rng.extra, dict) and 'Range' in str(rng.extra.get('adt', '')) and len(rng.extra.get('a', [])) == 2 and q.const_val(b, rng.extra['a'][0]) == 0:
                e_ = q.sem(b, rng.extra['a'][1])
                if e_.kind == 'call' and (e_.cs.callee or '').endswith('::len') and e_.cs.args and q.same_value(b, e_.cs.args[0], s.ops[1]):
                    return 'copy_from_slice into get_mut(0..src.len()): source and destination have the same length by construction'
    if s.kind != 'assert':
        return None
    node = ('b', s.block)
    op = s.op
    ops = s.ops
    if op == 'BoundsCheck':
        ln, ix = (q.const_val(b, ops[0]), q.const_val(b, ops[1])) if len(ops) == 2 else (None, None)
        if ln is not None and ix is not None and ix < ln:
            return 'constant index %d into an array of %d' % (ix, ln)
        return None
    if op in ('DivisionByZero', 'RemainderByZero'):
        # the assert's condition is `divisor == 0`; its message operand is the dividend
        if s.cond is not None:
            org = b.origin(s.cond)
            if org[0] == 'bin' and org[1] == 'Eq':
                vals = [q.const_val(b, org[2]), q.const_val(b, org[3])]
                if 0 in vals and any(v not in (None, 0) for v in vals):
                    return 'divisor is the non-zero constant %d' % [v for v in vals if v not in (None, 0)][0]
            if org[0] == 'const' and org[3].get('val') == '0':
                return 'divisor is a non-zero constant (condition folded to false)'
        return None
    if op == 'Overflow:Shl' or op == 'Overflow:Shr':
        lhs_t = ty_of(b, ops[0]) or ''
        bits = BITS.get(lhs_t)
        amt = q.const_val(b, ops[1])
        if amt is not None:
            if bits is None:
                # literal `1 << k` typed by inference: k < 8 is safe for every integer type
                if amt < 8:
                    return 'shift by the constant %d' % amt
            elif amt < bits:
                return 'shift of a %s by the constant %d' % (lhs_t, amt)
        sm = q.sem(b, ops[1])
        inner = sm.extra[0] if sm.kind == 'cast' else sm
        if inner.kind == 'bin' and inner.extra[1] == 'Rem':
            m = q.const_val(b, inner.extra[3])
            if m is not None and m <= (bits or 8):
                return 'shift amount is (x %% %d)' % m
        return None
    if op == 'Overflow:Sub':
        a, c = ops
        if q.const_def(b, a) and str(q.const_def(b, a)).endswith('::MAX'):
            return 'TYPE::MAX - x cannot underflow for an unsigned x'
        facts = q.cmp_facts(b)
        if q.has_fact(b, node, 'le', lambda o: q.same_value(b, o, c), lambda o: q.same_value(b, o, a), facts):
            return 'dominated by %s <= %s' % (operand_sig(b, c), operand_sig(b, a))
        cv = q.const_val(b, c)
        if cv == 1 and (q.has_fact(b, node, 'ne', lambda o: q.same_value(b, o, a), lambda o: q.const_val(b, o) == 0, facts) or
                        q.has_fact(b, node, 'lt', lambda o: q.const_val(b, o) == 0, lambda o: q.same_value(b, o, a), facts)):
            return 'x - 1 dominated by x != 0'
        # (c + y) - c style: lhs is Add(const k, y) and rhs const <= k
        sa = q.sem(b, a)
        if sa.kind == 'bin' and sa.extra[1].startswith('Add') and cv is not None:
            ks = [q.const_val(b, sa.extra[2]), q.const_val(b, sa.extra[3])]
            if any(k is not None and k >= cv for k in ks):
                return '(k + y) - c with constant k >= c'
        return None
    if op in ('Overflow:Add', 'Overflow:Mul'):
        a, c = ops
        ta = ty_of(b, a) or ty_of(b, c)
        facts = q.cmp_facts(b)
        cv = q.const_val(b, c)
        if op == 'Overflow:Add' and cv == 1:
            def is_max(o):
                d = q.const_def(b, o)
                return bool(d) and str(d).endswith('::MAX')
            if q.has_fact(b, node, 'ne', lambda o: q.same_value(b, o, a), is_max, facts) or q.has_fact(b, node, 'lt', lambda o: q.same_value(b, o, a), lambda o: True, facts):
                return 'x + 1 dominated by x != MAX / x < bound'
        bits = BITS.get(ta)
        wa, wc = width_bounded(b, a), width_bounded(b, c)
        if bits and wa is not None and wc is not None:
            need = (max(wa, wc) + 1) if op == 'Overflow:Add' else (wa + wc)
            if need <= bits:
                return 'width: operands fit in %d and %d bits, result in %d <= %d (%s)' % (wa, wc, need, bits, ta)
        return None
    return None
