#!/usr/bin/env python3
"""Apply unified diffs (one at a time) to a scratch copy of /repo and run every property's quick rules.
usage: try_patch.py <patch.diff>...      prints the obligations that fail for each patch (none = silent)."""
import sys, os, subprocess, shutil, json
HERE = os.path.dirname(os.path.abspath(__file__))
sys.path.insert(0, HERE)
import extract, facts, core, selftest
import main as M


def main(argv):
    M.load_rules()
    d, repo = selftest.make_scratch()
    FX = facts.load([extract.extract_fixture()])
    out = {}
    try:
        for p in argv:
            subprocess.check_call(['rsync', '-a', '--delete', '--exclude', '/target', '--exclude', '/.git', extract.REPO + '/', repo + '/'])
            r = subprocess.run(['patch', '-p1', '--no-backup-if-mismatch', '-i', os.path.abspath(p)], cwd=repo, stdout=subprocess.PIPE, stderr=subprocess.STDOUT, text=True)
            if r.returncode != 0:
                print("== %s: DOES NOT APPLY %s" % (p, r.stdout[-300:]))
                out[p] = 'noapply'
                continue
            try:
                files, _ = extract.extract('default', repo=repo)
            except extract.NoVerdict as e:
                print("== %s: NO COMPILE %s" % (p, str(e)[-400:]))
                out[p] = 'nocompile'
                continue
            keep = os.environ.get('KEEP')
            if keep:
                nm = os.path.abspath(p).replace('/patch.diff', '').replace('/tmp/out-', '').replace('/', '-').strip('-')
                kd = os.path.join(keep, nm)
                os.makedirs(kd, exist_ok=True)
                files = [shutil.copy2(f, kd) for f in files]
            P = facts.load(files)
            il = getattr(P, 'inline_log', None)
            if il is not None and il.log:
                print('   inlined:', sorted(set((a.split('::')[-1] if '{' not in a.split('::')[-1] else '::'.join(a.split('::')[-2:]), b.split('::')[-1], h) for a, b, h in il.log)), 'kept:', sorted(il.kept))
            fired = {}
            for prop in sorted(core.RULES):
                c = core.Ctx(prop, P, 'quick', 'default', FX)
                c.run()
                for o in c.failed():
                    fired.setdefault(prop, []).append((o.key, o.detail, o.loc))
            print("== %s: %s" % (p, 'SILENT' if not fired else 'FIRED'))
            for prop, ks in fired.items():
                for k, dt, loc in ks:
                    print("     %s: %s [%s]" % (k, dt[:300], loc))
            out[p] = fired
    finally:
        shutil.rmtree(d, ignore_errors=True)
        shutil.rmtree(os.path.join(extract.CACHE, 'facts-scratch-default'), ignore_errors=True)
    return 0


if __name__ == '__main__':
    sys.exit(main(sys.argv[1:]))
