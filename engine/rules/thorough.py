"""thorough tier extras (seeded-variant selftest, witnesses, clippy cross-reference) -- filled in later"""
def run(prop, ctxs, seed):
    return {}
