"""thorough tier extras: seeded-variant battery (E5), compile-fail witnesses (E6), clippy cross-reference (C07).
The feature matrix itself is run by main.run_property (every configuration gets its own Ctx).
None of these can turn a verdict on the current tree red: they test the checker, not /repo."""
import os, subprocess, re, json, time
import extract, core

VERIF = core.VERIF
WITNESS_PROPS = {'C02': ['ReadHandlersAreShared'], 'C19': ['ReadHandlersAreShared'], 'C03': ['LimitNewtypeIsPrivate', 'WriteMultipleFieldsArePrivate'], 'C10': ['PromisesArePrivate']}


def run_selftest(prop):
    import selftest
    vs = selftest.load_variants(prop)
    if not vs:
        return {'variants': 0}
    rs = selftest.run_variants_parallel(prop, vs)
    out = {'variants': len(rs),
           'caught': sum(1 for r in rs if r['status'] in ('caught', 'caught-elsewhere')),
           'benign_silent': sum(1 for r in rs if r['status'] == 'silent-ok'),
           'missed': [r['variant'] for r in rs if r['status'] == 'MISSED'],
           'false_alarms': [r['variant'] for r in rs if r['status'] == 'FALSE-ALARM'],
           'skipped': [r['variant'] for r in rs if r['status'] in ('skipped', 'no-compile')],
           'details': [{'variant': r['variant'], 'status': r['status'], 'fired': r.get('fired', [])[:3]} for r in rs]}
    for v in out['missed']:
        print("SELFTEST: seeded variant %s of %s was NOT caught" % (v, prop))
    for v in out['false_alarms']:
        print("SELFTEST: behaviour-preserving variant %s of %s raised an alarm" % (v, prop))
    return out


def run_witnesses(prop):
    names = WITNESS_PROPS.get(prop)
    if not names:
        return None
    wdir = os.path.join(VERIF, 'engine', 'witness')
    try:
        import shutil
        shutil.copy2(os.path.join(extract.REPO, 'Cargo.lock'), os.path.join(wdir, 'Cargo.lock'))
    except OSError:
        pass
    env = dict(os.environ, CARGO_NET_OFFLINE='true', CARGO_TARGET_DIR=os.path.join(extract.CACHE, 'target-witness'))
    r = subprocess.run(['cargo', '+nightly', 'test', '--doc', '--offline'], cwd=wdir, env=env, stdout=subprocess.PIPE, stderr=subprocess.STDOUT, text=True)
    res = {}
    for m in re.finditer(r'test src/lib\.rs - (\w+) \(line \d+\)( - compile fail)? \.\.\. (\w+)', r.stdout):
        res.setdefault(m.group(1), []).append((bool(m.group(2)), m.group(3)))
    out = {'ran': r.returncode == 0 or 'test result' in r.stdout, 'witnesses': {}}
    for n in names:
        rs = res.get(n, [])
        out['witnesses'][n] = {'compile_fail_ok': any(cf and st == 'ok' for cf, st in rs), 'twin_compiles': any((not cf) and st == 'ok' for cf, st in rs)}
        if not (out['witnesses'][n]['compile_fail_ok'] and out['witnesses'][n]['twin_compiles']):
            print("WITNESS: %s did not behave as recorded (%s)" % (n, rs))
    return out


CLIPPY_LINTS = ['arithmetic_side_effects', 'indexing_slicing', 'unwrap_used', 'expect_used', 'panic', 'unreachable']


def run_clippy_xref(ctx):
    """an independently written enumerator (clippy restriction lints) must not know a panic-capable site in rodbus's
    non-test code that the P12 inventory does not list (compared by file:line)"""
    import panics
    env = dict(os.environ, CARGO_NET_OFFLINE='true', CARGO_TARGET_DIR=os.path.join(extract.CACHE, 'target-clippy'))
    flags = ' '.join('-W clippy::%s' % l for l in CLIPPY_LINTS)
    r = subprocess.run('cargo +nightly clippy --offline -p rodbus --message-format=json -- %s' % flags, shell=True, cwd=extract.REPO, env=env,
                       stdout=subprocess.PIPE, stderr=subprocess.DEVNULL, text=True)
    sites = set()
    for line in r.stdout.splitlines():
        try:
            d = json.loads(line)
        except ValueError:
            continue
        msg = d.get('message') or {}
        code = (msg.get('code') or {}).get('code', '') or ''
        if not code.startswith('clippy::') or code.split('::')[1] not in CLIPPY_LINTS:
            continue
        for sp in msg.get('spans', []):
            if sp.get('is_primary') and sp.get('file_name', '').startswith('rodbus/src') :
                sites.add((sp['file_name'], sp['line_start'], code))
    inv = panics.sites(ctx.P, 'rodbus')
    lines = {}
    for s in inv:
        lines.setdefault((s.body.file, s.line), []).append(s)
    test_files = set()
    unknown = []
    for f, ln, code in sorted(sites):
        if (f, ln) in lines:
            continue
        # multi-line expressions: accept a site on a neighbouring line of the same function
        near = [k for k in lines if k[0] == f and abs(k[1] - ln) <= 3]
        if near:
            continue
        unknown.append('%s:%d %s' % (f, ln, code))
    # clippy also reports #[cfg(test)] code when building tests only; `cargo clippy -p rodbus` builds the lib target only
    return {'clippy_sites': len(sites), 'inventory_sites': len(inv), 'clippy_sites_missing_from_inventory': unknown[:20], 'ran': r.returncode == 0}


def run_benign(prop):
    """behaviour-preserving refactorings written by independent agents must not raise an alarm of this property"""
    import selftest
    rs = selftest.run_benign_for(prop)
    out = {'refactorings': len(rs), 'silent': sum(1 for r in rs if r['status'] == 'silent-ok'),
           'accepted_alarms': [r['variant'] for r in rs if r['status'] == 'accepted-alarm'],
           'not_evaluated_within_time_budget': sum(1 for r in rs if r['status'] == 'not-evaluated'),
           'false_alarms': [{'variant': r['variant'], 'fired': r['fired'][:3]} for r in rs if r['status'] == 'FALSE-ALARM']}
    for r in out['false_alarms']:
        print("SELFTEST: behaviour-preserving refactoring %s raised an alarm of %s: %s" % (r['variant'], prop, r['fired'][:2]))
    return out


def run(prop, ctxs, seed):
    extra = {}
    t0 = time.time()
    extra['selftest'] = run_selftest(prop)
    extra['benign_refactorings'] = run_benign(prop)
    w = run_witnesses(prop)
    if w is not None:
        extra['witnesses'] = w
    if prop == 'C07':
        x = run_clippy_xref(ctxs[0])
        extra['clippy_cross_reference'] = x
        for u in x['clippy_sites_missing_from_inventory']:
            print("XREF: clippy reports a panic-capable site the inventory does not list: %s" % u)
    extra['thorough_extras_wall_s'] = round(time.time() - t0, 1)
    return extra
