"""Per-property evidence / manifest text: what is decided, what is not, what is trusted."""

COMMON_TRUST = ['tokio (mpsc/oneshot FIFO and wake-ups, timers, select!)', 'scursor read/write cursors (bounds-checked accessors)', 'std collections / Mutex']

EXPLAIN = {
 'C02': "Decides the structural half of C02 on the MIR of the current tree, for all paths and all call sites: (R02.1) who-may-call - the eight RequestHandler methods are called only from Request::get_reply (its four read closures included) and BroadcastRequest::execute; (R02.2) those are reached only from SessionTask::handle_frame, itself only from run_one; (R02.3) inside handle_frame both dispatch sites are dominated by the Some edge of FunctionCode::get, the Ok edge of the checked Request::parse, the Allow edge of is_authorized (and unreachable from Deny), the matching FrameDestination arm, and the Some edge of handlers.get(frame unit id) / into_broadcast_request, with exact value-flow of function byte, cursor, request and handler; (R02.4) exactly-once shape - one acyclic handler call per get_reply arm, read closures pass their own argument, the getter is invoked once per AddressRange::iter() item in serialize and never from log, execute sits only in the loop over handlers.iter_mut(), one serialize per reply; (R02.5) the range given to write handlers is the very value parse_all validated against; (R02.6) &self/&mut self signature facts. It does NOT decide the values handlers receive, nor application state over request sequences.",
 'C08': "Decides the structural half of C08 for all paths of handle_frame and all arms of the authorization tables: (R08.1) is_authorized is evaluated once, after the checked parse, with frame.header.destination.into_unit_id() and the parsed request, and dominates every effectful call a parsed request can reach (effect summaries closed over the crate call graph); (R08.2) from the Deny edge no handler, lookup, lock, broadcast conversion or wire write is reachable except one reply_with_error(frame.header, request.get_function(), IllegalFunction) guarded by !is_broadcast, and the path does not rejoin the Allow path; (R08.3) check_authorization maps each Request variant to the same-named AuthorizationHandler callback with unit_id/role passed through and the matched payload's range/index; (R08.4) no stored decision: &self, no Authorization field, None arm returns Allow, every exit of the Handler arm returns check_authorization's value unchanged; (R08.5) provided trait methods return Deny, read-only policy table; (R08.6) AuthorizationType::Handler is built only in TlsServerConfig::handle_connection from the checked extract_modbus_role result; (R08.7) C-ABI wrappers call the same-named callback and unwrap_or(Deny). It does NOT decide equivalence with a no-authorization run or arbitrary policy functions.",
}

NOT_DECIDED = {
 'C02': "argument values seen by handlers (iterator arithmetic), application state after sequences of requests",
 'C08': "execution equality of allowed requests with the unauthorised server; policies as arbitrary functions; certificate parsing inside rx509",
}

TRUSTED = {
 'C02': COMMON_TRUST,
 'C08': COMMON_TRUST + ['rx509 / rustls certificate handling (role extension bytes)'],
}

TECHNIQUE = {
}
DEFAULT_TECHNIQUE = "custom MIR lint (rustc_private driver): dominance / reachability / who-may-call / match-table / exact value-flow rules"

DESIGN_REF = {p: "DESIGN.md section 4, %s" % p for p in ['C%02d' % i for i in range(1, 21)]}

NA_REASON = {}
