"""Per-property evidence text: what is decided, what is not, what is trusted."""
EXPLAIN = {}
NOT_DECIDED = {}
TRUSTED = {}
