"""Frozen table for C07/R07.1: panic-capable sites that need an invariant or a scope argument.
key = function | kind | operation(operands);  value = (class, reason).
class: peer = reachable from peer input, config = configuration / local API input only, local = internal invariant."""

TABLE = {
    '<&[bool] as rodbus::common::traits::Serialize>::serialize | assert | Overflow:Shl(1, (Iterator>::next(). as u8))':
        ('peer', 'bit position < 8: the position restarts for every byte (C01/R01.13, C03/R03.7)'),
    '<rodbus::client::requests::write_multiple::WriteMultipleIterator<T> as core::iter::traits::iterator::Iterator>::next | assert | Overflow:Add(*self.pos, 1)':
        ('peer', 'pos < range.count <= 65535 here (the pos == count guard returned None before), so pos + 1 fits u16'),
    '<rodbus::client::requests::write_multiple::WriteMultipleIterator<T> as core::iter::traits::iterator::Iterator>::next | assert | Overflow:Add(*self.pos, *self.range.start)':
        ('peer', 'AddressRange::try_from guarantees start + (count - 1) <= 65535 and pos < count here (C01/R01.5: AddressRange is constructed only by try_from)'),
    '<rodbus::client::requests::write_multiple::WriteMultipleIterator<T> as core::iter::traits::iterator::Iterator>::size_hint | assert | Overflow:Sub(*self.range.count, *self.pos)':
        ('peer', 'invariant pos <= range.count: pos starts at 0, grows by 1 per yielded item and next() stops at pos == count'),
    '<rodbus::retry::Doubling as rodbus::retry::RetryStrategy>::after_failed_connect | arith-trait | <u32 as core::ops::arith::Mul<core::time::Duration>>::mul(2, *self.current)':
        ('config', '2 * current delay: current <= configured max delay (configuration; overflows only for max > Duration::MAX / 2)'),
    '<rodbus::server::response::BitWriter<T> as rodbus::common::traits::Serialize>::serialize | assert | Overflow:Add(1, var:usize)':
        ('peer', 'num_bits is reset to 0 when it reaches 8 (C01/R01.13)'),
    '<rodbus::server::response::BitWriter<T> as rodbus::common::traits::Serialize>::serialize | assert | Overflow:Shl(1, var:usize)':
        ('peer', 'bit position < 8: the position restarts for every byte (C01/R01.13, C03/R03.7)'),
    '<rodbus::types::BitIterator as core::iter::traits::iterator::Iterator>::next | assert | Overflow:Add(*self.pos, 1)':
        ('peer', 'pos < range.count <= 65535 here (the pos == count guard returned None before), so pos + 1 fits u16'),
    '<rodbus::types::BitIterator as core::iter::traits::iterator::Iterator>::next | assert | Overflow:Add(*self.pos, *self.range.start)':
        ('peer', 'AddressRange::try_from guarantees start + (count - 1) <= 65535 and pos < count here (C01/R01.5: AddressRange is constructed only by try_from)'),
    '<rodbus::types::BitIterator as core::iter::traits::iterator::Iterator>::size_hint | assert | Overflow:Sub(*self.range.count, *self.pos)':
        ('peer', 'invariant pos <= range.count: pos starts at 0, grows by 1 per yielded item and next() stops at pos == count'),
    '<rodbus::types::RegisterIterator as core::iter::traits::iterator::Iterator>::next | assert | Overflow:Add(*self.pos, *self.range.start)':
        ('peer', 'AddressRange::try_from guarantees start + (count - 1) <= 65535 and pos < count here (C01/R01.5: AddressRange is constructed only by try_from)'),
    '<rodbus::types::RegisterIterator as core::iter::traits::iterator::Iterator>::next | assert | Overflow:Add(*self.pos, 1)':
        ('peer', 'pos < range.count <= 65535 here (the pos == count guard returned None before), so pos + 1 fits u16'),
    '<rodbus::types::RegisterIterator as core::iter::traits::iterator::Iterator>::size_hint | assert | Overflow:Sub(*self.range.count, *self.pos)':
        ('peer', 'invariant pos <= range.count: pos starts at 0, grows by 1 per yielded item and next() stops at pos == count'),
    'rodbus::client::task::ClientLoop::execute_request::{closure#0} | arith-trait | <tokio::time::instant::Instant as core::ops::arith::Add<core::time::Duration>>::add(Instant::now(), *request.timeout)':
        ('config', 'deadline = now + request.timeout: the timeout is a parameter of the local request (configuration, not peer input)'),
    'rodbus::client::task::ClientLoop::fail_requests_for::{closure#0} | arith-trait | <tokio::time::instant::Instant as core::ops::arith::Add<core::time::Duration>>::add(Instant::now(), duration)':
        ('config', 'now + retry delay chosen by the local RetryStrategy (configuration)'),
    'rodbus::common::buffer::ReadBuffer::len | assert | Overflow:Sub(*self.end, *self.begin)':
        ('peer', 'invariant begin <= end: read()/read_u8() advance begin only after checking len() >= n, read_some() only grows end or rebases both (C05/R05.6 restricts the writers)'),
    'rodbus::common::buffer::ReadBuffer::peek_at | assert | Overflow:Add(*self.begin, idx)':
        ('peer', 'usize arithmetic on indices bounded by the 260-byte buffer (begin <= end <= 260; idx and count are checked against len() or are small constants plus one received byte)'),
    'rodbus::common::buffer::ReadBuffer::peek_at | assert | Overflow:Add(1, idx)':
        ('peer', 'usize arithmetic on indices bounded by the 260-byte buffer (begin <= end <= 260; idx and count are checked against len() or are small constants plus one received byte)'),
    'rodbus::common::buffer::ReadBuffer::read | assert | Overflow:Add(*self.begin, count)':
        ('peer', 'usize arithmetic on indices bounded by the 260-byte buffer (begin <= end <= 260; idx and count are checked against len() or are small constants plus one received byte)'),
    'rodbus::common::buffer::ReadBuffer::read_some::{closure#0} | assert | Overflow:Add(*self.end, PhysLayer::read())':
        ('peer', 'usize arithmetic on indices bounded by the 260-byte buffer (begin <= end <= 260; idx and count are checked against len() or are small constants plus one received byte)'),
    'rodbus::common::buffer::ReadBuffer::read_some::{closure#0} | index | index_mut(*self.buffer, agg)':
        ('peer', 'buffer[end..] with end <= buffer.len(): end grows only by the number of bytes the read placed into buffer[end..]'),
    'rodbus::common::buffer::ReadBuffer::read_some::{closure#0} | slice-op | copy_within(*self.buffer, agg, 0)':
        ('peer', 'copy_within(begin..end, 0) with begin <= end <= buffer.len()'),
    'rodbus::common::buffer::ReadBuffer::read_u8 | assert | Overflow:Add(*self.begin, 1)':
        ('peer', 'usize arithmetic on indices bounded by the 260-byte buffer (begin <= end <= 260; idx and count are checked against len() or are small constants plus one received byte)'),
    'rodbus::common::frame::Frame::payload | index | index(*self.pdu, agg)':
        ('peer', 'pdu[0..length]: length is only set by Frame::set to src.len() after checking src.len() <= pdu.len()'),
    'rodbus::common::frame::Frame::set | index | index_mut(*self.pdu, agg)':
        ('peer', 'guarded by `src.len() > self.pdu.len()` returning false; destination slice has exactly src.len() elements'),
    'rodbus::common::frame::Frame::set | slice-op | copy_from_slice(IndexMut<I>>::index_mut(), *src)':
        ('peer', 'guarded by `src.len() > self.pdu.len()` returning false; destination slice has exactly src.len() elements'),
    'rodbus::common::frame::FrameWriter::format_ex | index | index(*self.buffer, FrameWriter::format_generic())':
        ('peer', 'range produced by format_generic from WriteCursor positions inside self.buffer (start <= end <= buffer.len())'),
    'rodbus::common::frame::FrameWriter::format_generic | index | index(*self.buffer, FormatType::format().pdu_body)':
        ('peer', 'range produced by format_generic from WriteCursor positions inside self.buffer (start <= end <= buffer.len())'),
    'rodbus::common::frame::FrameWriter::format_generic | index | index(*self.buffer, agg)':
        ('peer', 'range produced by format_generic from WriteCursor positions inside self.buffer (start <= end <= buffer.len())'),
    'rodbus::common::frame::FrameWriter::format_reply | index | index(*self.buffer, FrameWriter::format_generic())':
        ('peer', 'range produced by format_generic from WriteCursor positions inside self.buffer (start <= end <= buffer.len())'),
    'rodbus::common::frame::FrameWriter::format_request | index | index(*self.buffer, FrameWriter::format_generic())':
        ('peer', 'range produced by format_generic from WriteCursor positions inside self.buffer (start <= end <= buffer.len())'),
    'rodbus::common::phys::PhysLayer::write::{closure#0} | arith-trait | <tokio::time::instant::Instant as core::ops::arith::Add<core::time::Duration>>::add(*self.layer.as Serial.2.as Some.0, *self.layer.as Serial.1)':
        ('config', 'last activity + inter-character delay (<= 2 ms, derived from the configured baud rate)'),
    'rodbus::common::phys::calculate_inter_character_delay | arith-trait | <core::time::Duration as core::ops::arith::Div<u32>>::div(Duration::from_secs(), SerialPort>::baud_rate())':
        ('config', 'serial timing from the configured baud rate (configuration; note O2: a baud rate of 0 divides by zero - not peer input)'),
    'rodbus::common::phys::calculate_inter_character_delay | arith-trait | <core::time::Duration as core::ops::arith::Div<u32>>::div(Duration>>::mul(), 10)':
        ('config', 'serial timing from the configured baud rate (configuration; note O2: a baud rate of 0 divides by zero - not peer input)'),
    'rodbus::common::phys::calculate_inter_character_delay | arith-trait | <u32 as core::ops::arith::Mul<core::time::Duration>>::mul(35, Div<u32>>::div())':
        ('config', 'serial timing from the configured baud rate (configuration; note O2: a baud rate of 0 divides by zero - not peer input)'),
    'rodbus::common::serialize::calc_bytes_for_bits | assert | Overflow:Add(1, Div(num_bits, 8))':
        ('peer', 'num_bits / 8 + 1 on usize: num_bits is a u16 count or the length of an in-memory slice'),
    'rodbus::common::serialize::calc_bytes_for_registers | assert | Overflow:Mul(2, num_registers)':
        ('peer', '2 * n on usize: n is a u16 count or the length of a slice of at most 65535 registers (WriteMultiple::from)'),
    'rodbus::serial::frame::RtuParser::parse | assert | Overflow:Add((ReadBuffer::peek_at() as usize), *self.state.as ReadToOffsetForLength.1)':
        ('peer', 'usize sums of FUNCTION_CODE_LENGTH (1), CRC_LENGTH (2), the length_mode constants (<= 5) and one received byte (<= 255)'),
    'rodbus::serial::frame::RtuParser::parse | assert | Overflow:Add(2, Add(*self.state.as ReadFullBody.1, 1))':
        ('peer', 'usize sums of FUNCTION_CODE_LENGTH (1), CRC_LENGTH (2), the length_mode constants (<= 5) and one received byte (<= 255)'),
    'rodbus::serial::frame::RtuParser::parse | assert | Overflow:Add(*self.state.as ReadFullBody.1, 1)':
        ('peer', 'usize sums of FUNCTION_CODE_LENGTH (1), CRC_LENGTH (2), the length_mode constants (<= 5) and one received byte (<= 255)'),
    'rodbus::serial::frame::RtuParser::parse | assert | Overflow:Add(*self.state.as ReadToOffsetForLength.1, 1)':
        ('peer', 'usize sums of FUNCTION_CODE_LENGTH (1), CRC_LENGTH (2), the length_mode constants (<= 5) and one received byte (<= 255)'),
    'rodbus::serial::frame::format_rtu_pdu | unwrap | unwrap(WriteCursor::get())':
        ('local', 'cursor.get(start_frame..end_pdu_body): both are positions this function obtained from the same cursor, start first'),
    'rodbus::server::task::SessionTask::handle_frame::{closure#0} | unwrap | unwrap(Mutex::lock())':
        ('peer', "poisoned only if a panic happened under the handler lock: rodbus code under the lock is covered by this inventory; a panicking application handler is the application's"),
    'rodbus::tcp::frame::format_mbap | assert | Overflow:Add(1, Sub(WriteCursor::position(), WriteCursor::position()))':
        ('local', 'end_pdu - start_pdu + 1: cursor positions taken in that order (monotone), bounded by the 260-byte buffer'),
    'rodbus::tcp::frame::format_mbap | assert | Overflow:Sub(WriteCursor::position(), WriteCursor::position())':
        ('local', 'end_pdu - start_pdu + 1: cursor positions taken in that order (monotone), bounded by the 260-byte buffer'),
    'rodbus::tcp::frame::format_mbap | unwrap | expect(header.tx_id, "TCP requires tx id")':
        ('local', 'TCP frames always carry a transaction id: FrameWriter::tcp is only paired with MBAP readers / new_tcp_header (R07.2)'),
    'rodbus::tcp::server::ServerTask::run::{closure#0} | unwrap | unwrap(Receiver::recv())':
        ('local', 'self.rx.recv() cannot yield None while self.tx (a Sender kept in the same struct) is alive'),
    'rodbus::tcp::server::SessionTracker::get_next_id | assert | Overflow:Add(*self.id, 1)':
        ('peer', 'u128 session counter + 1 per accepted connection'),
    'rodbus::types::RegisterIterator::collect_vec | assert | Overflow:Add((Iterator>::next(). as u16), self.range.start)':
        ('peer', 'AddressRange::try_from guarantees start + (count - 1) <= 65535 and pos < count here (C01/R01.5: AddressRange is constructed only by try_from)'),
}
