#!/usr/bin/env python3
"""Freeze the function decomposition the rules were confirmed against: every fn / method of rodbus and rodbus-ffi on the
pinned tree, over all feature configurations that have been extracted.  (see inline.py)"""
import glob, os, json, sys
HERE = os.path.dirname(os.path.abspath(__file__))
sys.path.insert(0, HERE)
import facts, extract
out = set()
sigs = {}
adts = set()
callees = {}
for cfg in extract.CONFIGS:
    extract.extract(cfg)
    d = os.path.join(extract.CACHE, 'facts-main-' + cfg)
    for f in glob.glob(os.path.join(d, '*.facts.jsonl')):
        for line in open(f):
            dd = json.loads(line)
            if 'adt' in dd:
                adts.add(facts.norm(dd['adt']))
            if 'path' in dd and not dd.get('promoted') and dd.get('kind') in ('Fn', 'AssocFn', 'Closure'):
                import re as _re
                owner = _re.sub(r'(::\{closure#\d+\})+$', '', facts.norm(dd['path']))
                for bl in dd['blocks']:
                    t = bl['term']
                    if t['t'] == 'call' and (t.get('resolved') or t.get('callee')):
                        callees.setdefault(owner, set()).add(facts.norm(t.get('resolved') or t['callee']))
            if 'path' in dd and dd.get('kind') in ('Fn', 'AssocFn') and not dd.get('promoted'):
                out.add(facts.norm(dd['path']))
                pn = sorted(((pl['l'], n) for n, pl in (dd.get('names') or {}).items() if not pl['p'] and 1 <= pl['l'] <= dd.get('argc', 0) and '#' not in n))
                sigs[facts.norm(dd['path'])] = (dd.get('kind'), dd.get('asyncness', False), tuple(dd.get('sig_in') or []), dd.get('sig_out'), [n for _, n in pn] if len(pn) == dd.get('argc', 0) else None)
with open(os.path.join(HERE, 'known_fns.txt'), 'w') as fh:
    fh.write("# functions of rodbus / rodbus-ffi on the pinned tree (all feature configurations); anything else is an unknown helper and is inlined\n")
    for p in sorted(out):
        fh.write(p + '\n')
json.dump({p: list(v) + [sorted(callees.get(p, []))[:60]] for p, v in sorted(sigs.items())}, open(os.path.join(HERE, 'known_sigs.json'), 'w'), indent=0)
open(os.path.join(HERE, 'known_adts.txt'), 'w').write('\n'.join(sorted(a for a in adts if a.split('::')[0] in ('rodbus', 'rodbus_ffi'))) + '\n')
print(len(out))
