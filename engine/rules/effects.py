"""P14: effect classes of functions, closed transitively over the crate call graph."""
import collections, re
from facts import norm
import q

RH = 'rodbus::server::handler::RequestHandler::'
APP_METHODS = [RH + m for m in ('read_coil', 'read_discrete_input', 'read_holding_register', 'read_input_register',
                                'write_single_coil', 'write_single_register', 'write_multiple_coils', 'write_multiple_registers')]
WIRE = {'rodbus::common::phys::PhysLayer::write', 'rodbus::common::phys::PhysLayer::read',
        'tokio::io::util::async_write_ext::AsyncWriteExt::write_all', 'tokio::io::util::async_read_ext::AsyncReadExt::read'}
SYNC_PREFIX = ('tokio::sync::mpsc::', 'tokio::sync::oneshot::', 'std::sync::poison::mutex::Mutex::lock', 'std::sync::mpsc::',
               'tokio::task::spawn::spawn', 'tokio::time::', 'tokio::net::', 'tokio_rustls::', 'tokio_serial::', 'std::thread::',
               'tokio::runtime::', 'std::sync::poison::rwlock')
COMPLETION_SUFFIX = ('Promise::success', 'Promise::failure', 'Promise::complete', 'RequestDetails::fail',
                     'sfio_promise::FutureType::complete', 'FutureType::complete', 'FutureType::on_drop')
LISTENER = ('rodbus::client::listener::Listener::update',)
# external mutators through a `&mut` receiver that rodbus uses on its own state
EXT_MUTATORS = ('alloc::collections::btree::map::BTreeMap::insert', 'alloc::collections::btree::map::BTreeMap::remove',
                'std::collections::hash::map::HashMap::insert', 'std::collections::hash::map::HashMap::remove',
                'alloc::vec::Vec::push', 'core::option::Option::take', 'core::mem::replace', 'core::mem::swap', 'core::mem::take')


def direct_effects(P, body):
    """set of effect-class strings touched directly by this body"""
    eff = set()
    for cs in body.calls():
        if q.is_tracing(cs):
            continue
        names = cs.names()
        c = cs.callee or ''
        if names & WIRE:
            eff.add('wire')
        if any(n in APP_METHODS for n in names):
            eff.add('app')
        if cs.declared in APP_METHODS:
            eff.add('app')
        if cs.indirect is not None or (cs.declared or '').startswith('core::ops::function::Fn'):
            # calling a closure / fn pointer: the getter closures of BitWriter/RegisterWriter, boxed callbacks
            if not (cs.resolved and '{closure#' in cs.resolved and (cs.exp and cs.mac.startswith('tracing'))):
                eff.add('indirect')
        if any(c.startswith(p) for p in SYNC_PREFIX) or any((cs.declared or '').startswith(p) for p in SYNC_PREFIX):
            eff.add('sync')
        if any(c.endswith(s) for s in COMPLETION_SUFFIX):
            eff.add('completion')
        if names & set(LISTENER):
            eff.add('sync')
        if any(c.startswith(m) for m in EXT_MUTATORS):
            # only a state effect when the receiver is reached through a reference parameter / upvar
            if cs.args:
                s = q.sem(body, cs.args[0])
                if s.kind == 'place' and s.local <= body.argc and 'deref' in s.proj:
                    eff.add('state')
    # writes through a reference that came in as parameter / captured variable
    for i, s in body.assigns():
        pl = s['pl']
        if 'deref' in pl['p']:
            base = pl['l']
            if base <= body.argc and base != 0:
                eff.add('state')
                continue
            sm = q.sem(body, {'l': base, 'p': []})
            if sm.kind in ('place', 'awaited-place') and sm.local is not None and sm.local <= body.argc and sm.local != 0:
                eff.add('state')       # e.g. `Enabled { current, .. } => *current = 0` through `&mut self.state`
            elif sm.kind in ('call', 'poll', 'select', 'branch') or (sm.kind == 'place' and sm.extra == 'multi'):
                eff.add('state')       # write through a reference obtained from a call: assume it is shared state
    return eff


class Effects:
    def __init__(self, P):
        self.P = P
        self.direct = {}
        self.callees = collections.defaultdict(set)
        self.impls_by_trait_method = collections.defaultdict(set)
        for b in P.all_bodies():
            self.direct[b.path] = direct_effects(P, b)
            if b.trait:
                m = b.path.rsplit('::', 1)[-1]
                self.impls_by_trait_method[norm(b.trait) + '::' + m].add(b.path)
        for b in P.all_bodies():
            for cs in b.calls():
                if q.is_tracing(cs):
                    continue
                tgt = set()
                if cs.resolved and P.has(cs.resolved):
                    tgt.add(cs.resolved)
                elif cs.declared and P.has(cs.declared) and not cs.trait:
                    tgt.add(cs.declared)
                elif cs.declared and cs.trait:
                    # unresolved trait dispatch (dyn / generic): every impl in the analysed crates
                    tgt |= self.impls_by_trait_method.get(cs.declared, set())
                    if P.has(cs.declared):
                        tgt.add(cs.declared)   # provided method
                for t in tgt:
                    self.callees[b.path].add(t)
                    # an async fn's effects happen in its coroutine body
                    if P.has(t + '::{closure#0}'):
                        self.callees[b.path].add(t + '::{closure#0}')
            # closures / coroutines constructed here are (conservatively) executed here
            for i, s in b.assigns():
                rv = s['rv']
                if rv['r'] == 'agg':
                    for k in ('closure', 'coroutine'):
                        if k in rv:
                            cp = norm(rv[k])
                            if P.has(cp):
                                # tracing's callsite closures are noise
                                if s.get('exp') and any(cs.exp and cs.mac.startswith('tracing') for cs in b.calls()):
                                    pass
                                self.callees[b.path].add(cp)
        self._trans = {}

    def of(self, path):
        """transitive effect set of function `path` (a def path in the analysed crates)"""
        if path in self._trans:
            return self._trans[path]
        seen = set()
        st = [path]
        eff = set()
        while st:
            p = st.pop()
            if p in seen:
                continue
            seen.add(p)
            eff |= self.direct.get(p, set())
            st.extend(self.callees.get(p, ()))
        self._trans[path] = eff
        return eff

    def of_call(self, cs):
        """effects of a call site: crate-local callee -> transitive summary; external -> classification"""
        P = self.P
        eff = set()
        names = cs.names()
        c = cs.callee or ''
        local = [n for n in names if P.has(n)]
        if cs.declared and cs.trait and not (cs.resolved and P.has(cs.resolved)):
            local += list(self.impls_by_trait_method.get(cs.declared, ()))
        for n in local:
            eff |= self.of(n)
            if P.has(n + '::{closure#0}'):
                eff |= self.of(n + '::{closure#0}')
        if names & WIRE:
            eff.add('wire')
        if any(n in APP_METHODS for n in names):
            eff.add('app')
        if cs.indirect is not None or (cs.declared or '').startswith('core::ops::function::Fn'):
            if cs.resolved and P.has(cs.resolved):
                pass
            else:
                eff.add('indirect')
        if any(c.startswith(p) for p in SYNC_PREFIX) or any((cs.declared or '').startswith(p) for p in SYNC_PREFIX):
            eff.add('sync')
        if any(c.endswith(s) for s in COMPLETION_SUFFIX):
            eff.add('completion')
        return eff

    def quiet_call(self, cs):
        return not self.of_call(cs)


_cache = {}


def get(P):
    k = id(P)
    if k not in _cache:
        _cache[k] = Effects(P)
    return _cache[k]
