"""E1 front-end: run the mirfacts driver over /repo's current working tree.

Every invocation re-extracts: the fingerprints of the workspace members are deleted, a fresh
RUN id is passed through the environment and must come back inside both fact files.
"""
import os, subprocess, sys, time, shutil, glob, json, uuid

VERIF = os.path.dirname(os.path.dirname(os.path.dirname(os.path.abspath(__file__))))
REPO = os.environ.get("VERIF_REPO", "/repo")
CACHE = os.path.join(VERIF, ".cache")
DRIVER_DIR = os.path.join(VERIF, "engine", "driver")
DRIVER = os.path.join(DRIVER_DIR, "target", "release", "mirfacts")
FIXTURE = os.path.join(VERIF, "fixtures", "posctl")

CONFIGS = {
    # name -> (cargo args, crates expected)
    "default": (["-p", "rodbus", "-p", "rodbus-ffi"], ["rodbus", "rodbus_ffi"]),
    "rodbus-nodefault": (["-p", "rodbus", "--no-default-features"], ["rodbus"]),
    "rodbus-serial": (["-p", "rodbus", "--no-default-features", "--features", "serial"], ["rodbus"]),
    "rodbus-tls": (["-p", "rodbus", "--no-default-features", "--features", "tls"], ["rodbus"]),
    "ffi-nodefault": (["-p", "rodbus-ffi", "--no-default-features"], ["rodbus", "rodbus_ffi"]),
}


class NoVerdict(Exception):
    pass


def sysroot():
    return subprocess.check_output(["rustc", "+nightly", "--print", "sysroot"], text=True).strip()


def build_driver(quiet=True):
    env = dict(os.environ, CARGO_NET_OFFLINE="true")
    r = subprocess.run(["cargo", "build", "--release", "--offline"], cwd=DRIVER_DIR, env=env,
                       stdout=subprocess.PIPE, stderr=subprocess.STDOUT, text=True)
    if r.returncode != 0 or not os.path.exists(DRIVER):
        raise NoVerdict("driver build failed:\n" + r.stdout[-4000:])


def _purge_fingerprints(target, names):
    for prof in ("debug",):
        fp = os.path.join(target, prof, ".fingerprint")
        if not os.path.isdir(fp):
            continue
        for n in names:
            for d in glob.glob(os.path.join(fp, n + "-*")):
                shutil.rmtree(d, ignore_errors=True)


def extract(config="default", repo=None, tag=None):
    """returns list of fact-file paths; raises NoVerdict if extraction did not run"""
    repo = repo or REPO
    if not os.path.exists(DRIVER):
        build_driver()
    args, crates = CONFIGS[config]
    # a scratch copy of the repo gets its own target dir key so that /repo's cache stays valid
    key = "main" if os.path.realpath(repo) == os.path.realpath(REPO) else "scratch"
    target = os.path.join(CACHE, "target-%s-%s" % (key, config))
    out = os.path.join(CACHE, "facts-%s-%s%s" % (key, config, ("-" + tag) if tag else ""))
    shutil.rmtree(out, ignore_errors=True)
    os.makedirs(out, exist_ok=True)
    os.makedirs(target, exist_ok=True)
    _purge_fingerprints(target, ["rodbus", "rodbus-ffi", "rodbus_ffi"])
    run = uuid.uuid4().hex
    env = dict(os.environ)
    env.update({
        "CARGO_NET_OFFLINE": "true",
        "LD_LIBRARY_PATH": os.path.join(sysroot(), "lib") + ":" + env.get("LD_LIBRARY_PATH", ""),
        "RUSTFLAGS": "-Awarnings",
        "RUSTC_WORKSPACE_WRAPPER": DRIVER,
        "CARGO_TARGET_DIR": target,
        "MIRFACTS_OUT": out,
        "MIRFACTS_CRATES": ",".join(crates),
        "MIRFACTS_RUN": run,
    })
    env.pop("RUSTC_WRAPPER", None)
    cmd = ["cargo", "+nightly", "check", "--offline", "--locked", "-j", "16"] + args
    t0 = time.time()
    r = subprocess.run(cmd, cwd=repo, env=env, stdout=subprocess.PIPE, stderr=subprocess.STDOUT, text=True)
    if r.returncode != 0:
        raise NoVerdict("cargo check under the driver failed (no verdict):\n" + r.stdout[-6000:])
    files = []
    for c in crates:
        f = os.path.join(out, c + ".facts.jsonl")
        if not os.path.exists(f):
            raise NoVerdict("extraction did not run for crate %s (no fact file)" % c)
        with open(f) as fh:
            meta = json.loads(fh.readline())
        if meta.get("run") != run:
            raise NoVerdict("stale fact file for crate %s" % c)
        files.append(f)
    return files, time.time() - t0


def extract_fixture():
    """positive controls: tiny crate analysed by the same driver"""
    pre = os.environ.get('VERIF_FIXTURE_FACTS')
    if pre and os.path.exists(pre):      # a parent process extracted it a moment ago (parallel self-test workers)
        return pre
    if not os.path.exists(DRIVER):
        build_driver()
    target = os.path.join(CACHE, "target-fixture")
    out = os.path.join(CACHE, "facts-fixture")
    shutil.rmtree(out, ignore_errors=True)
    os.makedirs(out, exist_ok=True)
    _purge_fingerprints(target, ["posctl"])
    run = uuid.uuid4().hex
    env = dict(os.environ)
    env.update({
        "CARGO_NET_OFFLINE": "true",
        "LD_LIBRARY_PATH": os.path.join(sysroot(), "lib") + ":" + env.get("LD_LIBRARY_PATH", ""),
        "RUSTFLAGS": "-Awarnings",
        "RUSTC_WORKSPACE_WRAPPER": DRIVER,
        "CARGO_TARGET_DIR": target,
        "MIRFACTS_OUT": out,
        "MIRFACTS_CRATES": "posctl",
        "MIRFACTS_RUN": run,
    })
    r = subprocess.run(["cargo", "+nightly", "check", "--offline"], cwd=FIXTURE, env=env,
                       stdout=subprocess.PIPE, stderr=subprocess.STDOUT, text=True)
    if r.returncode != 0:
        raise NoVerdict("fixture crate failed to compile:\n" + r.stdout[-4000:])
    f = os.path.join(out, "posctl.facts.jsonl")
    if not os.path.exists(f):
        raise NoVerdict("fixture extraction did not run")
    with open(f) as fh:
        meta = json.loads(fh.readline())
    if meta.get("run") != run:
        raise NoVerdict("stale fixture facts")
    return f


if __name__ == "__main__":
    cfg = sys.argv[1] if len(sys.argv) > 1 else "default"
    try:
        files, dt = extract(cfg)
        print(files, "%.1fs" % dt)
    except NoVerdict as e:
        print("NO VERDICT:", e)
        sys.exit(2)
